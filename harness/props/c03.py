"""C03  TOFU: a pinned host is never accepted with a different certificate

Correspondence: histories of `GeminiClient.get` / `upload` / redirect chains and `TOFUDatabase`
operations against scripted loopback TLS peers (harness/sim/client_tlspeer.py), compared step by step
(outcome kind, both fingerprints of the error, the rows of known_hosts, whether the peer received
application bytes) with `Misc.runSteps` of the Lean model through the driver's `tofu` line.

Families: `histories` (random histories, 3 hosts x 2 ports, store operations by a separate store object), `configured`
(client certificate, store operations - also an import that fails part-way, export + import - on the client's OWN store
object, redirects across host names, look-alike host names with `_` / `%`, HOME isolated: no other pin store may appear),
`small_scope` (exhaustive).  The pin store is observed by an independent read-only SQLite connection after every step.

Further dimensions of every history: LOOK-ALIKE certificates (another DER around the issuer name + serial number, or around the key,
of a certificate of the pool); `["age", days]` = time passes without anybody touching the store (all its timestamps move into the
past; a year boundary is in the value set); `["newclient", fault]` = the application builds one more GeminiClient on the store
while the file is locked by another connection / cannot be opened / cannot be written (sim/client_storefault.py); peers that SPEAK
FIRST (5th element of a hop, FIRST_MODES): a complete non-2x response sent without reading a request - in the TCP segment of a TLS 1.2
peer's Finished, or right after a TLS 1.3 handshake - so that the client holds a response before its pin check has run.
"""
from __future__ import annotations

import asyncio
import itertools
import os
import random
import shutil
import tempfile
from pathlib import Path

from ..core import Family
from ..sim.client_pki import CA_CERTS, DOTTED, LOOKALIKES, TWIN_CERTS, TWIN_OF
from ..sim.client_storefault import store_fault

ID = "C03"
READY = True
LEAN_TARGETS = ["NauyacaVerif.Props.C03"]
THEOREMS = [f"NauyacaVerif.C03.{t}" for t in (
    "connect_accept_iff", "connect_first_use", "connect_changed", "connect_unreadable", "connect_frame", "op_frame",
    "history_sound", "history_pinned", "redirect_every_hop", "redirect_follow_checked", "tofu_off",
    "first_use_race", "import_new", "import_conflict_skipped")]
LEAN_TARGETS = LEAN_TARGETS + ["NauyacaVerif.Props.Tr.SessionSql"]
TRANSLATED = ["getSingleTail", "uploadTail", "tofuVerify", "tofuTrust", "tofuRevoke", "tofuRevokeHost", "tofuClear"]
THEOREMS = THEOREMS + [f"NauyacaVerif.Translated.{t}" for t in (
    "getSingleTail_eq", "getSingleTail_off", "uploadTail_eq", "uploadTail_off", "tofuVerify_eq", "tofuTrust_eq", "tofuRevoke_eq",
    "tofuRevokeHost_eq", "tofuClear_eq", "getSingleTail_sql")]
EXTRACT: list[str] = []
ASSUMPTIONS = [
    "parameters of the model (not verified): the TLS handshake itself (OpenSSL/ssl delivers the peer's DER certificate unchanged through getpeercert(binary_form=True)), X.509 parsing (cryptography.x509: a certificate either loads or raises), SHA-256 (hashlib), SQLite (one row per (hostname, port); a committed statement is durable)",
    "a fingerprint is an opaque value in the model (Nat); two certificates are 'the same' iff their sha256(DER) strings are equal — the harness checks this with fingerprints that differ only in the last hex digit / only in the second half",
    "overlapping calls (asyncio.gather on one client, or two clients on one store) are modelled as ANY serialisation of their connects: verify + trust of one connection is assumed to be one uninterrupted step; the harness runs overlapping first connections with different certificates against a slowed-down store to check it",
    "the certificate pool includes an expired and a not-yet-valid certificate: the validity period is not part of the model (the property does not mention it), so the code must treat them like any other certificate",
    "hosts are the names localhost / 127.0.0.1 / 127.0.0.2 (three different TOFU keys served by the same scripted loopback peers) on two ports bound per process; "
    "the `configured` family adds look-alike names that exist in no DNS (my_host.test / my-host.test / myxhost.test / my%host.test, IPv6 literals with a zone id): "
    "socket.getaddrinfo is patched in the harness process to answer 127.0.0.1 for exactly these names, everything after name resolution is the real code",
    "the pin store is observed by an independent read-only SQLite connection (SELECT hostname, port, fingerprint FROM known_hosts) after every step: "
    "'host:port has a pinned fingerprint' means a committed row of the configured store file, whatever a connection object of the client may hold uncommitted",
    "HOME points to an empty temporary directory during every history, so a pin store other than the configured one would appear there",
    "time passing is simulated by rewriting first_seen / last_seen of every row with plain SQL (N days earlier), not by moving a clock: the code under test "
    "then sees the store as it would N days later, whichever clock it reads; the passing of time and the construction of a client object are not trust-store "
    "operations, so no pin may change at such a step (oracle pins-changed-without-operation) and the pins stay in force for the steps that follow",
    "a store that cannot be used while a client is being BUILT (EXCLUSIVE lock held by a second connection with a 50 ms busy timeout instead of SQLite's 5 s, "
    "sqlite3.connect raising 'unable to open database file', writes/commits failing) is injected through a shim for the sqlite3 module inside nauyaca.security.tofu; "
    "a constructor that raises leaves the application with the client object it had; one that returns hands over the client used from then on",
    "a peer that speaks first sends a complete header-only response (statuses 10, 31, 51, 60) without reading a request; the property lets nothing depend on "
    "who speaks when, so such a call is judged like any other (result, fingerprints of the error, pins); only whether the peer ALSO received a request is "
    "left out of the model comparison for these calls",
    "look-alike certificates are made by the harness with the `cryptography` package: same subject/issuer/serial number/validity/extensions around another key "
    "(self-signed, or issued by the harness CA), and a re-issue with the same key under another serial number; they differ from the original in sha256(DER) only as far as the pin is concerned",
]
LEVEL_TEXT = ("Lean 4 theorems over a hand-written model of the post-handshake pin check (GeminiClient._get_single / upload) and of "
              "TOFUDatabase.verify/trust/revoke/revoke_by_hostname/clear/import_toml, for ALL histories of fetches, uploads, redirect chains and "
              "store operations (no depth bound); the model is tied to /repo by differential runs of the real GeminiClient against scripted "
              "loopback TLS servers with RSA, EC, Ed25519 and a non-DER certificate, on every check run")
LEVEL_NOTE = ("proved for the model, not for the Python source: the TLS handshake, X.509 parsing, SHA-256 and SQLite are parameters; "
              "the model/code correspondence is established by generated histories (length <= 12 quick, <= 40 thorough, exhaustive for 2 hosts x 2 "
              "certificates x length <= 4 in thorough), not by proof")
TECHNIQUE = "interactive theorem proving (Lean 4, induction over histories) + model-based differential testing against live loopback TLS peers"

# the pin store is SQLite with a commit per operation: keep it on tmpfs when there is one
SHM = "/dev/shm" if os.path.isdir("/dev/shm") and os.access("/dev/shm", os.W_OK) else None

# host index -> name; 0..2 are served by name/address, 3.. are the look-alike names (resolved to 127.0.0.1 by the harness)
# the last ones (DOTTED_FIRST..) are absolute DNS names ("localhost."): used by C11 only
HOSTS = ["localhost", "127.0.0.1", "127.0.0.2"] + list(LOOKALIKES) + list(DOTTED)
N_PLAIN_HOSTS = 3
DOTTED_FIRST = N_PLAIN_HOSTS + len(LOOKALIKES)
# certificate index -> name in the peer's CertStore; 4 = expired (notAfter in the past), 5 = not valid yet,
# 6..8 = three certificates issued by the harness CA (for clients that verify the chain: verify_ssl=True)
# 9.. = LOOK-ALIKE certificates (sim/client_pki.py): other DER, but the issuer + serial number (+ subject, validity) of another
# certificate of the pool around another key, or another serial number around the same key
CERTS = ["rsa", "ec", "ed", "hostile", "expired", "notyet"] + list(CA_CERTS) + list(TWIN_CERTS)
READABLE = [0, 1, 2, 4, 5]                        # self-signed certificates cryptography.x509 can load (they have spelled variants)
CA_FIRST = 6                                      # index of the first CA-issued certificate
# fingerprint ids: 0..3, 6, 7 = the certificates, 4/5 = near misses of 0/1, 8.. = OTHER SPELLINGS of the same digests
# (import_toml accepts and stores them verbatim): id 8 + 3*i + j = certificate READABLE[i] spelled
# j=0 "sha256:<HEX>", j=1 "SHA256:<hex>", j=2 "SHA256:<HEX>"
N_BASE = 8
N_FP = N_BASE + 3 * len(READABLE)
# fingerprint id of each certificate; the CA-issued ones follow the spelled variants
CERT_FP = [0, 1, 2, 3, 6, 7] + [N_FP + i for i in range(len(CA_CERTS) + len(TWIN_CERTS))]
# (certificate, its look-alike) as indices into CERTS; SELF_TWINS = the self-signed ones (usable by clients that do not verify a chain)
TWIN_PAIRS = [(CERTS.index(o), CERTS.index(t)) for t, o in TWIN_OF.items()]
SELF_TWINS = [i for pr in TWIN_PAIRS for i in pr if not CERTS[i].startswith(("ca_", "tw_serial_ca"))]
# time that passes without anybody touching the store, in days (a year is 365 or 366 days; negative: the clock was set back)
AGES = [1, 30, 364, 366, 400, 3650, -30]
# condition of the store file while a NEW client object is built on it ("" = nothing special); see sim/client_storefault.py
NEWCLIENT_FAULTS = ["", "locked", "open", "write"]


def compact(ops) -> str:
    import json

    return json.dumps(ops, separators=(",", ":")) if ops else "none"


def pins(d) -> list:
    """the items of a pin map {(host, port): fingerprint} in a stable order.  A key component is an index (int) or, for a row whose
    host name / port nobody named, the string "?<what the store holds>": never compare the two kinds with each other"""
    return sorted(d.items(), key=lambda kv: tuple((0, x, "") if isinstance(x, int) else (1, 0, str(x)) for x in kv[0]))


def strangers(d) -> list:
    """rows of the store whose host name or port is none of the names / ports of the history (hid / pid gave "?…")"""
    return [kv for kv in pins(d) if any(not isinstance(x, int) for x in kv[0])]


# a peer that SPEAKS FIRST (6th element of a get / upload op, 5th of a hop): it sends a complete non-2x response without having
# read a request.  "fin12" = TLS 1.2 peer, the response leaves in the same TCP segment as its Finished (the client's event loop sees
# the end of the handshake and the response in ONE read, before the calling task runs again); "early" = the default (TLS 1.3) peer
# sends as soon as its handshake is over.  The property is indifferent to who speaks when: the pin check decides.
FIRST_MODES = ["fin12", "early"]
FIRST_REPLIES = [b"31 gemini://impostor.example/\r\n", b"51 nothing here\r\n", b"60 certificate wanted\r\n", b"10 your password\r\n"]


def hop_first(hop) -> str:
    return hop[4] if len(hop) > 4 and hop[4] else ""


def cert_desc(ci: int) -> str:
    n = CERTS[ci]
    if n in TWIN_OF:
        return (f"{n!r} (another DER - " + ("the key, subject and validity of" if n == "tw_key" else "another key around the subject, issuer, SERIAL NUMBER and validity of")
                + f" {TWIN_OF[n]!r})")
    return repr(n)


def spell(fp: str, j: int) -> str:
    alg, dig = fp.split(":", 1)
    return [alg + ":" + dig.upper(), alg.upper() + ":" + dig, alg.upper() + ":" + dig.upper()][j]


def sem(fpid):
    """the digest a stored pin denotes, as the id of its canonical spelling"""
    if isinstance(fpid, int) and N_BASE <= fpid < N_FP:
        return CERT_FP[READABLE[(fpid - N_BASE) // 3]]
    return fpid


def variant_id(cert: int, j: int) -> int:
    return N_BASE + 3 * READABLE.index(cert) + j


def fp_table(w) -> list[str]:
    c = w["certs"]
    f = [c[n].fingerprint for n in CERTS[:4]]
    f0, f1 = f[0], f[1]
    near0 = f0[:-1] + ("0" if f0[-1] != "0" else "1")                      # differs in the last hex digit only
    near1 = f1[:7 + 32] + "".join("0" if ch != "0" else "1" for ch in f1[7 + 32:])   # same first half
    base = f + [near0, near1] + [c[n].fingerprint for n in CERTS[4:6]]
    return base + [spell(base[CERT_FP[ci]], j) for ci in READABLE for j in range(3)] + [c[n].fingerprint for n in CA_CERTS + TWIN_CERTS]


# ----------------------------------------------------------------------------
# running one history on the real code
# ----------------------------------------------------------------------------
def _presented(cert: int, patch: str):
    """model view of what the client can read: fingerprint id or None (unreadable)"""
    return None if (cert == 3 or patch) else CERT_FP[cert]


class Runner:
    """Executes client operations of a history against the scripted peers; shared by C03 and C11."""

    def __init__(self):
        from ..sim import client_tlspeer as T

        from ..sim import client_pki

        self.T = T
        self.w = T.world()
        self.pki = client_pki.ensure(self.w)           # CA-issued server certificates, CA file, a client identity
        client_pki.install_resolver(LOOKALIKES + DOTTED)   # the look-alike names lead to the loopback peers
        self.peers = self.w["peers"]
        self.fps = fp_table(self.w)
        self.fpid = {f: i for i, f in enumerate(self.fps)}
        self.ports = [p.port for p in self.peers]
        self.loop = asyncio.new_event_loop()     # one loop per process: asyncio.run's teardown (executor shutdown) costs 40 ms a call

    def run(self, coro):
        return self.loop.run_until_complete(coro)

    def hid(self, hostname):
        return HOSTS.index(hostname) if hostname in HOSTS else f"?{hostname}"

    def pid(self, port):
        return self.ports.index(port) if port in self.ports else f"?{port}"

    def raw_rows(self, db: Path):
        """(hostname, port, fingerprint) of every COMMITTED row, read by an independent read-only connection"""
        import sqlite3

        if not Path(db).exists():
            return []
        conn = sqlite3.connect(f"file:{db}?mode=ro", uri=True, timeout=2.0)
        try:
            try:
                return [(r[0], int(r[1]), r[2]) for r in conn.execute("SELECT hostname, port, fingerprint FROM known_hosts")]
            except sqlite3.OperationalError as e:
                if "no such table" in str(e):
                    return []
                raise
        finally:
            conn.close()

    def rows(self, db: Path):
        out = [[self.hid(h), self.pid(p), self.fpid.get(f, f)] for h, p, f in self.raw_rows(db)]
        return sorted(out, key=lambda x: (str(x[0]), str(x[1])))

    def url(self, h: int, p: int, path: str) -> str:
        name = HOSTS[h]
        return f"gemini://{'[' + name + ']' if ':' in name else name}:{self.ports[p]}{path}"

    def take_logs(self):
        ents = []
        for p in self.peers:
            ents += p.take_log()
            p.clear()
        ents.sort(key=lambda e: e["t"])
        return ents

    def classify(self, exc):
        from nauyaca.security.tofu import CertificateChangedError

        if isinstance(exc, CertificateChangedError):
            return ["changed", self.fpid.get(exc.old_fingerprint, exc.old_fingerprint), self.fpid.get(exc.new_fingerprint, exc.new_fingerprint),
                    self.hid(exc.hostname), self.pid(exc.port)]
        if isinstance(exc, TimeoutError):
            return ["err", "timeout"]
        if type(exc) is ConnectionError:
            m = str(exc)
            if "closed before" in m:
                return ["err", "closed-early"]
            if m.startswith("Connection failed"):
                return ["err", "connect-failed"]
            return ["refused"]            # the client's own refusal (unreadable certificate)
        return ["err", type(exc).__name__]

    async def call(self, client, kind: str, hops: list, content: bytes = b"CONTENT", token: str | None = "TOK", query: str = "",
                   final: bytes = b"20 text/gemini\r\nhello\n", steps_for=None, mime: str = "text/gemini", path: str = "/hop0", extra_scripts=()):
        """one client call; hops = [[h, p, cert, patch], …] (a redirect chain when longer than 1).
        `steps_for(i, reply)` gives the byte-level script of hop i (default: read the request line, reply, close).
        A hop may carry a 5th element (FIRST_MODES): that peer speaks first - it sends its (non-2x) response without reading a request.
    A loader patch is process-wide for the duration of the call, so it is honoured on single-hop calls only.
        `extra_scripts` = [(port index, certificate index, steps), …]: scripts queued BEHIND those of the hops, for connections the
        call is not expected to make (what a peer would show if the client connected once more).
        Returns (result, url)."""
        T = self.T
        for i, hop in enumerate(hops):
            h, p, cert = hop[:3]
            first = hop_first(hop)
            if i + 1 < len(hops):
                reply = f"30 {self.url(hops[i + 1][0], hops[i + 1][1], f'/hop{i + 1}')}\r\n".encode()
            else:
                reply = final
            if first:
                # a peer that speaks first: a complete non-2x response (a header is all of it) without having read a request
                if i + 1 == len(hops):
                    # (redirects are followed on a chain: its last hop does not redirect once more)
                    pool = FIRST_REPLIES if len(hops) == 1 else [r for r in FIRST_REPLIES if r[:1] != b"3"]
                    reply = pool[(h + p + cert) % len(pool)]
                if first == "fin12" and cert < len(self.T.ALL_CERTS):     # (the "@12" contexts exist for the certificates of the CertStore)
                    self.peers[p].push(CERTS[cert] + "@12", [], with_finished=reply)     # rides on the TLS 1.2 Finished
                else:
                    self.peers[p].push(CERTS[cert], [["send", reply], ["read_eof", 2.0], ["close"]])
                continue
            # after a body-less reply the client closes first: wait for that (an abrupt close can turn the reply into a reset)
            tail = [["close"]] if reply[:1] == b"2" else [["read_eof", 2.0], ["close"]]
            steps = steps_for(i, reply) if steps_for else [["read_request", 3.0], ["send", reply]] + tail
            self.peers[p].push(CERTS[cert], steps)
        for p, cert, steps in extra_scripts:
            self.peers[p].push(CERTS[cert], steps)
        u = self.url(hops[0][0], hops[0][1], path + query)
        mode = hops[0][3] if len(hops) == 1 else ""
        try:
            with T.broken_cert_loader(mode):
                if kind == "get":
                    r = await client.get(u, follow_redirects=len(hops) > 1)
                elif kind == "upload":
                    r = await client.upload(u, content, mime_type=mime, token=token)
                elif kind == "delete":
                    r = await client.delete(u, token=token)
                else:
                    raise ValueError(kind)
            res = ["ok", r.status]
        except Exception as e:  # noqa: BLE001
            res = self.classify(e)
        return res, u


async def _par(self, client_a, client_b, call_a, call_b, slow: bool):
    """two OVERLAPPING single calls (asyncio.gather), on one client object or on two clients sharing the store.
    Which connection is shown which certificate is decided by the accept order, so the observation is per CONNECTION:
    [host.port:presented, result of the call that made it, did the peer receive a request]."""
    import time as _time

    from nauyaca.security.tofu import TOFUDatabase

    orig = TOFUDatabase.verify
    if slow:
        def slow_verify(db, *a, **k):      # a slow disk / busy database: the answer arrives a little late
            r = orig(db, *a, **k)
            _time.sleep(0.03)
            return r
        TOFUDatabase.verify = slow_verify
    try:
        outs = await asyncio.gather(
            self.call(client_a, call_a[0], [[call_a[1], call_a[2], call_a[3], ""]], path="/pa"),
            self.call(client_b, call_b[0], [[call_b[1], call_b[2], call_b[3], ""]], path="/pb"))
    finally:
        TOFUDatabase.verify = orig
    results = [o[0][:1] if o[0][0] == "ok" else o[0] for o in outs]
    logs = self.take_logs()
    calls = [call_a, call_b]
    assign: dict = {}
    for ci, path in enumerate((b"/pa", b"/pb")):
        cand = [j for j, e in enumerate(logs) if path in e["rx"] and j not in assign.values()]
        if cand:
            assign[ci] = cand[0]
    for ci, res in enumerate(results):
        if ci not in assign and res[0] == "changed":
            cand = [j for j, e in enumerate(logs) if j not in assign.values() and self.ports[calls[ci][2]] == e["port"]
                    and CERT_FP[CERTS.index(e["cert"])] == res[2]]
            if cand:
                assign[ci] = cand[0]
    for ci in range(2):
        if ci not in assign:
            cand = [j for j, e in enumerate(logs) if j not in assign.values() and self.ports[calls[ci][2]] == e["port"]]
            if cand:
                assign[ci] = cand[0]
    ents = []
    for ci, res in enumerate(results):
        key = (calls[ci][1], calls[ci][2])
        if ci in assign:
            e = logs[assign[ci]]
            ents.append([par_tag(key, _presented(CERTS.index(e["cert"]), "")), res, len(e["rx"]) > 0])
        else:
            ents.append([par_tag(key, "?"), res, False])
    return {"par": sorted(ents, key=repr), "result": None, "conns": [], "detail": {"certs": [e["cert"] for e in logs], "n_conns": len(logs)}}


Runner.par = _par


def op_keys(op):
    if op[0] in ("get", "upload"):
        return [(op[1], op[2])]
    if op[0] == "chain":
        return [(h[0], h[1]) for h in op[1]]
    if op[0] == "par":
        return [(op[1][1], op[1][2]), (op[2][1], op[2][2])]
    return []


def model_line(case) -> str:
    words = ["tofu", "on" if case["tofu"] else "off", "-"]
    for op in case["ops"]:
        k = op[0]
        if k in ("get", "upload"):
            pr = _presented(op[3], op[4])
            words.append(f"{'g' if k == 'get' else 'u'}:{op[1]}.{op[2]}.{'x' if pr is None else pr}")
        elif k == "chain":
            words.append("r:" + "/".join(f"{h[0]}.{h[1]}.{'x' if _presented(h[2], h[3]) is None else _presented(h[2], h[3])}" for h in op[1]))
        elif k == "trust":
            words.append(f"t:{op[1]}.{op[2]}={CERT_FP[op[3]]}")
        elif k == "revoke":
            words.append(f"v:{op[1]}.{op[2]}")
        elif k == "revoke_host":
            words.append(f"vh:{op[1]}")
        elif k == "clear":
            words.append("c")
        elif k == "par":
            def cw(c):
                pr = _presented(c[3], "")
                return f"{'g' if c[0] == 'get' else 'u'}.{c[1]}.{c[2]}.{'x' if pr is None else pr}"
            words.append(f"pa:{cw(op[1])}:{cw(op[2])}")
        elif k == "import":
            ents = ",".join(f"{e[0]}.{e[1]}={e[2]}" for e in op[3]) or "-"
            words.append(f"{'im' if op[1] == 'merge' else 'ir'}:{'u' if op[2] == 'update' else 's'}:{ents}")
        elif k in ("import_bad", "export_import", "age", "newclient"):
            # what the code does: an import that raises is rolled back as a whole (also the DELETE of replace mode);
            # export followed by import of the same file restores the same (host, port) -> fingerprint map;
            # time passing / building one more client object on the store (whatever state the file is in) changes no pin
            words.append("im:s:-")
        else:
            raise ValueError(op)
    return " ".join(words)


def par_tag(key, pres):
    return f"{key[0]}.{key[1]}:{'x' if pres is None else pres}"


def parse_store(s: str):
    if s == "-":
        return []
    out = []
    for e in s.split(","):
        k, f = e.split("=")
        h, p = k.split(".")
        out.append([int(h), int(p), int(f)])
    return out


def expected_steps(case, out: str):
    assert out.startswith("ok"), out
    steps = []
    toks = out.split(" ")[1:]
    assert len(toks) == len(case["ops"]), (out, case)
    for op, tok in zip(case["ops"], toks):
        if op[0] == "par":
            keys = op_keys(op)
            alts = []
            for alt in tok.split("~"):
                recs, store = alt.split(";")
                ents = []
                for c, key, r in zip(op[1:3], keys, recs.split(",")):
                    sent = int(r.rsplit(":", 1)[1]) > 0
                    if r.startswith("A"):
                        res = ["ok"]
                    elif r.startswith("C"):
                        a, b = r[1:].rsplit(":", 1)[0].split("/")
                        res = ["changed", int(a), int(b), key[0], key[1]]
                    else:
                        res = ["refused"]
                    ents.append([par_tag(key, _presented(c[3], "")), res, sent])
                alts.append({"par": sorted(ents, key=repr), "rows": parse_store(store)})
            steps.append({"alts": alts})
            continue
        recs, store = tok.split(";")
        st = {"rows": parse_store(store), "result": None, "conns": []}
        if recs != "-":
            keys = op_keys(op)
            rl = recs.split(",")
            for r in rl:
                st["conns"].append(int(r.rsplit(":", 1)[1]) > 0)
            last = rl[-1]
            k = keys[len(rl) - 1]
            if last.startswith("A"):
                st["result"] = ["ok"]
            elif last.startswith("C"):
                a, b = last[1:].rsplit(":", 1)[0].split("/")
                st["result"] = ["changed", int(a), int(b), k[0], k[1]]
            else:
                st["result"] = ["refused"]
        steps.append(st)
    return steps


_CTX = None


def _client_ctx():
    global _CTX
    if _CTX is None:
        import ssl

        from nauyaca.security.tls import create_client_context

        _CTX = create_client_context(verify_mode=ssl.CERT_NONE, check_hostname=False)
    return _CTX


class Histories(Family):
    """random histories over 3 hosts x 2 ports x 4 certificates (+ loader failures, near-miss fingerprints)"""
    realtime = True     # runs on the wall clock (sockets, threads): a failure is re-run once before it counts (core.run_family)
    name = "histories"
    quick_n = 1000
    thorough_n = 4000
    parallel = True          # every process binds its own ports (port 0) in setup()
    max_len_quick = 12
    max_len_thorough = 40

    def setup(self):
        self.R = Runner()

    # -- generation ----------------------------------------------------------------
    def rand_hop(self, rng, keys, allow_patch=True):
        h, p = rng.choice(keys)
        cert = rng.choice([0, 0, 1, 1, 2, 3, 4, 5])
        if rng.random() < 0.2:
            cert = rng.choice(SELF_TWINS)       # a certificate and its look-alikes (same issuer + serial / same key)
        patch = ""
        if allow_patch and rng.random() < 0.08:
            patch = rng.choice(["raise", "none"])
        if not patch and rng.random() < 0.07:
            # this peer speaks first (TLS 1.2: together with its Finished; TLS 1.3: as soon as its handshake is over)
            return [h, p, cert, patch, rng.choice(FIRST_MODES) if cert < 6 else "early"]
        return [h, p, cert, patch]

    def rand_op(self, rng, keys):
        if rng.random() < 0.04:
            return ["age", rng.choice(AGES)]
        r = rng.random()
        if r < 0.34:
            return ["get"] + self.rand_hop(rng, keys)
        if r < 0.48:
            return ["upload"] + self.rand_hop(rng, keys)
        if r < 0.62:
            n = rng.choice([2, 2, 3, 4])
            return ["chain", [self.rand_hop(rng, keys, allow_patch=False) for _ in range(n)]]
        if r < 0.70:
            h, p = rng.choice(keys)
            return ["trust", h, p, rng.choice(READABLE)]
        if r < 0.78:
            h, p = rng.choice(keys)
            return ["revoke", h, p]
        if r < 0.81:
            return ["revoke_host", rng.choice(keys)[0]]
        if r < 0.84:
            return ["clear"]
        ents = []
        for _ in range(rng.choice([0, 1, 1, 2, 3, 4])):
            h, p = rng.choice(keys) if rng.random() < 0.85 else (rng.randrange(3), rng.randrange(2))
            ents.append([h, p, rng.randrange(N_BASE) if rng.random() < 0.7 else rng.randrange(N_BASE, N_FP)])
        return ["import", rng.choice(["merge", "merge", "replace"]), rng.choice(["none", "skip", "update"]), ents]

    def gen(self, rng: random.Random, n: int):
        thorough = n > self.quick_n
        mx = self.max_len_thorough if thorough else self.max_len_quick
        # boundary histories first: the witnesses of the property text, for every certificate kind (a random few per shard)
        b = []
        for c1 in range(6):
            for c2 in range(6):
                b.append({"tofu": True, "fresh": False, "ops": [["get", 1, 0, c1, ""], ["get", 1, 0, c2, ""], ["upload", 1, 0, c2, ""], ["get", 1, 1, c2, ""]]})
        b.append({"tofu": True, "fresh": True, "ops": [["import", "merge", "none", [[0, 0, 4]]], ["get", 0, 0, 0, ""], ["import", "merge", "update", [[0, 0, 0]]], ["get", 0, 0, 0, ""]]})
        b.append({"tofu": True, "fresh": False, "ops": [["import", "replace", "none", [[1, 0, 5]]], ["upload", 1, 0, 1, ""], ["chain", [[0, 0, 0, ""], [1, 0, 1, ""]]]]})
        b.append({"tofu": True, "fresh": False, "ops": [["get", 0, 0, 0, "none"], ["get", 0, 0, 0, "raise"], ["get", 0, 0, 0, ""], ["upload", 0, 0, 1, "none"], ["get", 0, 0, 1, "raise"]]})
        # pins that entered the store through import_toml in another spelling, then the matching and another certificate
        for ci in READABLE:
            for j in range(3):
                other = READABLE[(READABLE.index(ci) + 1) % len(READABLE)]
                b.append({"tofu": True, "fresh": False, "ops": [["import", "merge", "none", [[0, 1, variant_id(ci, j)]]], ["get", 0, 1, other, ""],
                                                               ["upload", 0, 1, ci, ""], ["get", 0, 1, 3, ""]]})
        # a certificate and its look-alike (same issuer and serial number around another key; same key, another serial number), both orders
        for a, t in TWIN_PAIRS:
            if a in SELF_TWINS:
                for c1, c2 in ((a, t), (t, a)):
                    for fresh in (False, True):
                        b.append({"tofu": True, "fresh": fresh, "ops": [["get", 1, 0, c1, ""], ["get", 1, 0, c2, ""], ["upload", 1, 0, c2, ""], ["trust", 0, 1, c2], ["get", 0, 1, c1, ""]]})
        # time passes between two visits (the store ops of this family and `fresh` clients open the store file anew)
        for days in AGES:
            b.append({"tofu": True, "fresh": True, "ops": [["get", 1, 0, 0, ""], ["upload", 0, 1, 1, ""], ["age", days], ["get", 1, 0, 1, ""], ["upload", 0, 1, 1, ""], ["get", 1, 0, 0, ""]]})
            b.append({"tofu": True, "fresh": False, "ops": [["get", 1, 0, 0, ""], ["age", days], ["revoke", 2, 1], ["get", 1, 0, 1, ""], ["get", 1, 0, 0, ""]]})
        # a peer that SPEAKS FIRST: its complete (non-2x) response reaches the client with / right after the end of the handshake, no
        # request read.  Pinned host showing another (also an unreadable) certificate, the same one, an unpinned host; then the pin again
        for mode in FIRST_MODES:
            for kind in ("get", "upload"):
                for c1, c2 in ((0, 1), (1, 0), (0, 2), (4, 0), (1, 3), (0, 0), (1, 1)):
                    b.append({"tofu": True, "fresh": False, "ops": [["get", 1, 0, c1, ""], [kind, 1, 0, c2, "", mode], ["get", 1, 0, c1, ""], ["get", 1, 0, c2, ""]]})
                b.append({"tofu": True, "fresh": True, "ops": [[kind, 2, 1, 0, "", mode], ["get", 2, 1, 0, ""], ["upload", 2, 1, 1, "", mode], [kind, 2, 1, 3, "", mode]]})
            # … as a hop of a redirect chain (the one that redirects / the last one), the target pinned to another certificate
            b.append({"tofu": True, "fresh": False, "ops": [["trust", 0, 1, 1], ["chain", [[1, 0, 0, ""], [0, 1, 0, "", mode]]], ["get", 0, 1, 1, ""]]})
            b.append({"tofu": True, "fresh": False, "ops": [["trust", 1, 0, 1], ["chain", [[1, 0, 0, "", mode], [0, 1, 0, ""]]], ["get", 1, 0, 1, ""]]})
            b.append({"tofu": True, "fresh": False, "ops": [["chain", [[1, 0, 0, "", mode], [0, 1, 2, "", mode]]], ["get", 1, 0, 0, "", mode], ["get", 0, 1, 0, "", mode]]})
            b.append({"tofu": False, "fresh": False, "ops": [["get", 1, 0, 0, "", mode], ["upload", 1, 0, 1, "", mode]]})
        # overlapping first connections to one unpinned host:port, every pair of readable certificates
        for c1 in READABLE:
            for c2 in READABLE:
                for k2 in ("get", "upload"):
                    for two in (False, True):
                        b.append({"tofu": True, "fresh": False, "ops": [["par", ["get", 2, 1, c1], [k2, 2, 1, c2], two, True]]})
        nb = 0
        for c in self.share(b):          # deterministic list: shared out over the shards, never cut
            nb += 1
            yield c
        for i in range(max(0, n - nb)):
            allkeys = [(h, p) for h in range(3) for p in range(2)]
            keys = rng.sample(allkeys, rng.choice([1, 2, 2, 3, 4, 6]))
            ln = rng.randint(1, mx) if rng.random() < 0.8 else mx
            ops = [self.rand_op(rng, keys) for _ in range(ln)]
            if rng.random() < 0.3:
                # the history ends with two OVERLAPPING calls (the model cannot continue after a nondeterministic step)
                h, p = rng.choice(keys)
                c1 = rng.choice(READABLE + [3])
                c2 = c1 if rng.random() < 0.25 else rng.choice(READABLE + [3])
                if rng.random() < 0.5:
                    ops.append(["revoke", h, p])     # make it a FIRST connection more often
                if rng.random() < 0.85:
                    par = ["par", [rng.choice(["get", "upload"]), h, p, c1], [rng.choice(["get", "upload"]), h, p, c2]]
                else:
                    h2 = rng.randrange(3)
                    par = ["par", [rng.choice(["get", "upload"]), h, 0, c1], [rng.choice(["get", "upload"]), h2, 1, c2]]   # different ports
                ops.append(par + [rng.random() < 0.3, rng.random() < 0.7])
            yield {"tofu": rng.random() < 0.92, "fresh": rng.random() < 0.25, "ops": ops}

    # -- the real code ---------------------------------------------------------------
    def impl(self, case):
        from nauyaca.client.session import GeminiClient
        from nauyaca.security.tofu import TOFUDatabase

        R = self.R
        tmp = tempfile.mkdtemp(prefix="nv-", dir=SHM)
        db = Path(tmp) / "tofu.db"
        steps = []
        # the user's home is an empty directory for the run: any pin store other than the configured one shows up there
        home = Path(tmp) / "home"
        home.mkdir()
        old_home = os.environ.get("HOME")
        os.environ["HOME"] = str(home)
        own = bool(case.get("own"))

        def mk():
            kw = {}
            if getattr(self, "shared_ctx", False):
                # exhaustive family: thousands of clients; build nauyaca's own TOFU-mode context once per process
                kw["ssl_context"] = _client_ctx()
            if case.get("ident"):
                # the user has a client certificate (never requested by the scripted peers)
                kw["client_cert"], kw["client_key"] = R.pki["ident_cert"], R.pki["ident_key"]
            return GeminiClient(timeout=5.0, trust_on_first_use=case["tofu"], tofu_db_path=db if case["tofu"] else None, **kw)

        async def run():
            asyncio.get_running_loop().set_exception_handler(lambda loop, ctx: None)   # teardown noise of aborted TLS shutdowns
            TOFUDatabase(db)  # the store exists from the start (also with TOFU off, to observe that nobody writes it)
            client = mk()
            for op in case["ops"]:
                k = op[0]
                st = {"result": None, "conns": []}
                if k == "par":
                    st = await R.par(client, mk() if op[3] else client, op[1], op[2], op[4])
                elif k in ("get", "upload", "chain"):
                    if case["fresh"]:
                        client = mk()
                    hops = [op[1:6]] if k != "chain" else op[1]
                    if any(hop_first(hp) for hp in hops):
                        st["first"] = True       # a peer spoke first: whether it ALSO got a request is not part of the comparison
                    res, _ = await R.call(client, "upload" if k == "upload" else "get", hops)
                    logs = R.take_logs()
                    st["result"] = res[:1] if res[0] == "ok" else res
                    st["conns"] = [len(e["rx"]) > 0 for e in logs]
                    st["detail"] = {"status": res[1] if res[0] == "ok" else None, "certs": [e["cert"] for e in logs], "hs": [e["hs"] for e in logs]}
                    if st.get("first"):
                        st["detail"]["peer_errors"] = [e["err"] for e in logs]
                else:
                    # `own`: the store operation is made on the client's own TOFUDatabase object (an application that
                    # fetches and manages pins with one client); otherwise by a separate object on the same file (the CLI)
                    tdb = client.tofu_db if own and client.tofu_db is not None else TOFUDatabase(db)
                    if k == "trust":
                        tdb.trust(HOSTS[op[1]], R.ports[op[2]], R.w["certs"].x509(CERTS[op[3]]))
                    elif k == "revoke":
                        tdb.revoke(HOSTS[op[1]], R.ports[op[2]])
                    elif k == "revoke_host":
                        tdb.revoke_by_hostname(HOSTS[op[1]])
                    elif k == "clear":
                        tdb.clear()
                    elif k == "import":
                        import tomli_w

                        data = {"_metadata": {"version": "1.0"}, "hosts": {}}
                        for i, e in enumerate(op[3]):
                            data["hosts"][f"entry{i}"] = {"hostname": HOSTS[e[0]], "port": R.ports[e[1]], "fingerprint": R.fps[e[2]],
                                                          "first_seen": "2026-01-01T00:00:00+00:00", "last_seen": "2026-01-01T00:00:00+00:00"}
                        f = Path(tmp) / "import.toml"
                        f.write_bytes(tomli_w.dumps(data).encode())
                        cb = None if op[2] == "none" else (lambda *a, upd=(op[2] == "update"): upd)
                        tdb.import_toml(f, merge=(op[1] == "merge"), on_conflict=cb)
                    elif k == "import_bad":
                        # ["import_bad", mode, conflicts, valid entries, kind of the bad entry, its position]: an import that FAILS part-way
                        import tomli_w

                        ok_ts = {"first_seen": "2026-01-01T00:00:00+00:00", "last_seen": "2026-01-01T00:00:00+00:00"}
                        ents = [(f"entry{i}", {"hostname": HOSTS[e[0]], "port": R.ports[e[1]], "fingerprint": R.fps[e[2]], **ok_ts}) for i, e in enumerate(op[3])]
                        bad = {"hostname": "bad.example", "port": 1965, "fingerprint": R.fps[0], **ok_ts}
                        if op[4] == "fp":
                            bad["fingerprint"] = "sha256:not-a-fingerprint"
                        elif op[4] == "port":
                            bad["port"] = 70000
                        elif op[4] == "field":
                            del bad["last_seen"]
                        pos = min(op[5], len(ents))
                        ents.insert(pos, ("broken", bad))
                        data = {"_metadata": {"version": "1.0"}, "hosts": dict(ents)}
                        if op[4] == "nohosts":
                            data = {"_metadata": {"version": "1.0"}}
                        f = Path(tmp) / "import.toml"
                        f.write_bytes(tomli_w.dumps(data).encode())
                        cb = None if op[2] == "none" else (lambda *a, upd=(op[2] == "update"): upd)
                        try:
                            tdb.import_toml(f, merge=(op[1] == "merge"), on_conflict=cb)
                            st["raised"] = None
                        except ValueError:
                            st["raised"] = "ValueError"
                    elif k == "age":
                        # ["age", days]: `days` days pass without anybody touching the store - every timestamp in the file
                        # moves that far into the past (what the file looks like to code that starts `days` days later)
                        self.age_store(db, op[1])
                    elif k == "newclient":
                        # ["newclient", fault]: the application builds one more GeminiClient on the same store while the store
                        # file is in the given condition.  A constructor that raises leaves the application with its old client
                        try:
                            with store_fault(op[1] if case["tofu"] else None, db):
                                nc = mk()
                            client = nc
                            st["raised"] = None
                        except Exception as e:  # noqa: BLE001
                            st["raised"] = type(e).__name__
                    elif k == "export_import":
                        # backup and restore: ["export_import", "merge" | "replace" | "clear-merge"]
                        f = Path(tmp) / "export.toml"
                        tdb.export_toml(f)
                        if op[1] == "clear-merge":
                            tdb.clear()
                        tdb.import_toml(f, merge=(op[1] != "replace"))
                    else:
                        raise ValueError(op)
                st["rows"] = R.rows(db)
                steps.append(st)

        try:
            R.run(run())
            if steps:
                steps[-1]["stray"] = self.stray_stores(home)
        finally:
            if old_home is None:
                os.environ.pop("HOME", None)
            else:
                os.environ["HOME"] = old_home
            shutil.rmtree(tmp, ignore_errors=True)
        return steps

    @staticmethod
    def age_store(db: Path, days: int):
        """move first_seen / last_seen of every row `days` days into the past, with plain SQL (no nauyaca code involved)"""
        import datetime
        import sqlite3

        conn = sqlite3.connect(str(db))
        try:
            rows = list(conn.execute("SELECT rowid, first_seen, last_seen FROM known_hosts"))
            for rid, fs, ls in rows:
                new = []
                for v in (fs, ls):
                    try:
                        new.append((datetime.datetime.fromisoformat(v) - datetime.timedelta(days=days)).isoformat())
                    except (TypeError, ValueError):
                        new.append(v)
                conn.execute("UPDATE known_hosts SET first_seen = ?, last_seen = ? WHERE rowid = ?", (new[0], new[1], rid))
            conn.commit()
        finally:
            conn.close()

    def stray_stores(self, home: Path):
        """what appeared in the (empty) home directory during the history: [relative path, rows if it is a pin store]"""
        out = []
        for f in sorted(home.rglob("*")):
            if f.is_file():
                rows = None
                if f.suffix == ".db":
                    try:
                        rows = self.R.rows(f)
                    except Exception as e:  # noqa: BLE001
                        rows = f"unreadable: {type(e).__name__}"
                out.append([str(f.relative_to(home)), rows])
        return out

    # -- the model -----------------------------------------------------------------------
    def model(self, case):
        return model_line(case)

    def expect(self, case, out):
        return expected_steps(case, out)

    def same(self, expected, obs):
        if len(expected) != len(obs):
            return False
        for e, o in zip(expected, obs):
            if "alts" in e:
                # two overlapping calls: any serialisation is a legal outcome
                if "par" not in o or not any(a["par"] == o["par"] and a["rows"] == o["rows"] for a in e["alts"]):
                    return False
            elif e["rows"] != o["rows"] or e["result"] != o["result"]:
                return False
            elif (len(e["conns"]) != len(o["conns"])) if o.get("first") else (e["conns"] != o["conns"]):
                # (a peer that speaks first does not wait for the request: only the number of connections is compared)
                return False
        return True

    # -- the property statement, directly ----------------------------------------------------
    def oracle(self, case, obs):
        v = self.oracle_steps(case, obs)
        if v is None and obs and obs[-1].get("stray"):
            # "the pin store" of the property is the ONE the client was configured with: pins kept anywhere else are
            # neither checked by later connections of this configuration nor visible to revoke / clear / export
            return ("stray-pin-store", f"the client was configured with tofu_db_path=<tmp>/tofu.db (client certificate: {bool(case.get('ident'))}), "
                                       f"yet after the history {case['ops']!r} another store exists under the home directory: {obs[-1]['stray']}")
        return v

    def oracle_steps(self, case, obs):
        cur: dict = {}
        for i, (op, st) in enumerate(zip(case["ops"], obs)):
            after = {(r[0], r[1]): r[2] for r in st["rows"]}
            k = op[0]
            where = f"step {i} {op!r}"
            if k == "par":
                if not case["tofu"]:
                    if after != cur:
                        return ("tofu-off-store-written", f"{where}: TOFU disabled but the store changed {cur} -> {after}")
                    cur = after
                    continue
                groups: dict = {}
                for tag, res, sent in st["par"]:
                    kk, pres = tag.split(":")
                    key = tuple(int(x) for x in kk.split("."))
                    groups.setdefault(key, []).append((None if pres == "x" else pres if pres == "?" else int(pres), res))
                for key, grp in groups.items():
                    pin = cur.get(key)
                    acc = [pres for pres, res in grp if res[0] == "ok"]
                    if None in acc:
                        return ("unreadable-accepted", f"{where}: a connection to {key} presented an unreadable certificate and was accepted")
                    if "?" in acc:
                        continue
                    if pin is not None:
                        if any(a != sem(pin) for a in acc):
                            return ("accepted-with-different-cert", f"{where}: {key} is pinned to {pin}; overlapping connections presenting {acc} were accepted")
                        if after.get(key) != pin:
                            return ("pins-changed-on-failure", f"{where}: pin of {key} was {pin}, is {after.get(key)} after the overlapping calls {st['par']}")
                    else:
                        if len(set(acc)) > 1:
                            return ("concurrent-first-use-two-certs", f"{where}: two overlapping first connections to the unpinned {key} presented the different "
                                    f"certificates {sorted(set(acc))} and BOTH were accepted (pin afterwards: {after.get(key)}); after the first one pinned, the other had to fail")
                        if acc and after.get(key) != acc[0]:
                            return ("first-use-not-pinned", f"{where}: first connection(s) to {key} presented {acc[0]}, the pin afterwards is {after.get(key)}")
                        for pres, res in grp:
                            if acc and res[0] == "changed" and res[1:3] != [acc[0], pres]:
                                return ("changed-error-wrong-fingerprints", f"{where}: the error names {res[1:3]} instead of old={acc[0]} new={pres}")
                bad = [kk for kk in set(after) | set(cur) if kk not in groups and after.get(kk) != cur.get(kk)]
                if bad:
                    return ("other-key-influenced", f"{where}: pins of {bad} changed by calls that did not name them")
                cur = after
            elif k in ("get", "upload", "chain"):
                hops = [op[1:6]] if k != "chain" else op[1]
                res, conns = st["result"], st["conns"]
                if not case["tofu"]:
                    if after != cur:
                        return ("tofu-off-store-written", f"{where}: TOFU disabled but the store changed {cur} -> {after}")
                    cur = after
                    continue
                exp = dict(cur)       # the store as the property lets it evolve along the hops that were connected to
                failing = False
                for j, hop in enumerate(hops[:len(conns)]):
                    h, p, cert, patch = hop[:4]
                    key = (h, p)
                    last = j == len(conns) - 1
                    pres = _presented(cert, patch if len(hops) == 1 else "")
                    if pres is None:
                        if not last or res[0] == "ok":
                            return ("unreadable-accepted", f"{where}: hop {j} presented an unreadable certificate and was not refused (result {res}, {len(conns)} connections)")
                        failing = True
                        break
                    pin = exp.get(key)
                    if pin is None:
                        if last and res[0] == "changed":
                            return ("unpinned-reported-changed", f"{where}: hop {j} to {key} ({HOSTS[h]!r}), which has no pin (pins: {pins(exp)}), "
                                                                 f"failed with a certificate-changed error {res}: a pin of another host:port was applied to it")
                        exp[key] = pres            # a first connection pins what was presented
                    elif pin != pres and sem(pin) == pres:
                        # the pin is another spelling of the presented certificate's digest (imported "SHA256:…"): the
                        # property is satisfied by accepting it and by refusing it; a refusal must leave the store alone
                        if last and res[0] != "ok":
                            failing = True
                            break
                    elif pin != pres:
                        if not last or res[0] == "ok":
                            return ("accepted-with-different-cert", f"{where}: hop {j} to {key} ({HOSTS[h]!r}) pinned to fingerprint {pin} presented {pres} = certificate {cert_desc(cert)}{' (this peer SPOKE FIRST: ' + hop_first(hop) + ', its response came with the end of the handshake, no request read)' if hop_first(hop) else ''} and was accepted (result {res}, {len(conns)} connections); steps before: {compact(case['ops'][:i])}; client certificate: {bool(case.get('ident'))}, store operations on the client's own store object: {bool(case.get('own'))}, a new client object per call: {bool(case.get('fresh'))}")
                        if res[0] != "changed":
                            return ("changed-not-reported", f"{where}: hop {j} pinned {pin}, presented {pres}: result {res} is not a certificate-changed error")
                        if res[1:] != [pin, pres, h, p]:
                            return ("changed-error-wrong-fingerprints", f"{where}: the error names {res[1:]} instead of old={pin} new={pres} host={h} port={p}")
                        failing = True
                        break
                if failing:
                    if after != exp:
                        return ("pins-changed-on-failure", f"{where}: store after the refused call is {pins(after)}, the property allows only {pins(exp)}")
                elif res[0] == "ok" and len(conns) == len(hops) and after != exp:
                    bad = [kk for kk in set(after) | set(exp) if after.get(kk) != exp.get(kk)]
                    touched = set(op_keys(op))
                    if any(kk not in touched for kk in bad):
                        return ("other-key-influenced", f"{where}: pins of {[kk for kk in bad if kk not in touched]} changed by a call that did not name them "
                                f"(it named {sorted({HOSTS[kk[0]] for kk in touched})}; a key ('?x', port) is a row stored under the host name 'x', which no step of the "
                                f"history named: pins of different host names share it); pins before {pins(cur)}, after {pins(after)}; steps before: {compact(case['ops'][:i])}")
                    shown = ", ".join(f"{CERTS[hp[2]]!r} (fingerprint {CERT_FP[hp[2]]})" for hp in hops)
                    return ("first-use-not-pinned", f"{where}: the accepted call was shown {shown}; store afterwards {pins(after)}, the property requires {pins(exp)}; "
                                                    f"steps before: {compact(case['ops'][:i])}; a new client object per call: {bool(case.get('fresh'))}; certificates: {'; '.join(cert_desc(hp[2]) for hp in hops)}")
                cur = after
            else:
                # store operations: only the frame part of the property is checked here (C12 owns their semantics)
                touched = None
                if k in ("age", "newclient"):
                    # neither the passing of time nor the construction of one more client object is a trust-store operation
                    if after != cur:
                        what = (f"{op[1]} days passed without anybody touching the store" if k == "age" else
                                f"one more GeminiClient was built on the store (store file: {op[1] or 'in order'}; constructor raised: {st.get('raised')})")
                        return ("pins-changed-without-operation", f"{where}: {what}; pins before {pins(cur)}, after {pins(after)}; steps before: {compact(case['ops'][:i])}")
                    cur = after
                    continue
                if k in ("trust", "revoke"):
                    touched = {(op[1], op[2])}
                elif k == "revoke_host":
                    touched = {kk for kk in set(cur) | set(after) if kk[0] == op[1]}
                elif k == "import" and op[1] == "merge":
                    touched = {(e[0], e[1]) for e in op[3]}
                if touched is not None:
                    bad = [kk for kk in set(after) | set(cur) if kk not in touched and after.get(kk) != cur.get(kk)]
                    if bad:
                        return ("other-key-influenced", f"{where}: pins of {bad} changed by an operation that did not name them")
                if k == "import_bad" and st.get("raised") and after != cur:
                    # an import that FAILED is not a trust-store operation of the history: whoever was pinned before it still is,
                    # and the connections that follow are judged against those pins
                    return ("pins-changed-by-failed-import", f"{where}: the import raised {st['raised']} yet the pins changed from {pins(cur)} to "
                                                             f"{pins(after)}: hosts pinned before the failed import are no longer checked against their pin; "
                                                             f"steps before: {compact(case['ops'][:i])}")
                cur = after
        return None

    def key(self, case, obs):
        kinds = set()
        for op, st in zip(case["ops"], obs):
            if "par" in st:
                kinds.add("par:" + "+".join(sorted(e[1][0] for e in st["par"])))
            elif st["result"] is not None:
                kinds.add(f"{op[0]}:{st['result'][0]}" + ("(peer-first)" if st.get("first") else ""))
            elif op[0] == "import":
                kinds.add(f"import-{op[1]}-{op[2]}")
            elif op[0] == "age":
                kinds.add("age>1y" if op[1] > 365 else "age<1y")
        return ("on " if case["tofu"] else "off ") + f"len={min(len(case['ops']), 40) // 5 * 5}+ " + ",".join(sorted(kinds))[:90]


class Configured(Histories):
    """histories in further CONFIGURATIONS of the client and the store:
      own     store operations (trust, revoke, clear, import, an import that FAILS part-way, export + import) are made on the
              client's own TOFUDatabase object, interleaved with the fetches of that same client object
      ident   the client has a client certificate (client_cert / client_key) - together with redirects across host names
      names   host names that differ only in a character SQL's LIKE treats as a wildcard (`_`, `%`), same ports
    and, always: a custom tofu_db_path with HOME pointing to an empty directory (no other pin store may appear)."""
    name = "configured"
    quick_n = 640
    thorough_n = 3200
    parallel = True
    max_len_quick = 8
    max_len_thorough = 24

    # groups of look-alike host indices (into HOSTS): reg-names with `_` / `-` / a letter / `%`; IPv6 literals with zone ids
    GROUPS = [[3, 4, 5, 6], [7, 8]]

    def rand_store_op(self, rng, keys):
        r = rng.random()
        if r < 0.10:
            return ["newclient", rng.choice(NEWCLIENT_FAULTS)]
        if r < 0.16:
            return ["age", rng.choice(AGES)]
        r = rng.random()
        if r < 0.30:
            ents = []
            for _ in range(rng.choice([0, 1, 1, 2, 3])):
                h, p = rng.choice(keys)
                ents.append([h, p, rng.choice([CERT_FP[c] for c in READABLE])])
            return ["import_bad", rng.choice(["merge", "replace", "replace"]), rng.choice(["none", "skip", "update", "update"]), ents,
                    rng.choice(["fp", "fp", "port", "field", "nohosts"]), rng.randrange(0, 4) if rng.random() < 0.4 else 9]
        if r < 0.42:
            return ["export_import", rng.choice(["merge", "replace", "clear-merge"])]
        if r < 0.55:
            h, p = rng.choice(keys)
            return ["trust", h, p, rng.choice(READABLE)]
        if r < 0.72:
            h, p = rng.choice(keys)
            return ["revoke", h, p]
        if r < 0.80:
            return ["revoke_host", rng.choice(keys)[0]]
        if r < 0.85:
            return ["clear"]
        ents = []
        for _ in range(rng.choice([1, 1, 2, 3])):
            h, p = rng.choice(keys)
            ents.append([h, p, rng.choice([CERT_FP[c] for c in READABLE])])
        return ["import", rng.choice(["merge", "merge", "replace"]), rng.choice(["none", "skip", "update"]), ents]

    def rand_hop(self, rng, keys, allow_patch=True):
        hop = Histories.rand_hop(self, rng, keys, allow_patch)
        if rng.random() < 0.1:
            hop[2] = rng.choice([i for pr in TWIN_PAIRS for i in pr])      # also the CA-issued pair
            if hop_first(hop):
                hop[4] = "early"
        return hop

    def rand_fetch(self, rng, keys):
        r = rng.random()
        if r < 0.45:
            return ["get"] + self.rand_hop(rng, keys)
        if r < 0.62:
            return ["upload"] + self.rand_hop(rng, keys)
        hops = [self.rand_hop(rng, keys, allow_patch=False) for _ in range(rng.choice([2, 2, 2, 3]))]
        for a, b in zip(hops, hops[1:]):
            if a[0] == b[0] and rng.random() < 0.8:
                # prefer redirects ACROSS host names
                others = [k for k in keys if k[0] != a[0]]
                if others:
                    b[0], b[1] = rng.choice(others)
        return ["chain", hops]

    def witnesses(self):
        b = []
        # (1) one client object: pinned, an import that fails part-way, then the same / another certificate
        for mode in ("merge", "replace"):
            for badk in ("fp", "port", "field"):
                for cb in ("none", "update"):
                    for kind in ("get", "upload"):
                        b.append({"tofu": True, "fresh": False, "own": True, "ident": False, "ops": [
                            ["get", 1, 0, 0, ""], ["import_bad", mode, cb, [[1, 0, CERT_FP[1]], [0, 1, CERT_FP[2]]], badk, 9],
                            [kind, 1, 0, 1, ""], ["get", 1, 0, 0, ""], ["get", 0, 1, 0, ""]]})
        for how in ("merge", "replace", "clear-merge"):
            for own in (False, True):
                b.append({"tofu": True, "fresh": not own, "own": own, "ident": False, "ops": [
                    ["get", 0, 0, 4, ""], ["upload", 2, 1, 1, ""], ["export_import", how], ["get", 0, 0, 0, ""], ["get", 2, 1, 1, ""], ["upload", 2, 1, 2, ""]]})
        # (2) redirects across host names, with and without a client certificate; the target pinned / unpinned / to another certificate
        for ident in (False, True):
            for own in (False, True):
                for pinned in (None, 1, 2):
                    for tgt in ((1, 1), (2, 0), (0, 0)):
                        pre = [["trust", tgt[0], tgt[1], pinned]] if pinned is not None else []
                        b.append({"tofu": True, "fresh": False, "own": own, "ident": ident, "ops": pre + [
                            ["chain", [[0, 0, 0, ""], [tgt[0], tgt[1], 1, ""]]], ["get", tgt[0], tgt[1], 1, ""], ["get", tgt[0], tgt[1], 2, ""]]})
        # (3) look-alike names on one port: every ordered pair of a group
        for grp in self.GROUPS:
            for a in grp:
                for bb in grp:
                    if a == bb:
                        continue
                    b.append({"tofu": True, "fresh": False, "own": False, "ident": False, "ops": [
                        ["get", a, 0, 0, ""], ["get", bb, 0, 1, ""], ["get", a, 0, 1, ""], ["revoke", bb, 0], ["get", a, 0, 2, ""], ["upload", bb, 0, 2, ""]]})
                    b.append({"tofu": True, "fresh": False, "own": True, "ident": False, "ops": [
                        ["trust", a, 1, 0], ["trust", bb, 1, 1], ["revoke_host", bb], ["upload", a, 1, 1, ""],
                        ["chain", [[bb, 1, 2, ""], [a, 1, 0, ""]]]]})
        # (4) a certificate and its look-alike on one host:port, in both orders (also the pair issued by the harness CA)
        for a, t in TWIN_PAIRS:
            for c1, c2 in ((a, t), (t, a)):
                for kind in ("get", "upload"):
                    for ident in (False, True):
                        b.append({"tofu": True, "fresh": False, "own": ident, "ident": ident, "ops": [
                            ["get", 1, 0, c1, ""], [kind, 1, 0, c2, ""], ["get", 1, 0, c1, ""], ["chain", [[0, 1, c2, ""], [1, 0, c2, ""]]]]})
        # (5) one more client object is built while the store file cannot be used (locked by another connection, cannot be
        #     opened, cannot be written), then the pinned hosts present another certificate / an unpinned host is visited
        for fault in NEWCLIENT_FAULTS:
            for kind in ("get", "upload"):
                for own in (False, True):
                    b.append({"tofu": True, "fresh": False, "own": own, "ident": False, "ops": [
                        ["get", 1, 0, 0, ""], ["upload", 0, 1, 1, ""], ["newclient", fault], [kind, 1, 0, 1, ""], ["get", 2, 1, 2, ""], ["get", 2, 1, 0, ""],
                        ["get", 1, 0, 0, ""], ["chain", [[2, 1, 2, ""], [0, 1, 2, ""]]]]})
        # (6) time passes between two visits; afterwards the application starts again (a new client object on the old store)
        for days in AGES:
            for kind in ("get", "upload"):
                b.append({"tofu": True, "fresh": False, "own": True, "ident": False, "ops": [
                    ["get", 1, 0, 0, ""], ["upload", 0, 1, 1, ""], ["age", days], ["newclient", ""], [kind, 1, 0, 1, ""], ["get", 0, 1, 1, ""], ["get", 1, 0, 0, ""]]})
        return b

    def gen(self, rng: random.Random, n: int):
        thorough = n > self.quick_n
        mx = self.max_len_thorough if thorough else self.max_len_quick
        nb = 0
        for c in self.share(self.witnesses()):
            nb += 1
            yield c
        for _ in range(max(0, n - nb)):
            r = rng.random()
            if r < 0.45:
                hosts = list(range(N_PLAIN_HOSTS))
            elif r < 0.85:
                hosts = list(rng.choice(self.GROUPS))
                if len(hosts) > 3:
                    hosts = rng.sample(hosts, rng.choice([2, 3, 4]))
            else:
                hosts = rng.sample(range(DOTTED_FIRST), 3)
            allkeys = [(h, p) for h in hosts for p in range(2)]
            keys = rng.sample(allkeys, rng.choice([2, 3, 4, len(allkeys)]) if len(allkeys) >= 4 else len(allkeys))
            own = rng.random() < 0.6
            ln = rng.randint(2, mx)
            ops = []
            for _j in range(ln):
                ops.append(self.rand_fetch(rng, keys) if rng.random() < 0.6 else self.rand_store_op(rng, keys))
            yield {"tofu": rng.random() < 0.94, "fresh": (not own) and rng.random() < 0.3, "own": own, "ident": rng.random() < 0.5, "ops": ops}

    def key(self, case, obs):
        kinds = set()
        for op, st in zip(case["ops"], obs):
            if st["result"] is not None:
                kinds.add(f"{op[0]}:{st['result'][0]}")
            elif op[0] in ("import_bad", "export_import"):
                kinds.add(f"{op[0]}-{op[1]}")
            elif op[0] == "newclient":
                kinds.add(f"newclient-{op[1] or 'plain'}:{'raised' if st.get('raised') else 'built'}")
            elif op[0] == "age":
                kinds.add("age>1y" if op[1] > 365 else "age<1y")
        hs = {k[0] for op in case["ops"] for k in op_keys(op)}
        names = "lookalike" if any(h >= N_PLAIN_HOSTS for h in hs) else "plain"
        if any(CERTS[hop[2]] in TWIN_CERTS for op in case["ops"] if op[0] in ("get", "upload", "chain") for hop in ([op[1:5]] if op[0] != "chain" else op[1])):
            names += "+twincert"
        return (("on " if case["tofu"] else "off ") + ("own " if case.get("own") else "cli ") + ("ident " if case.get("ident") else "anon ")
                + names + " " + ",".join(sorted(kinds))[:80])


class SmallScope(Family):
    """EVERY history of length <= L over 2 hosts (one port) x 2 certificates; L = 2 in the quick tier, 4 in thorough.
    The enumeration is split over the shards with Family.share (never cut); one GeminiClient object per history."""
    realtime = True     # runs on the wall clock (sockets, threads): a failure is re-run once before it counts (core.run_family)
    name = "small_scope"
    quick_n = 96           # 9 + 81 = 90 histories of length <= 2 (+ a few random ones of length 3)
    thorough_n = 7400      # 9 + 81 + 729 + 6561 = 7380 histories of length <= 4
    parallel = True        # ports are bound per process in setup(); the enumeration is shared out, not repeated
    shared_ctx = True

    # the two certificates: RSA (valid) and the expired one
    ALPHA = ([["get", h, 0, c, ""] for h in (0, 1) for c in (0, 4)] + [["revoke", 0, 0], ["revoke", 1, 0], ["clear"],
             ["trust", 0, 0, 4], ["import", "merge", "update", [[1, 0, 0]]]])

    def setup(self):
        self.R = Runner()

    def gen(self, rng, n):
        total = n * self.shard[1]
        depth = 4 if total >= 7380 else 2

        def everything():
            for ln in range(1, depth + 1):
                for combo in itertools.product(self.ALPHA, repeat=ln):
                    yield {"tofu": True, "fresh": False, "ops": [list(o) for o in combo]}

        count = 0
        for c in self.share(everything()):
            count += 1
            yield c
        for _ in range(max(0, n - count)):
            yield {"tofu": True, "fresh": False, "ops": [list(rng.choice(self.ALPHA)) for _ in range(depth + 1)]}

    impl = Histories.impl
    model = Histories.model
    expect = Histories.expect
    same = Histories.same
    oracle = Histories.oracle
    oracle_steps = Histories.oracle_steps
    stray_stores = Histories.stray_stores
    age_store = staticmethod(Histories.age_store)

    def key(self, case, obs):
        res = [st["result"][0] if st["result"] else "-" for st in obs]
        return f"len={len(case['ops'])} " + ",".join(res)


FAMILIES = [Histories(), Configured(), SmallScope()]
