"""Virtual-clock fake of a TLS connection whose CLOSE takes time (C13).

`client_fake.FakeTransport.close()` is followed by `connection_lost(None)` at the next loop iteration: a plain TCP transport, or a
TLS peer that answers the client's close_notify at once.  asyncio's real TLS transport only STARTS the shutdown in `close()`: it
sends close_notify and reports `connection_lost` when the peer has answered (its own close_notify, FIN or a reset) - or, if the peer
does nothing at all, when `ssl_shutdown_timeout` (30 s) has passed and the transport aborts itself.  Application data that arrives
while the shutdown is pending makes it fail (OpenSSL: "application data after close notify"): the transport is aborted then.

`LingerTransport(loop, protocol, answer)`: `answer` = seconds after `close()` at which the peer completes the shutdown, None = the
peer never reacts (it has stopped reading: a blocking server stuck elsewhere, a frozen process, a middlebox that swallows packets).
`LingerScript` is `ServerScript` for such a peer: it keeps to its time table after the client has closed (what it sends then is not
delivered but breaks the pending shutdown; its own close / reset completes it) and records the times of what it delivered.
`LingerLoop` is `VLoop` attaching these two.
"""
from __future__ import annotations

import asyncio

from .client_fake import WHO, FakeTransport, ServerScript, VLoop

SSL_SHUTDOWN_TIMEOUT = 30.0      # asyncio.constants.SSL_SHUTDOWN_TIMEOUT


class ShutdownBroken(ConnectionError):
    """stands for ssl.SSLError APPLICATION_DATA_AFTER_CLOSE_NOTIFY raised inside the pending shutdown"""


class LingerTransport(FakeTransport):
    def __init__(self, loop, protocol, answer):
        super().__init__(loop, protocol)
        self.answer = answer
        self.t_lost = None
        self._handles = []

    def close(self) -> None:
        self.close_calls += 1
        if self.closed:
            return
        self.closed = True
        self.t_close = self.loop.time()
        if self.answer is not None:
            self._handles.append(self.loop.call_later(self.answer, self._lost, None) if self.answer > 0 else self.loop.call_soon(self._lost, None))
        self._handles.append(self.loop.call_later(SSL_SHUTDOWN_TIMEOUT, self._lost, TimeoutError("SSL shutdown timed out")))

    def _lost(self, exc) -> None:
        if self.lost_called:
            return
        self.t_lost = self.loop.time()
        for h in self._handles:
            h.cancel()
        super()._lost(exc)


class LingerScript(ServerScript):
    def __init__(self, chunks, delays, end: str, end_delay: float = 0.0, connect_delay: float = 0.0, answer=None):
        super().__init__(chunks, delays, end, end_delay, connect_delay)
        self.answer = answer
        self.events = []           # virtual times of what reached the client's protocol object: ["up" | "data" | "end" | "broken", t]

    async def run(self, loop, tr: FakeTransport):
        proto = tr.protocol
        self.events.append(["up", loop.time()])
        for d, c in zip(self.delays, self.chunks):
            await asyncio.sleep(d)
            if tr.lost_called:
                return
            if tr.closed:
                # the client has sent its close_notify and waits for ours: more application data breaks the shutdown
                self.events.append(["broken", loop.time()])
                try:
                    tr._lost(ShutdownBroken("application data after close notify"))
                except Exception as e:  # noqa: BLE001
                    self.escaped.append(e)
                return
            self.delivered += len(c)
            self.events.append(["data", loop.time()])
            try:
                proto.data_received(c)
            except Exception as e:  # noqa: BLE001  asyncio: "Fatal error: protocol.data_received() call failed."
                tr.abort(e)
                return
        await asyncio.sleep(self.end_delay)
        if self.end == "stall" or tr.lost_called:
            return
        self.t_end = loop.time()
        self.events.append(["end", self.t_end])
        exc = None if self.end == "close" else ConnectionResetError(104, "Connection reset by peer")
        try:
            tr._lost(exc)
        except Exception as e:  # noqa: BLE001  (asyncio would log it; the caller is left without a result)
            self.escaped.append(e)


class LingerLoop(VLoop):
    async def create_connection(self, protocol_factory, host=None, port=None, **kw):
        who = WHO.get()
        script = self.scripts_of[who].pop(0) if who in self.scripts_of else self.scripts.pop(0)
        if script.connect_delay:
            await asyncio.sleep(script.connect_delay)
        proto = protocol_factory()
        tr = LingerTransport(self, proto, getattr(script, "answer", 0.0))
        tr.pause_after = getattr(script, "pause_after", None)
        script.transport = tr
        script.t_up = self.time()
        self.conns.append(tr)
        proto.connection_made(tr)
        self.tasks.append(self.create_task(script.run(self, tr)))
        return tr, proto
