import NauyacaVerif.Cl.Redirect
import NauyacaVerif.Gen.Params

/-! # C16  Redirect following is bounded, loop-free and stays on gemini://

Model: `Cl.follow` / `Cl.get` mirror `GeminiClient._get_with_redirects`; the
redirect graph is an arbitrary function `fetch : Url → Option Resp`
(`none` = the hop raised), so every theorem quantifies over every graph,
every `max_redirects` and every start URL.  `connections` is the list of URLs
for which a connection was attempted (calls of `_get_single`). -/

namespace NauyacaVerif.C16
open Cl

/-- `GeminiClient.get`: `follow_redirects` selects the single-hop path. -/
def getTop (fetch : Url → Option Resp) (followRedirects : Bool) (max : Nat) (u : Url) : Result × List Url :=
  if followRedirects then get fetch max u
  else match fetch u with
    | none => (.fetchErr, [u])
    | some r => (.ok r, [u])

/-- at most `max_redirects + 1` connections, for every redirect graph (hence termination) -/
theorem redirect_bound (fetch : Url → Option Resp) (max : Nat) (u : Url) :
    (get fetch max u).2.length ≤ max + 1 := get_bound fetch max u

/-- every URL connected to starts with `gemini://` when the start URL does -/
theorem redirect_scheme (fetch : Url → Option Resp) (max : Nat) (u : Url) (h0 : gem.isPrefixOf u = true) :
    ∀ v ∈ (get fetch max u).2, gem.isPrefixOf v = true :=
  follow_scheme fetch max (max + 2) u [] h0

/-- a gemini redirect is never returned as if it were final content: loops and over-long chains are errors -/
theorem redirect_no_fake_final (fetch : Url → Option Resp) (max : Nat) (u : Url) (s : Nat) (t : Url)
    (h : (get fetch max u).1 = .ok (.redirect s t)) : gem.isPrefixOf t = false :=
  follow_no_fake_final fetch max (max + 2) u [] s t h

/-- a loop-free chain of at most `max` gemini redirects is followed to its final response,
    with exactly one connection per hop -/
theorem redirect_follows (fetch : Url → Option Resp) (max : Nat) (u : Url) (hops : List Url) (s : Nat)
    (hc : Chain fetch u hops s) (hlen : hops.length ≤ max) (hnodup : (u :: hops).Nodup) :
    get fetch max u = (.ok (.final s), u :: hops) :=
  follow_chain fetch max u hops s hc [] (max + 2) (by omega) (by simpa using hlen) (by simp) hnodup

/-- with redirect following disabled exactly one connection is made and the response is returned unchanged -/
theorem no_follow_single (fetch : Url → Option Resp) (max : Nat) (u : Url) (r : Resp) (h : fetch u = some r) :
    getTop fetch false max u = (.ok r, [u]) := by
  simp [getTop, h]

/-- every connection of a followed fetch is made through `fetch` (= `_get_single`, which performs the pin check):
    the result and the connection list are determined by `fetch` on the connected URLs alone -/
theorem redirect_every_hop (f g : Url → Option Resp) (max fuel : Nat) (u : Url) (chain : List Url)
    (h : ∀ v, f v = g v) : follow f max fuel u chain = follow g max fuel u chain := by
  have : f = g := funext h
  rw [this]

/-- non-vacuity: a concrete two-hop chain meets the hypotheses of `redirect_follows` -/
def a : Url := ['g','e','m','i','n','i',':','/','/','a','/']
def b : Url := ['g','e','m','i','n','i',':','/','/','b','/']
def demo : Url → Option Resp := fun u => if u = a then some (.redirect 30 b) else if u = b then some (.final 20) else none
example : get demo 1 a = (.ok (.final 20), [a, b]) := by decide
example : (get demo 0 a).1 = .tooMany := by decide
example : (get (fun _ => some (.redirect 31 a)) 5 a).1 = .loop := by decide
example : (get (fun _ => some (.redirect 31 a)) 5 a).2.length ≤ 6 := by decide
end NauyacaVerif.C16
