"""Correspondence family for the PyOpenSSL pump (M-TlsPump): the real TLSServerProtocol over memory BIOs
vs `Srv.pumpRun`.  Used by C01, C04, C07, C15 with different generators and oracles."""
from __future__ import annotations

import random

from ..core import Family
from ..sim import pump as P
from ..sim import srv as S
from .srvfam import gen_resp, get_loop

REQS = [b"gemini://localhost/x\r\n", b"gemini://localhost/a/b?q=1\r\n", b"titan://localhost/f;size=3\r\nabc", b"titan://localhost/f;size=0\r\n",
        b"titan://localhost/f;size=20000\r\n" + b"q" * 20000, b"titan://localhost/f;size=100000\r\n" + b"Q" * 100000, b"gemini://localhost/x\r\n" + b"S" * 100000,
        b"http://localhost/\r\n", b"gemini://localhost/" + b"p" * 1100 + b"\r\n", b"\xff\xfe\r\n"]


def split_records(rng, data: bytes, maxparts=4):
    if len(data) < 2:
        return [data]
    k = rng.randint(0, maxparts - 1)
    cuts = sorted(set(rng.sample(range(1, len(data)), min(len(data) - 1, k))))
    out, p = [], 0
    for c in cuts + [len(data)]:
        out.append(data[p:c])
        p = c
    return out


def gen_pump_case(rng: random.Random):
    req = rng.choice(REQS[:5] * 3 + REQS)
    extra = rng.choice([b"", b"", b"trailing", b"\r\nmore"])
    app = split_records(rng, req) + ([extra] if extra else [])
    up = rng.random() < 0.7
    mw = rng.random() < 0.3
    hk = rng.choice(["s", "s", "a"])
    handler = ["s", gen_resp(rng)] if hk == "s" else ["a"]
    if hk == "s" and rng.random() < 0.12:
        # bodies around and far beyond the TLS record and flush sizes
        handler = ["s", [20, "application/octet-stream", ["z", rng.choice([16383, 16384, 16385, 70000, 262144, 600000, 1100000])]]]
    post = []
    if mw:
        post.append(rng.choice([["ma"], ["ma"], ["mr"], ["md", "53 Access denied\r\n"], ["mn"]]))
    post.append(rng.choice([["ua", gen_resp(rng)], ["ha", gen_resp(rng)], ["ur"], ["hr"], ["t"]]))
    if rng.random() < 0.3:
        post.append(rng.choice([["ua", gen_resp(rng)], ["t"]]))
    return {"up": up, "mw": mw, "handler": handler, "app": [a.hex() for a in app if a], "close_notify": rng.random() < 0.25,
            "plaintext": None, "cutseed": rng.randrange(1 << 30), "maxcuts": rng.choice([0, 1, 3, 6]), "stall": None,
            "cert": rng.choice([None, None, 0, 1, 2, 3, 0, 3, 4]), "post": post}


class PumpFamily(Family):
    name = "pump"
    quick_n = 250
    thorough_n = 5000
    model_from_obs = True

    def gen(self, rng, n):
        for _ in range(n):
            yield gen_pump_case(rng)

    def impl(self, case):
        loop = get_loop()
        return loop.run_until_complete(P.run_pump(loop, case))

    def model_obs(self, case, obs):
        h = case["handler"]
        hs = "s:" + S.enc_resp(h[1]) if h[0] == "s" else h[0]
        return f"pumpx {int(case.get('mw', False))} {int(case['up'])} {hs} " + " ".join(obs["pevs"])

    def expect(self, case, out):
        assert out.startswith("ok "), out
        left, _, right = out[3:].partition(" | ")
        kv = dict(x.split("=", 1) for x in right.split())
        return {"tokens": left.split() if left.strip() else [], "tcpclosed": kv["tcpclosed"] == "true", "inner": kv["inner"] == "true",
                "h": int(kv["h"]), "u": int(kv["u"]), "m": int(kv["m"]), "content": kv["content"]}

    def same(self, exp, obs):
        toks = [t for t in exp["tokens"] if t != "close"]
        plain = bytes.fromhex(obs["plain"]) if obs["plain"] != "-" else b""
        if any(t.startswith("~") for t in toks):
            pr = S.parse_response(plain)
            okp = pr is not None and len(toks) == 1 and pr[0] == int(toks[0][1:]) and not pr[2]
        else:
            okp = plain == b"".join(bytes.fromhex(t[2:]) if t != "w:-" else b"" for t in toks)
        return (okp and exp["tcpclosed"] == obs["tcpclosed"] and exp["inner"] == obs["inner"] and exp["h"] == obs["h"]
                and exp["u"] == obs["u"] and exp["m"] == obs["m"] and exp["content"] == obs["content"] and not obs["exc"])

    def key(self, case, obs):
        plain = bytes.fromhex(obs["plain"]) if obs["plain"] != "-" else b""
        return f"{plain[:2].decode('latin1')}|len{min(len(plain), 99999) // 16384}|closed{int(obs['tcpclosed'])}|h{obs['h']}u{obs['u']}m{obs['m']}|cuts{case.get('maxcuts')}|cert{case.get('cert')}"

    @staticmethod
    def oracle_wellformed(case, obs):
        plain = bytes.fromhex(obs["plain"]) if obs["plain"] != "-" else b""
        if not plain:
            return None
        pr = S.parse_response(plain)
        if pr is None:
            return ("malformed-response", f"decrypted stream is not one well-formed response: {plain[:80]!r}")
        if pr[2] and not 20 <= pr[0] <= 29:
            return ("malformed-response", f"body of {len(pr[2])} bytes with status {pr[0]}")
        if not obs["tcpclosed"]:
            return ("no-close", "response sent but the TCP connection was not closed")
        h = case["handler"]
        if h[0] == "s" and obs["h"] == 1 and isinstance(h[1][0], int) and 20 <= h[1][0] <= 29 and h[1][2] is not None and pr[0] == h[1][0]:
            b = h[1][2]
            try:
                want = b[1].encode("utf-8") if b[0] == "s" else (b"Z" * b[1] if b[0] == "z" else bytes.fromhex(b[1]))
            except UnicodeEncodeError:
                want = None
            if want is not None and pr[2] != want:
                return ("half-written", f"handler returned a body of {len(want)} bytes, the peer decrypted {len(pr[2])} bytes before the close")
        return None

    @staticmethod
    def oracle_once(case, obs):
        if obs["h"] + obs["u"] > 1:
            return ("handler-twice", f"handler invoked {obs['h']}x, upload handler {obs['u']}x on one connection")
        return None
