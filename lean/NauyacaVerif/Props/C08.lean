import NauyacaVerif.Srv.ConnMore
import NauyacaVerif.Url.Reject
import NauyacaVerif.Url.RejectFrag
import NauyacaVerif.Url.RejectUser
import NauyacaVerif.Gen.Params

/-! # C08  Only protocol-valid requests reach handlers; valid requests are not refused

Soundness direction (proved): whatever a handler, an upload handler or the middleware chain is invoked
with was a request line of at most 1024 bytes including CRLF, valid UTF-8, that `parse_url` accepts
(Titan: only with uploads enabled and a well-formed non-negative size) — for every event list; and
`parse_url` provably refuses the protocol's must-reject classes for every behaviour of the opaque
`ipaddress` / NFKC checks.  Completeness direction: `parse_canonical` (Url/Canon.lean) proves acceptance
with intact components for canonical spellings; the full grammar is covered by the correspondence. -/
namespace NauyacaVerif.C08
open Srv

theorem maxRequest_tie : Srv.maxRequest = Gen.maxRequest := by decide
theorem maxRequest_is_1024 : Gen.maxRequest = 1024 := by decide

/-- anything invoked on the handler side saw an accepted request line -/
theorem reach_sound (cfg : Cfg) (evs : List Ev)
    (h : (run cfg evs).hcalls + (run cfg evs).ucalls + (run cfg evs).mwcalls > 0) :
    ∃ l, (run cfg evs).req = some l ∧ Accepted cfg l :=
  run_reqInv cfg evs (Or.inl h)

/-- the independent must-reject specification on the raw (clean) line: the clauses proved so far -/
def MustRejectProved (l : Url.Str) : Prop :=
  ':' ∉ l ∨ (Url.beforeColon l).map Url.lowerAscii ≠ Url.gemLit ∨ (Url.afterColon l).take 2 ≠ ['/', '/'] ∨ Url.authority l = [] ∨
  (∃ pre suf, l = pre ++ '#' :: suf ∧ suf ≠ []) ∨
  (∃ ui rest, Url.authority l = ui ++ '@' :: rest ∧ '@' ∉ rest ∧ ui ≠ [] ∧ ui ≠ [':'])

/-- such a line is refused by `parse_url` for every environment (the opaque checks can only add rejections) -/
theorem mustReject_refused (env : Url.Env) (l : Url.Str) (hc : Url.CleanLine l) (h : MustRejectProved l) :
    geminiOk env l = false := by
  have : ∃ e, Url.parseUrl env l = .error e := by
    rcases h with h | h | h | h | h | ⟨ui, rest, ha, hr, h1, h2⟩
    · exact Url.reject_scheme env l hc (Or.inl h)
    · exact Url.reject_scheme env l hc (Or.inr h)
    · exact Url.reject_no_authority env l hc (Or.inl h)
    · exact Url.reject_no_authority env l hc (Or.inr h)
    · exact Url.reject_fragment env l hc h
    · exact Url.reject_userinfo env l hc ui rest ha hr h1 h2
  obtain ⟨e, he⟩ := this
  simp [geminiOk, he]

/-- hence no gemini request that reached a handler was a must-reject line -/
theorem reach_sound_spec (cfg : Cfg) (l : Bytes) (line : Url.Str) (ha : Accepted cfg l)
    (hd : decodeUtf8 l = some line) (hnt : isTitanLine line = false) (hc : Url.CleanLine line) : ¬ MustRejectProved line := by
  intro hm
  obtain ⟨_, line', hd', hor⟩ := ha
  rw [hd] at hd'; cases hd'
  rcases hor with ⟨ht, _⟩ | ⟨_, hok⟩
  · simp [hnt] at ht
  · simp [mustReject_refused cfg.env line hc hm] at hok

/-- the fragment clause on its own -/
theorem reject_fragment (env : Url.Env) (l : Url.Str) (hc : Url.CleanLine l) (h : ∃ pre suf, l = pre ++ '#' :: suf ∧ suf ≠ []) :
    geminiOk env l = false := mustReject_refused env l hc (Or.inr (Or.inr (Or.inr (Or.inr (Or.inl h)))))

/-- the user-info clause on its own: credentials other than the empty `@` / `:@` are refused -/
theorem reject_userinfo (env : Url.Env) (l ui rest : Url.Str) (hc : Url.CleanLine l) (ha : Url.authority l = ui ++ '@' :: rest)
    (hr : '@' ∉ rest) (h1 : ui ≠ []) (h2 : ui ≠ [':']) : geminiOk env l = false :=
  mustReject_refused env l hc (Or.inr (Or.inr (Or.inr (Or.inr (Or.inr ⟨ui, rest, ha, hr, h1, h2⟩)))))

/-- a refused line is answered 59 and nothing is invoked -/
theorem reject_status (cfg : Cfg) (s : St) (l r : Bytes) (line : Url.Str) (hd : decodeUtf8 l = some line)
    (hnt : isTitanLine line = false) (hbad : geminiOk cfg.env line = false) (hl : s.lost = false) (hs : s.sent = false) :
    (onLine cfg s l r).out = s.out ++ [.statusOnly 59, .close] ∧ (onLine cfg s l r).calls = s.calls := by
  have hp : (titanLit.isPrefixOf line) = false := by simpa [isTitanLine] using hnt
  unfold onLine
  simp only [hd, hp, Bool.false_eq_true, ↓reduceIte, hbad]
  simp [respondDyn, respondWith, hl, hs, St.calls]

/-- `titan://` without an upload handler: status 50 (exact bytes), nothing invoked -/
theorem titan_disabled (cfg : Cfg) (s : St) (l r : Bytes) (line : Url.Str) (hd : decodeUtf8 l = some line)
    (ht : isTitanLine line = true) (hu : cfg.upload = false) :
    (onLine cfg s l r).calls = s.calls ∧ (onLine cfg s l r).phase = .done := by
  have hp : (titanLit.isPrefixOf line) = true := by simpa [isTitanLine] using ht
  unfold onLine
  simp only [hd, hp, ↓reduceIte, hu, Bool.not_false]
  refine ⟨?_, by simp [respondFixed, respond, respondWith_phase]⟩
  simp only [respondFixed, respond]
  unfold respondWith; split <;> simp [St.calls]

/-- the size limit is exact: a line whose CRLF ends beyond byte 1024 is refused with 59, however it was read -/
theorem limit_exact (cfg : Cfg) (s : St) (buf : Bytes) (i : Nat) (hf : findCRLF buf = some i) (hbig : i + 2 > maxRequest) :
    lineStep cfg s buf = tooLong { s with buf := buf } := by
  simp [lineStep, hf, hbig]

example : MustRejectProved ['h', 't', 't', 'p', ':', '/', '/', 'x'] := Or.inr (Or.inl (by decide))

end NauyacaVerif.C08
