namespace Cl
abbrev Bytes := List Nat

def maxBody : Nat := 10 * 1024 * 1024
def maxHeader : Nat := 2 + 1 + 1024

def findCRLF : Bytes → Option Nat
  | [] => none
  | [_] => none
  | a :: b :: rest => if a = 13 ∧ b = 10 then some 0 else (findCRLF (b :: rest)).map (· + 1)

/-- opaque library behaviour the protocol depends on -/
structure Env where
  /-- `header_line.decode("utf-8")` succeeds? -/
  utf8Ok : Bytes → Bool
  /-- `int(token)` for the text before the first space of the header -/
  parseInt : Bytes → Option Int
  /-- meta says text/* (or is empty) -/
  isText : Bytes → Bool
  /-- decoding the body with the charset named in the meta: 0 = ok, 1 = bad bytes, 2 = unknown label -/
  decodeBody : Bytes → Bytes → Nat

inductive Fut where
  | pending
  | response (status : Int) (mta : Bytes) (body : Option Bytes) (decoded : Bool)
  | error (kind : String)
deriving Repr, DecidableEq

structure CSt where
  buf : Bytes := []
  headerReceived : Bool := false
  status : Option Int := none
  mta : Bytes := []
  fut : Fut := .pending
  closeReq : Bool := false
  crashed : Bool := false       -- an exception escaped `data_received` (asyncio then aborts the transport)
  decodeText : Bool := true
deriving Repr

inductive CEv where
  | data (c : Bytes)
  | lost (exc : Bool)
deriving Repr

def setError (s : CSt) (k : String) : CSt := if s.fut = .pending then { s with fut := .error k } else s

def splitSpace (h : Bytes) : Bytes × Bytes :=
  match h.span (· ≠ 32) with
  | (a, []) => (a, [])
  | (a, _ :: b) => (a, b)

/-- `_parse_header` -/
def parseHeader (env : Env) (s : CSt) (h : Bytes) : CSt :=
  let (tok, m) := splitSpace h
  match env.parseInt tok with
  | none => setError s "badStatus"
  | some st =>
    let s := { s with status := some st, mta := m }
    if 10 ≤ st ∧ st < 70 then s else setError s "statusRange"

def capCheck (s : CSt) : CSt :=
  if s.buf.length > maxBody then { setError s "tooBig" with closeReq := true } else s

/-- `data_received` (repaired: header-length bound) -/
def onData (env : Env) (s : CSt) (c : Bytes) : CSt :=
  if s.closeReq ∨ s.crashed then s else   -- the transport delivers nothing after close()
  let s := { s with buf := s.buf ++ c }
  if !s.headerReceived then
    match findCRLF s.buf with
    | none =>
      if s.buf.length > maxHeader + 1 then { setError s "headerTooLong" with headerReceived := true, closeReq := true }
      else capCheck s
    | some i =>
      if i > maxHeader then { setError s "headerTooLong" with headerReceived := true, closeReq := true }
      else
        let line := s.buf.take i
        if !env.utf8Ok line then { s with crashed := true }
        else
          let s := parseHeader env s line
          let s := { s with buf := s.buf.drop (i + 2), headerReceived := true }
          match s.status with
          | none => { s with closeReq := true }
          | some st => if 20 ≤ st ∧ st < 30 then capCheck s else capCheck { s with closeReq := true }
  else capCheck s

/-- `connection_lost` -/
def onLost (env : Env) (s : CSt) (exc : Bool) : CSt :=
  if s.fut ≠ .pending then s
  else if exc then { s with fut := .error "connection" }
  else if !s.headerReceived then { s with fut := .error "closedEarly" }
  else match s.status with
    | none => { s with fut := .error "internal" }     -- unreachable: status None ⇒ error already set
    | some st =>
      if 20 ≤ st ∧ st < 30 then
        if env.isText s.mta ∧ s.decodeText then
          match env.decodeBody s.mta s.buf with
          | 0 => { s with fut := .response st s.mta (some s.buf) true }
          | 1 => { s with fut := .error "decode" }
          | _ => { s with fut := .error "charset" }
        else { s with fut := .response st s.mta (some s.buf) false }
      else { s with fut := .response st s.mta none false }

def cstep (env : Env) (s : CSt) : CEv → CSt
  | .data c => onData env s c
  | .lost e => onLost env s (e || s.crashed)

def crun (env : Env) (evs : List CEv) : CSt := evs.foldl (cstep env) {}

/-- C13: once the connection is lost, the caller's future is resolved — for every server byte
    stream, every segmentation, every behaviour of the codecs -/
theorem lost_resolves (env : Env) (s : CSt) (e : Bool) : (cstep env s (.lost e)).fut ≠ .pending := by
  simp only [cstep, onLost]
  split
  · assumption
  · split
    · simp
    · split
      · simp
      · split
        · simp
        · split
          · split
            · split <;> simp
            · simp
          · simp

theorem setError_keep (s : CSt) (k : String) (h : s.fut ≠ .pending) : (setError s k).fut = s.fut := by
  unfold setError; rw [if_neg h]

theorem capCheck_keep (s : CSt) (h : s.fut ≠ .pending) : (capCheck s).fut = s.fut := by
  unfold capCheck; split
  · exact setError_keep s _ h
  · rfl

theorem parseHeader_keep (env : Env) (s : CSt) (l : Bytes) (h : s.fut ≠ .pending) :
    (parseHeader env s l).fut = s.fut := by
  unfold parseHeader
  simp only
  split
  · exact setError_keep s _ h
  · split
    · rfl
    · exact setError_keep _ _ h

/-- a resolved future is never touched again -/
theorem fut_stable (env : Env) (s : CSt) (ev : CEv) (h : s.fut ≠ .pending) : (cstep env s ev).fut = s.fut := by
  cases ev with
  | lost e => simp [cstep, onLost, h]
  | data c =>
    simp only [cstep, onData]
    split
    · rfl
    · split
      · split
        · split
          · exact setError_keep { s with buf := s.buf ++ c } _ h
          · exact capCheck_keep { s with buf := s.buf ++ c } h
        · split
          · exact setError_keep { s with buf := s.buf ++ c } _ h
          · rename_i i _ _
            split
            · rfl
            · have hp := parseHeader_keep env { s with buf := s.buf ++ c } ((s.buf ++ c).take i) h
              split
              · exact hp
              · split
                · rw [capCheck_keep _ (by simpa [hp] using h)]; exact hp
                · rw [capCheck_keep _ (by simpa [hp] using h)]; exact hp
      · exact capCheck_keep { s with buf := s.buf ++ c } h

theorem run_stable (env : Env) (s : CSt) (evs : List CEv) (h : s.fut ≠ .pending) :
    (evs.foldl (cstep env) s).fut = s.fut := by
  induction evs generalizing s with
  | nil => rfl
  | cons e es ih =>
    have h1 := fut_stable env s e h
    simp only [List.foldl_cons]
    rw [ih _ (by rw [h1]; exact h), h1]

/-- C13 (termination): in every history that contains a connection loss, the call has a result —
    whatever the server sent, however it was segmented, whatever the codecs do -/
theorem resolves_after_lost (env : Env) (pre post : List CEv) (e : Bool) :
    (crun env (pre ++ [.lost e] ++ post)).fut ≠ .pending := by
  unfold crun
  rw [List.foldl_append, List.foldl_append]
  simp only [List.foldl_cons, List.foldl_nil]
  have h := lost_resolves env (pre.foldl (cstep env) {}) e
  rw [run_stable env _ post h]; exact h

example : (crun ⟨fun _ => true, fun _ => some 20, fun _ => true, fun _ _ => 2⟩
    [.data [50, 48, 32, 120, 13, 10, 104, 105], .lost false]).fut = .error "charset" := by decide
end Cl

namespace Cl

/-- while the call is still pending, a parsed status is in range -/
def StatusInv (s : CSt) : Prop := ∀ st, s.status = some st → s.fut = .pending → 10 ≤ st ∧ st < 70

theorem setError_status (s : CSt) (k : String) : (setError s k).status = s.status := by
  unfold setError; split <;> rfl

theorem capCheck_status (s : CSt) : (capCheck s).status = s.status := by
  unfold capCheck; split
  · exact setError_status s _
  · rfl

theorem setError_header (s : CSt) (k : String) : (setError s k).headerReceived = s.headerReceived := by
  unfold setError; split <;> rfl

theorem capCheck_header (s : CSt) : (capCheck s).headerReceived = s.headerReceived := by
  unfold capCheck; split
  · exact setError_header s _
  · rfl

theorem setError_pending (s : CSt) (k : String) : (setError s k).fut ≠ .pending := by
  unfold setError; split
  · simp
  · assumption

theorem capCheck_pending (s : CSt) (h : (capCheck s).fut = .pending) : s.fut = .pending := by
  unfold capCheck at h
  split at h
  · exact absurd h (setError_pending s _)
  · exact h

theorem parseHeader_inv (env : Env) (s : CSt) (l : Bytes) (hs : s.status = none) : StatusInv (parseHeader env s l) := by
  unfold parseHeader
  simp only
  split
  · intro st h1 _; rw [setError_status, hs] at h1; simp at h1
  · rename_i st hst
    split
    · rename_i hr
      intro st' h1 _
      simp only [Option.some.injEq] at h1; subst h1; exact hr
    · intro st' _ h2
      exact absurd h2 (setError_pending _ _)

theorem cstep_inv (env : Env) (s : CSt) (ev : CEv) (h : StatusInv s) (hh : s.headerReceived = false → s.status = none) :
    StatusInv (cstep env s ev) ∧ ((cstep env s ev).headerReceived = false → (cstep env s ev).status = none) := by
  cases ev with
  | lost e =>
    simp only [cstep, onLost]
    split
    · exact ⟨h, hh⟩
    · rename_i hp
      have hp' : s.fut = .pending := by simpa using hp
      split
      · exact ⟨fun st h1 h2 => by simp at h2, hh⟩
      · split
        · exact ⟨fun st h1 h2 => by simp at h2, hh⟩
        · split
          · exact ⟨fun st h1 h2 => by simp at h2, hh⟩
          · split
            · split
              · split <;> exact ⟨fun st h1 h2 => by simp at h2, hh⟩
              · exact ⟨fun st h1 h2 => by simp at h2, hh⟩
            · exact ⟨fun st h1 h2 => by simp at h2, hh⟩
  | data c =>
    simp only [cstep, onData]
    split
    · exact ⟨h, hh⟩
    · split
      · rename_i hnr
        have hsn : s.status = none := hh (by simpa using hnr)
        split
        · split
          · refine ⟨fun st h1 h2 => absurd h2 (setError_pending _ _), fun hf => by simp at hf⟩
          · refine ⟨fun st h1 h2 => ?_, fun _ => ?_⟩
            · rw [capCheck_status] at h1; simp [hsn] at h1
            · rw [capCheck_status]; exact hsn
        · split
          · refine ⟨fun st h1 h2 => absurd h2 (setError_pending _ _), fun hf => by simp at hf⟩
          · rename_i i _ _
            split
            · exact ⟨fun st h1 h2 => by simp [hsn] at h1, fun _ => hsn⟩
            · have hpi := parseHeader_inv env { s with buf := s.buf ++ c } ((s.buf ++ c).take i) hsn
              split
              · exact ⟨fun st h1 h2 => hpi st h1 h2, fun hf => by simp at hf⟩
              · split
                · refine ⟨fun st h1 h2 => ?_, fun hf => ?_⟩
                  · rw [capCheck_status] at h1
                    have hx := capCheck_pending _ h2
                    exact hpi st h1 hx
                  · rw [capCheck_header] at hf; simp at hf
                · refine ⟨fun st h1 h2 => ?_, fun hf => ?_⟩
                  · rw [capCheck_status] at h1
                    have hx := capCheck_pending _ h2
                    exact hpi st h1 hx
                  · rw [capCheck_header] at hf; simp at hf
      · rename_i hr
        refine ⟨fun st h1 h2 => ?_, fun hf => ?_⟩
        · rw [capCheck_status] at h1
          have hx := capCheck_pending _ h2
          exact h st h1 hx
        · exfalso
          rw [capCheck_header] at hf
          simp only at hf
          simp [hf] at hr
end Cl

namespace Cl

theorem run_inv (env : Env) (evs : List CEv) :
    StatusInv (crun env evs) ∧ ((crun env evs).headerReceived = false → (crun env evs).status = none) := by
  unfold crun
  have : ∀ s : CSt, (StatusInv s ∧ (s.headerReceived = false → s.status = none)) →
      StatusInv (evs.foldl (cstep env) s) ∧ ((evs.foldl (cstep env) s).headerReceived = false → (evs.foldl (cstep env) s).status = none) := by
    induction evs with
    | nil => intro s h; exact h
    | cons e es ih => intro s h; exact ih _ (cstep_inv env s e h.1 h.2)
  exact this {} ⟨fun st h => by simp at h, fun _ => rfl⟩

/-- a response is produced only by `connection_lost`, from the status parsed earlier -/
theorem response_origin (env : Env) (s : CSt) (ev : CEv) (hp : s.fut = .pending) (st : Int) (m : Bytes) (b : Option Bytes) (d : Bool)
    (h : (cstep env s ev).fut = .response st m b d) :
    s.status = some st ∧ (b ≠ none ↔ (20 ≤ st ∧ st < 30)) := by
  cases ev with
  | data c =>
    exfalso
    -- `data_received` only ever sets errors
    have hne : ∀ (t : CSt) (k : String), t.fut = .pending → (setError t k).fut = .error k := by
      intro t k ht; unfold setError; rw [if_pos ht]
    have hcap : ∀ t : CSt, t.fut = .pending → ∀ st m b d, (capCheck t).fut ≠ .response st m b d := by
      intro t ht st m b d
      unfold capCheck; split
      · simp only; rw [hne t _ ht]; simp
      · rw [ht]; simp
    simp only [cstep, onData] at h
    split at h
    · rw [hp] at h; simp at h
    · split at h
      · split at h
        · split at h
          · simp only at h; rw [hne _ _ (by simpa using hp)] at h; simp at h
          · exact hcap _ (by simpa using hp) _ _ _ _ h
        · split at h
          · simp only at h; rw [hne _ _ (by simpa using hp)] at h; simp at h
          · rename_i i _ _
            split at h
            · simp only at h; rw [hp] at h; simp at h
            · -- after the header was parsed the future is pending or an error, never a response
              have hph : ∀ l, (parseHeader env { s with buf := s.buf ++ c } l).fut = .pending ∨
                  ∃ k, (parseHeader env { s with buf := s.buf ++ c } l).fut = .error k := by
                intro l
                unfold parseHeader; simp only
                split
                · right; exact ⟨_, hne _ _ (by simpa using hp)⟩
                · split
                  · left; simpa using hp
                  · right; exact ⟨_, hne _ _ (by simpa using hp)⟩
              rcases hph ((s.buf ++ c).take i) with hq | ⟨k, hq⟩
              · split at h
                · simp only at h; rw [hq] at h; simp at h
                · split at h
                  · exact hcap _ (by simpa using hq) _ _ _ _ h
                  · exact hcap _ (by simpa using hq) _ _ _ _ h
              · have hk : ∀ t : CSt, t.fut = .error k → (capCheck t).fut = .error k := by
                  intro t ht; unfold capCheck; split
                  · simp only; unfold setError; rw [ht]; simp [ht]
                  · exact ht
                split at h
                · simp only at h; rw [hq] at h; simp at h
                · split at h
                  · rw [hk _ (by simpa using hq)] at h; simp at h
                  · rw [hk _ (by simpa using hq)] at h; simp at h
      · exact hcap _ (by simpa using hp) _ _ _ _ h
  | lost e =>
    simp only [cstep, onLost] at h
    split at h
    · rename_i hn; exact absurd hp hn
    · split at h
      · simp at h
      · split at h
        · simp at h
        · split at h
          · simp at h
          · rename_i st' hst
            split at h
            · rename_i h2x
              split at h
              · split at h
                · simp at h; obtain ⟨rfl, _, rfl, _⟩ := h; exact ⟨hst, by simp [h2x]⟩
                · simp at h
                · simp at h
              · simp at h; obtain ⟨rfl, _, rfl, _⟩ := h; exact ⟨hst, by simp [h2x]⟩
            · rename_i h2x
              simp at h; obtain ⟨rfl, _, rfl, _⟩ := h
              exact ⟨hst, by simpa using h2x⟩
end Cl
