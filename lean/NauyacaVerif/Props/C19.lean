import NauyacaVerif.Url.Wire
import NauyacaVerif.Gen.Params

/-! # C19  URL normalisation preserves meaning and is idempotent

Model: `Url.parseUrl` mirrors `utils/url.py:parse_url` on top of a port of `urllib.parse.urlsplit`
(Python 3.12.1); `normalize_url(u)` is `(parse_url u).normalized`.  Three sub-calls are opaque
parameters `Url.Env`: the IP-literal check on a bracketed host, the NFKC check on a non-ASCII
authority, and `str.lower`.

What is proved covers every URL whose authority is ASCII — reg-names, IPv4, bracketed IPv6 with and
without zone, IPvFuture with anything between the brackets, text before the bracket, any port
spelling, empty user-info, any path and query.  Non-ASCII host names are outside the theorems
(correspondence only): the full statements stay below as `…_statement`. -/

namespace NauyacaVerif.C19
open Url

/-- the modelled domain: ASCII lower-casing, and an IP-literal check that accepts the lower-cased
    spelling of what it accepts -/
structure EnvOK (env : Env) : Prop where
  lower : AsciiLower env
  ip : IpStable env

/-- `u` is accepted as `P` and its authority is ASCII -/
structure AcceptedAscii (env : Env) (u : Str) (P : Parsed) : Prop where
  split : ∃ sp, urlsplit env u = .ok sp ∧ ∀ c ∈ sp.netloc, c.toNat < 128
  parsed : parseUrl env u = .ok P

/-- `normalize_url` -/
def normalize (env : Env) (u : Str) : Except Err Str :=
  match parseUrl env u with
  | .error e => .error e
  | .ok P => .ok P.normalized

theorem defaultPort_tie : (1965 : Nat) = Gen.defaultPort := by decide
theorem maxRequest_tie : (1024 : Nat) = Gen.maxRequest := by decide

/-- core: the normalised form parses to the very same record -/
theorem norm_fixed (env : Env) (he : EnvOK env) (u : Str) (P : Parsed) (ha : AcceptedAscii env u P) :
    parseUrl env P.normalized = .ok P := by
  obtain ⟨sp, hsp, hascii⟩ := ha.split
  exact norm_idem_ascii env he.lower he.ip u P sp hsp hascii ha.parsed

/-- the normalised form of an accepted URL is accepted -/
theorem norm_accepted_partial (env : Env) (he : EnvOK env) (u : Str) (P : Parsed) (ha : AcceptedAscii env u P) : ∃ Q, parseUrl env P.normalized = .ok Q :=
  ⟨P, norm_fixed env he u P ha⟩

/-- … and denotes the same host, port, path and query -/
theorem norm_same_partial (env : Env) (he : EnvOK env) (u : Str) (P Q : Parsed) (ha : AcceptedAscii env u P)
    (hQ : parseUrl env P.normalized = .ok Q) :
    Q.host = P.host ∧ Q.port = P.port ∧ Q.path = P.path ∧ Q.query = P.query := by
  rw [norm_fixed env he u P ha] at hQ
  injection hQ with hQ
  subst hQ
  exact ⟨rfl, rfl, rfl, rfl⟩

/-- … and normalising it again changes nothing -/
theorem norm_idem_partial (env : Env) (he : EnvOK env) (u n : Str) (P : Parsed) (ha : AcceptedAscii env u P)
    (hn : normalize env u = .ok n) : normalize env n = .ok n := by
  have e : n = P.normalized := by
    unfold normalize at hn
    rw [ha.parsed] at hn
    injection hn with hn
    exact hn.symm
  unfold normalize
  rw [e, norm_fixed env he u P ha]

/-- the un-bracketed ASCII case as first proved in the design round -/
theorem norm_idem_plain_partial (env : Env) (hl : AsciiLower env) (u : Str) (P : Parsed) (sp : Split)
    (hsp : urlsplit env u = .ok sp) (hascii : ∀ c ∈ sp.netloc, c.toNat < 128) (hnb : '[' ∉ sp.netloc)
    (h : parseUrl env u = .ok P) : parseUrl env P.normalized = .ok P :=
  norm_idem_plain env hl u P sp hsp hascii hnb h

/-- the request line the client writes (`normalized` + CRLF, after `validate_url` on the caller's
    string and on the normalised one) is read by the server — whatever follows it on the connection —
    as exactly the caller's components -/
theorem wire_roundtrip_partial (env : Env) (he : EnvOK env) (u w extra : Str) (P : Parsed) (ha : AcceptedAscii env u P)
    (hw : clientWire env Gen.maxRequest u = .ok w) :
    w = P.normalized ++ crlf ∧ serverParse env Gen.maxRequest (w ++ extra) = .ok P := by
  obtain ⟨sp, hsp, hascii⟩ := ha.split
  exact wire_roundtrip env he.lower he.ip Gen.maxRequest u w extra P sp hsp hascii ha.parsed hw

/-- path and query of every accepted URL (any authority, any environment) are in canonical shape:
    the path starts with `/`, neither contains a delimiter that would end it, nor TAB/CR/LF -/
theorem tail_canonical (env : Env) (u : Str) (P : Parsed) (h : parseUrl env u = .ok P) : PlainTail P.path P.query :=
  parse_tail_plain env u P h

/-! ## the full statements (not proved: non-ASCII host names are correspondence-only) -/

/-- §3 contract of `str.lower` on arbitrary text: idempotent, never producing a character with a
    meaning in an authority -/
def LowerContract (env : Env) : Prop :=
  (∀ s, env.lowerU (env.lowerU s) = env.lowerU s) ∧
  (∀ s c, c ∈ env.lowerU s → (isDelim c = true ∨ c = '@' ∨ c = ':' ∨ c = '[' ∨ c = ']' ∨ c = '%' ∨ isUnsafe c = true) → c ∈ s)

def norm_accepted_statement : Prop :=
  ∀ env u P, LowerContract env → IpStable env → parseUrl env u = .ok P → ∃ Q, parseUrl env P.normalized = .ok Q
def norm_same_statement : Prop :=
  ∀ env u P Q, LowerContract env → IpStable env → parseUrl env u = .ok P → parseUrl env P.normalized = .ok Q →
    Q.host = P.host ∧ Q.port = P.port ∧ Q.path = P.path ∧ Q.query = P.query
def norm_idem_statement : Prop :=
  ∀ env u n, LowerContract env → IpStable env → normalize env u = .ok n → normalize env n = .ok n
def wire_roundtrip_statement : Prop :=
  ∀ env u w P, LowerContract env → IpStable env → parseUrl env u = .ok P → clientWire env Gen.maxRequest u = .ok w →
    serverParse env Gen.maxRequest w = .ok P

/-! ## non-vacuity -/

def asciiEnv : Env := ⟨fun _ => true, fun _ => true, fun s => s.map lowerAscii⟩
theorem asciiEnv_ok : EnvOK asciiEnv := ⟨fun _ => rfl, fun _ _ => rfl⟩

def v6 : Str := ['G','E','M','I','N','I',':','/','/','[',':',':','1',']',':','1','9','6','5','/','x']
def v6n : Str := ['g','e','m','i','n','i',':','/','/','[',':',':','1',']','/','x']
def v6P : Parsed := ⟨[':',':','1'], 1965, ['/','x'], [], v6n⟩

example : parseUrl asciiEnv v6 = .ok v6P := by decide
example : AcceptedAscii asciiEnv v6 v6P := ⟨⟨⟨gemini, ['[',':',':','1',']',':','1','9','6','5'], ['/','x'], [], []⟩, by decide, by decide⟩, by decide⟩
example : parseUrl asciiEnv v6n = .ok v6P := by decide
example : normalize asciiEnv v6n = .ok v6n := by decide

def plain : Str := ['g','e','m','i','n','i',':','/','/','E','x','.','o','r','g',':','7','0','?','a','?','b']
example : (parseUrl asciiEnv plain).toOption.map (fun P => (P.host, P.port, P.path, P.query)) =
    some (['e','x','.','o','r','g'], 70, ['/'], ['a','?','b']) := by decide

/-- IPvFuture literals keep their brackets, whatever they contain; so does a literal with text before it -/
def fut : Str := ['g','e','m','i','n','i',':','/','/','[','v','1','.','a','[','b',']','/']
example : parseUrl asciiEnv fut = .ok ⟨['v','1','.','a','[','b'], 1965, ['/'], [], fut⟩ := by decide
def junk : Str := ['g','e','m','i','n','i',':','/','/','x','[',':',':','1',']','/']
def junkN : Str := ['g','e','m','i','n','i',':','/','/','[',':',':','1',']','/']
example : parseUrl asciiEnv junk = .ok ⟨[':',':','1'], 1965, ['/'], [], junkN⟩ := by decide
example : parseUrl asciiEnv junkN = .ok ⟨[':',':','1'], 1965, ['/'], [], junkN⟩ := by decide

/-- the length corner (limit scaled down to 14): the normalised form of `gemini://h?q` is one character
    longer than the caller's string; the client refuses it instead of sending a line the server must refuse -/
def short : Str := ['g','e','m','i','n','i',':','/','/','h','?','q']
def shortN : Str := ['g','e','m','i','n','i',':','/','/','h','/','?','q']
example : clientWire asciiEnv 14 short = .error .tooLong := by decide
example : clientWire asciiEnv 15 short = .ok (shortN ++ crlf) := by decide
example : serverParse asciiEnv 15 (shortN ++ crlf) = .ok ⟨['h'], 1965, ['/'], ['q'], shortN⟩ := by decide

end NauyacaVerif.C19
