import NauyacaVerif.Misc.Pump
import NauyacaVerif.Misc.PumpTls
import NauyacaVerif.Srv.PumpProof
import NauyacaVerif.Gen.Tls

/-! # C20  No service below TLS 1.2 and none without TLS

`Gen.contextPaths` is regenerated on every run by `harness/props/c20.py:extract_extra` from the
REAL context objects: one row `(path id, lowest enabled version, highest enabled version)` per
context-construction path (ids in `pathName`).  For `ssl.SSLContext` the row is read from
`minimum_version` / `maximum_version`; for PyOpenSSL contexts (no getter) it is the lowest / highest
single version a permissive memory-BIO peer completes with the security level of the context
lowered to 0, so that the version setting is the only barrier left.  Version negotiation itself is
OpenSSL's: `Misc.negotiate` is its contract ("highest version enabled on both sides, if any").

`no_plaintext` is about `Srv.Pump` (the PyOpenSSL backend's `TLSServerProtocol`): the inner
Gemini protocol exists only after a read completed the handshake. -/

namespace NauyacaVerif.C20
open Misc

/-- path ids of the generated table (harness/sim/tls_paths.py builds each with the real function) -/
def pathName : Nat → String
  | 0 => "security.tls.create_server_context (supplied certificate)"
  | 1 => "security.tls.create_server_context (supplied certificate, client certificates requested)"
  | 2 => "server.server._create_self_signed_context (auto-generated certificate)"
  | 3 => "server.server._create_self_signed_context (auto-generated, client certificates requested)"
  | 4 => "security.pyopenssl_tls.create_pyopenssl_server_context (supplied certificate)"
  | 5 => "security.pyopenssl_tls.create_pyopenssl_server_context (supplied, client certificates requested)"
  | 6 => "server.server._create_self_signed_pyopenssl_context (auto-generated, client certificates requested)"
  | 7 => "client.session.GeminiClient(...).ssl_context in TOFU mode"
  | 8 => "client.session.GeminiClient(...).ssl_context in CA mode (verify_ssl=True)"
  | 9 => "client.session.GeminiClient(...).ssl_context with TOFU and verification off"
  | 10 => "client.session.GeminiClient(...).ssl_context in TOFU mode with a client certificate"
  | 11 => "start_server, supplied certificate: the ssl= argument handed to create_server"
  | 12 => "start_server, no certificate: the ssl= argument handed to create_server"
  | 13 => "start_server, supplied certificate, require_client_cert: TLSServerProtocol.ssl_context"
  | 14 => "start_server, no certificate, a certificate-auth rule: TLSServerProtocol.ssl_context"
  | _ => "?"

def pathCount : Nat := 15

def range (p : Nat × Nat × Nat) : Range := ⟨ofRank p.2.1, ofRank p.2.2⟩

/-- every construction path is in the table, exactly once, none is missing -/
theorem paths_complete : Gen.contextPaths.map (fun p => p.1) = List.range pathCount := by decide

/-- read off the real contexts: every path has TLS 1.2 as its lowest enabled version -/
theorem table_min : ∀ p ∈ Gen.contextPaths, (range p).lo = Ver.tls12 := by decide

/-- … and still serves TLS 1.2 and 1.3 (the refusal of old versions is not a refusal of everything) -/
theorem table_max : ∀ p ∈ Gen.contextPaths, (range p).hi = Ver.tls13 := by decide

/-- whatever a peer offers to a context built by any nauyaca construction path, a completed
    handshake is TLS 1.2 or 1.3 -/
theorem no_old_tls : ∀ p ∈ Gen.contextPaths, ∀ (peer : Range) (v : Ver),
    negotiate (range p) peer = some v → Ver.tls12.rank ≤ v.rank := by
  intro p hp peer v h
  have := negotiate_ge_min (range p) peer v h
  rw [table_min p hp] at this
  exact this

theorem no_old_tls' : ∀ p ∈ Gen.contextPaths, ∀ (peer : Range) (v : Ver),
    negotiate (range p) peer = some v → v = Ver.tls12 ∨ v = Ver.tls13 :=
  fun p hp peer v h => Misc.no_old_tls (range p) peer (table_min p hp) v h

/-- a peer that offers nothing above TLS 1.1 gets no handshake at all (client side: "never completes
    one with a server that offers less") -/
theorem refuses_old_peer : ∀ p ∈ Gen.contextPaths, ∀ peer : Range, peer.hi.rank < Ver.tls12.rank →
    negotiate (range p) peer = none := by
  intro p hp peer hlt
  cases h : negotiate (range p) peer with
  | none => rfl
  | some v =>
    exfalso
    have h1 := no_old_tls p hp peer v h
    -- the negotiated version is at most the peer's maximum
    unfold negotiate at h
    simp only at h
    split at h
    · injection h with h; subst h
      have hm : min (range p).hi.rank peer.hi.rank ≤ 4 := Nat.le_trans (Nat.min_le_left _ _) (rank_le _)
      rw [rank_ofRank _ hm] at h1
      have : min (range p).hi.rank peer.hi.rank ≤ peer.hi.rank := Nat.min_le_right _ _
      omega
    · simp at h

/-- the control contexts of the harness do complete TLS 1.0 in this OpenSSL build, so a refusal
    observed at a nauyaca context is the context's doing (environment fact, re-measured on every run) -/
theorem control_negotiates_old : Gen.oldTlsNegotiable = true := by decide

/-- a modern peer is served -/
theorem serves_modern : ∀ p ∈ Gen.contextPaths, negotiate (range p) ⟨Ver.tls12, Ver.tls13⟩ = some Ver.tls13 := by decide

/-- the PyOpenSSL pump: as long as no read completed the handshake there is no inner protocol,
    hence no handler call and no application byte -/
theorem inner_needs_final (cfg : Srv.Cfg) (evs : List Srv.PEv) (h : ∀ e ∈ evs, Misc.PumpTls.noFinal e) :
    (Srv.pumpRun cfg evs).inner = none ∧ Srv.plainOut (Srv.pumpRun cfg evs) = [] ∧ Misc.PumpTls.handlerCalls (Srv.pumpRun cfg evs) = 0 := by
  have hp := Misc.PumpTls.run_pre cfg evs {} Misc.PumpTls.pre_init h
  exact ⟨hp.1, Misc.PumpTls.pre_plainOut _ hp⟩

/-- no service without TLS: a read that carries anything but handshake records (`bad` = plaintext,
    garbage, an alert; also application data or a close-notify) before the handshake completed closes
    the TCP connection; no inner protocol is ever created on that connection — whatever was received
    before (short of a completed handshake) and whatever happens afterwards — so no handler runs and
    no application byte leaves -/
theorem no_plaintext (cfg : Srv.Cfg) (before : List Srv.PEv) (pre : List Srv.Item) (x : Srv.Item)
    (rest : List Srv.Item) (after : List Srv.PEv)
    (hb : ∀ e ∈ before, Misc.PumpTls.noFinal e) (hpre : ∀ i ∈ pre, Misc.PumpTls.isHs i = true)
    (hx : Misc.PumpTls.isHs x = false ∧ Misc.PumpTls.isFinal x = false) :
    let p := Srv.pumpRun cfg (before ++ [Srv.PEv.read (pre ++ x :: rest)] ++ after)
    p.inner = none ∧ Srv.plainOut p = [] ∧ Misc.PumpTls.handlerCalls p = 0 ∧ (p.tcpClosed = true ∨ p.lost = true) := by
  intro p
  have h1 := Misc.PumpTls.run_pre cfg before {} Misc.PumpTls.pre_init hb
  have h2 := Misc.PumpTls.step_reject cfg _ h1 pre x rest hpre hx
  have h3 := Misc.PumpTls.run_dead cfg after _ h2
  have hp : Misc.PumpTls.Dead p := by
    simpa [p, Srv.pumpRun, List.foldl_append] using h3
  exact ⟨hp.1.1, (Misc.PumpTls.pre_plainOut p hp.1).1, (Misc.PumpTls.pre_plainOut p hp.1).2, hp.2⟩

/-- re-export of the pump invariant (`Srv.PumpProof`): for EVERY event list, an inner protocol implies a completed handshake -/
theorem inner_after_handshake (cfg : Srv.Cfg) (evs : List Srv.PEv) :
    (Srv.pumpRun cfg evs).inner.isSome → (Srv.pumpRun cfg evs).hsDone = true :=
  (Srv.pumpRun_pinv cfg evs).innerAfterHs

/-- re-export: the first read is rejected -/
theorem no_plaintext_first_read (cfg : Srv.Cfg) (rest : List Srv.Item) :
    (Srv.pumpRun cfg [.read (.bad :: rest)]).inner = none ∧ (Srv.pumpRun cfg [.read (.bad :: rest)]).tcpClosed = true :=
  Srv.no_plaintext cfg rest

/-! non-vacuity -/
example : Gen.contextPaths ≠ [] := by decide
example : negotiate ⟨.tls12, .tls13⟩ ⟨.tls10, .tls13⟩ = some .tls13 := by decide
example : negotiate ⟨.tls12, .tls13⟩ ⟨.tls10, .tls12⟩ = some .tls12 := by decide
example : negotiate ⟨.tls12, .tls13⟩ ⟨.tls10, .tls11⟩ = none := by decide
-- the control context: the old version IS negotiable when the minimum is not set
example : negotiate ⟨.tls10, .tls13⟩ ⟨.tls10, .tls11⟩ = some .tls11 := by decide
-- a completed handshake does create the inner protocol; a rejected one does not
example (cfg : Srv.Cfg) : (Srv.pumpRun cfg [.read [.hs, .hsFinal]]).inner.isSome = true := by rfl
example (cfg : Srv.Cfg) : (Srv.pumpRun cfg [.read [.hs], .read [.bad], .read [.hsFinal]]).inner.isSome = false := by rfl
example (cfg : Srv.Cfg) : (Srv.pumpRun cfg [.read [.hs], .read [.bad]]).tcpClosed = true := by rfl
example : Misc.PumpTls.noFinal (Srv.PEv.read [.hs, .bad, .app [1]]) := by simp [Misc.PumpTls.noFinal, Misc.PumpTls.isFinal]
end NauyacaVerif.C20
