import NauyacaVerif.Misc.TofuTxnProof
import NauyacaVerif.Misc.Key

/-! # C12  The trust store changes atomically and survives export/import

Model: `TofuTxn` (`Misc/TofuTxn.lean`) mirrors `TOFUDatabase`: the table `known_hosts` as an
association list keyed by (hostname, port); every operation is the list of SQL statements it
issues, connection by connection, `commit` included.  `crashAt k` executes the first `k`
statements and then drops whatever the open connection had not committed — this covers both a
killed process (SQLite's atomic commit is the assumed contract) and an exception unwinding
through `finally: conn.close()`.  `apply` is the specification of the complete operation,
written independently of the scripts (`script_complete` ties the two).

The conflict callback of `import_toml` is an arbitrary function of the entry position returning
`update | skip | raise`; import files are arbitrary lists of entries, each with arbitrary
validation defects. -/

namespace NauyacaVerif.C12
open TofuTxn

/-- running the statements an operation issues, to the end, computes the operation -/
theorem script_complete (op : Op) (s : Store) : run s (script op s) = apply op s :=
  TofuTxn.script_complete op s

/-- all-or-nothing under crashes and injected errors: for trust, verify, revoke, revoke-by-host,
    clear, import (merge and replace, any file, any callback), on any store, at any statement
    boundary `k`, the store is exactly as before or exactly as after the complete operation -/
theorem crash_atomic (op : Op) (s : Store) (k : Nat) :
    crashAt k (script op s) s = s ∨ crashAt k (script op s) s = apply op s :=
  TofuTxn.crash_atomic op s k

/-- an import that fails for any reason — unreadable file, an entry with a missing field, a bad
    port or a bad fingerprint at any position, a conflict callback that raises — in merge or
    replace mode leaves the store exactly as before: after the failing call itself and after a
    crash at any boundary on the way -/
theorem import_all_or_nothing (merge : Bool) (file : ImportFile) (cb : Option (Nat → Cb)) (now : Nat) (s : Store)
    (hf : importFails merge file cb now s = true) :
    run s (script (.importToml merge file cb now) s) = s ∧
    ∀ k, crashAt k (script (.importToml merge file cb now) s) s = s := by
  obtain ⟨h1, h2⟩ := import_fails_unchanged merge file cb now s hf
  exact ⟨by rw [TofuTxn.script_complete, h1], h2⟩

/-- a bad entry makes the import fail whatever precedes and follows it and whatever the callback
    does (so the hypothesis of `import_all_or_nothing` is met for a defect at *any* position) -/
theorem bad_entry_fails (merge : Bool) (pre post : List Entry) (bad : Entry) (cb : Option (Nat → Cb)) (now : Nat)
    (s : Store) (hbad : checkEntry bad ≠ .ok) :
    importFails merge (.entries (pre ++ bad :: post)) cb now s = true := by
  simp only [importFails, Option.isNone_iff_eq_none]
  generalize importBase merge s = w
  generalize 0 = i
  induction pre generalizing w i with
  | nil =>
    have hm : mergeEntry cb now i bad w = none := by
      unfold mergeEntry
      split
      · rename_i h; exact absurd h hbad
      · rfl
    simp only [List.nil_append, importFold, hm]
  | cons e es ih =>
    simp only [List.cons_append, importFold]
    split
    · rfl
    · exact ih _ _

/-- frame: whatever happens (complete, failed, crashed at any boundary), the row of a key the
    operation does not name is untouched.  Named keys: the (host, port) of trust/verify/revoke, every
    port of the host of revoke-by-host, the keys of the entries of a merge import, every key for
    clear and for a replace import. -/
theorem frame (op : Op) (s : Store) (k : Nat) (h : Host) (p : Nat) (hn : names op h p = false) :
    lookup (crashAt k (script op s) s) h p = lookup s h p := by
  rcases TofuTxn.crash_atomic op s k with e | e
  · rw [e]
  · rw [e]; exact apply_frame op s h p hn

/-- the key written into the export file determines host name and port, for any host name -/
theorem key_injective {h₁ h₂ : Host} {p₁ p₂ : Nat} (h : keyStr h₁ p₁ = keyStr h₂ p₂) : h₁ = h₂ ∧ p₁ = p₂ :=
  keyStr_injective h

/-- the same over `Char` strings (the form proved in the design round) -/
theorem key_injective_chars {h₁ h₂ : Key.Str} {p₁ p₂ : Nat} (h : Key.key h₁ p₁ = Key.key h₂ p₂) : h₁ = h₂ ∧ p₁ = p₂ :=
  Key.key_injective h

/-- export then import into an empty store reproduces every (hostname, port, fingerprint,
    first_seen); `last_seen` becomes the import time.  For ANY host names; the hypotheses are the
    table's primary key and the port range `import_toml` insists on. -/
theorem export_import (s : Store) (now : Nat) (hd : KeysDistinct s) (hp : ∀ r ∈ s, 1 ≤ r.port ∧ r.port ≤ 65535) :
    importInto [] (exportToml s) now = s.map (touched now) :=
  TofuTxn.export_import s now hd hp

/-- … in whatever order `list_hosts` (ORDER BY last_seen DESC) hands the rows to the exporter -/
theorem export_import_any_order (s s' : Store) (now : Nat) (hperm : s'.Perm s) (hd : KeysDistinct s)
    (hp : ∀ r ∈ s, 1 ≤ r.port ∧ r.port ≤ 65535) :
    (importInto [] (exportToml s') now).Perm (s.map (touched now)) := by
  have hd' : KeysDistinct s' := by
    unfold KeysDistinct at hd ⊢
    exact (List.Perm.pairwise_iff (R := fun a b : Row => ¬ (a.host = b.host ∧ a.port = b.port))
      (fun {a b} hab hba => hab ⟨hba.1.symm, hba.2.symm⟩) hperm).mpr hd
  have hp' : ∀ r ∈ s', 1 ≤ r.port ∧ r.port ≤ 65535 := fun r hr => hp r (hperm.mem_iff.mp hr)
  rw [TofuTxn.export_import s' now hd' hp']
  exact hperm.map _

/-! ## non-vacuity -/

def hA : Host := [97]            -- "a"
def hB : Host := [58, 58, 49]    -- "::1"
def rowA : Row := ⟨hA, 1965, 1, 10, 11⟩
def rowB : Row := ⟨hB, 1965, 2, 20, 21⟩
def st0 : Store := [rowA, rowB]
def good : Entry := ⟨[120], 1965, true, 7, true, 70, false⟩
def badE : Entry := ⟨[121], 0, true, 8, true, 80, false⟩

-- a replace-mode import whose second entry is bad: the script deletes, inserts, and never commits
example : script (.importToml false (.entries [good, badE]) none 99) st0 =
    [[.deleteAll, .select [120] 1965, .insert ⟨[120], 1965, 7, 70, 99⟩]] := by decide
example : importFails false (.entries [good, badE]) none 99 st0 = true := by decide
example : crashAt 3 (script (.importToml false (.entries [good, badE]) none 99) st0) st0 = st0 := by decide
-- the same file without the bad entry replaces the store, and a crash before the commit does not
example : apply (.importToml false (.entries [good]) none 99) st0 = [⟨[120], 1965, 7, 70, 99⟩] := by decide
example : crashAt 3 (script (.importToml false (.entries [good]) none 99) st0) st0 = st0 := by decide
example : crashAt 4 (script (.importToml false (.entries [good]) none 99) st0) st0 = [⟨[120], 1965, 7, 70, 99⟩] := by decide
-- what the pre-fix code did (clear in its own committed transaction) is NOT atomic in this model
example : crashAt 2 [[.deleteAll, .commit], [.select [120] 1965]] st0 = [] := by decide
-- trust of a known host updates in place; of a new host appends; other rows are framed
example : apply (.trust hA 1965 5 50) st0 = [⟨hA, 1965, 5, 10, 50⟩, rowB] := by decide
example : names (.trust hA 1965 5 50) hB 1965 = false := by decide
example : names (.revokeHost hA) hA 7 = true := by decide
-- conflict callback raising on the first conflicting entry
example : importFails true (.entries [⟨hA, 1965, true, 9, true, 0, false⟩]) (some fun _ => .raise) 99 st0 = true := by decide
example : KeysDistinct st0 := by unfold KeysDistinct st0; decide
-- keys: "a:1" port 2 and "a" port 12 do not collide
example : keyStr [97, 58, 49] 2 ≠ keyStr [97] 12 := by
  intro h; have := (key_injective h).1; simp at this

end NauyacaVerif.C12
