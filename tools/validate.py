#!/usr/bin/env python3-vt
"""Validate MANIFEST.json and every evidence file against the schemas in /root/.vp."""
import json, sys, glob, jsonschema
ok = True
man = json.load(open("/verif/MANIFEST.json"))
jsonschema.validate(man, json.load(open("/root/.vp/MANIFEST.schema.json")))
es = json.load(open("/root/.vp/EVIDENCE.schema.json"))
for f in sorted(glob.glob("/verif/evidence/*.json")):
    try:
        j = json.load(open(f))
        jsonschema.validate(j, es)
        c = j.get("coverage", {})
        if c.get("discharged") != c.get("obligations"):
            # the file was written by a run against a modified tree (a mutant, a seeded change): re-run the check on the unchanged tree before committing
            raise ValueError(f"coverage.discharged ({c.get('discharged')}) != obligations ({c.get('obligations')}): evidence of a run that did not hold")
    except Exception as e:
        ok = False
        print("INVALID", f, str(e)[:300])
print("manifest ok;", len(glob.glob('/verif/evidence/*.json')), "evidence files", "ok" if ok else "WITH ERRORS")
sys.exit(0 if ok else 1)
