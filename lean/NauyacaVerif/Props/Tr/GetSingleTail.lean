import NauyacaVerif.Gen.Fn.GetSingleTail
import NauyacaVerif.Gen.Fn.UploadTail
import NauyacaVerif.Misc.TofuSql
set_option linter.unusedSimpArgs false
/-!
The hand-written session model `Misc.connect` (M-Tofu / M-Session: which connection is accepted, what is pinned and in
which ORDER connect / verify / trust / send / await / close happen) against the TRANSLATION of the post-connection half
of `GeminiClient._get_single` (regenerated from the current source on every run).  The translated code is run in the
world `(pins, actions so far)` whose operations are the model's store and the model's action log.
-/
namespace NauyacaVerif.Translated
open NauyacaVerif.Gen.Fn Cl Misc

abbrev World := Pins × List Act

/-- the world in which the peer presented `p`, the request is `payload` and the server answers `response` -/
def tofuEnvOf (k : Key) (p : Presented) (payload : List Nat) (response : Nat) : TofuEnv World Fp Nat where
  peerCert w := (w, match p with | .cert f => some f | .unreadable => none)
  verify w h pt c := ((w.1, w.2 ++ [.verify (h, pt) (verdict w.1 (h, pt) c).1]), .ok (verdict w.1 (h, pt) c))
  hostInfo w h pt := (w, .ok (w.1.get (h, pt)))
  fp c := c
  trust w h pt c := ((w.1.set (h, pt) c, w.2 ++ [.trust (h, pt) c]), .ok ())
  sendRequest w := (w.1, w.2 ++ sends k payload)
  awaitResponse w := ((w.1, w.2 ++ [.await]), .ok response)
  close w := (w.1, w.2 ++ [.close])

/-- the same world with a pin store that fails on the lookup -/
def envFault (k : Key) (p : Presented) (payload : List Nat) (response : Nat) : TofuEnv World Fp Nat :=
  { tofuEnvOf k p payload response with verify := fun w _ _ _ => (w, .error .store) }

def outOf : Outcome → Except CErr Nat
  | .accepted x => .ok x
  | .changed old new => .error (.changed (some old) new)
  | .refused => .error .unreadable

/-- TOFU on: the translated code leaves exactly the model's store, performs exactly the model's actions in the model's
    order, and returns / raises what the model says — for every store, key, presented certificate, request and response -/
theorem getSingleTail_eq (s : Pins) (k : Key) (p : Presented) (pl : List Nat) (r : Nat) :
    getSingleTail (tofuEnvOf k p pl r) true k.1 k.2 (s, [.connect k]) =
      (((connect s k p pl r).1, (connect s k p pl r).2.2), outOf (connect s k p pl r).2.1) := by
  obtain ⟨h, pt⟩ := k
  unfold getSingleTail connect
  cases p with
  | unreadable => simp [tofuEnvOf, outOf]
  | cert fp =>
    cases hg : s.get (h, pt) with
    | none => simp [tofuEnvOf, verdict, hg, outOf, sends]
    | some old =>
      by_cases he : old = fp
      · simp [tofuEnvOf, verdict, hg, he, outOf, sends]
      · simp [tofuEnvOf, verdict, hg, he, outOf, sends]

/-- TOFU off: the request went out in `connection_made`; the tail only awaits and closes, the store is untouched -/
theorem getSingleTail_off (s : Pins) (k : Key) (p : Presented) (pl : List Nat) (r : Nat) :
    getSingleTail (tofuEnvOf k p pl r) false k.1 k.2 (s, [.connect k] ++ sends k pl) =
      (((connectOff s k p pl r).1, (connectOff s k p pl r).2.2), outOf (connectOff s k p pl r).2.1) := by
  simp [getSingleTail, connectOff, tofuEnvOf, outOf]

/-- a failing pin store: nothing is sent, the transport is closed, the store is unchanged -/
theorem getSingleTail_fault (s : Pins) (k : Key) (fp : Fp) (pl : List Nat) (r : Nat) :
    getSingleTail (envFault k (.cert fp) pl r) true k.1 k.2 (s, [.connect k]) =
      (((connectStoreFault s k).1, (connectStoreFault s k).2.2), .error .store) := by
  simp [getSingleTail, connectStoreFault, envFault, tofuEnvOf]

/-- `GeminiClient.upload` (Titan), TOFU on: the translated code leaves exactly the model's store, performs exactly the model's actions in the model's
    order, and returns / raises what the model says — for every store, key, presented certificate, request and response -/
theorem uploadTail_eq (s : Pins) (k : Key) (p : Presented) (pl : List Nat) (r : Nat) :
    uploadTail (tofuEnvOf k p pl r) true k.1 k.2 (s, [.connect k]) =
      (((connect s k p pl r).1, (connect s k p pl r).2.2), outOf (connect s k p pl r).2.1) := by
  obtain ⟨h, pt⟩ := k
  unfold uploadTail connect
  cases p with
  | unreadable => simp [tofuEnvOf, outOf]
  | cert fp =>
    cases hg : s.get (h, pt) with
    | none => simp [tofuEnvOf, verdict, hg, outOf, sends]
    | some old =>
      by_cases he : old = fp
      · simp [tofuEnvOf, verdict, hg, he, outOf, sends]
      · simp [tofuEnvOf, verdict, hg, he, outOf, sends]

/-- TOFU off: the request went out in `connection_made`; the tail only awaits and closes, the store is untouched -/
theorem uploadTail_off (s : Pins) (k : Key) (p : Presented) (pl : List Nat) (r : Nat) :
    uploadTail (tofuEnvOf k p pl r) false k.1 k.2 (s, [.connect k] ++ sends k pl) =
      (((connectOff s k p pl r).1, (connectOff s k p pl r).2.2), outOf (connectOff s k p pl r).2.1) := by
  simp [uploadTail, connectOff, tofuEnvOf, outOf]

/-- a failing pin store: nothing is sent, the transport is closed, the store is unchanged -/
theorem uploadTail_fault (s : Pins) (k : Key) (fp : Fp) (pl : List Nat) (r : Nat) :
    uploadTail (envFault k (.cert fp) pl r) true k.1 k.2 (s, [.connect k]) =
      (((connectStoreFault s k).1, (connectStoreFault s k).2.2), .error .store) := by
  simp [uploadTail, connectStoreFault, envFault, tofuEnvOf]
end NauyacaVerif.Translated
