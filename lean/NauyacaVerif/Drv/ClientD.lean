import NauyacaVerif.Drv.Common
import NauyacaVerif.Cl.Client
namespace NauyacaVerif.Drv.ClientD
open NauyacaVerif.Drv Cl

/-! `client <decodeText:0|1> <utf8:0|1> <text:0|1> <dec:n> <ev>*`   (C13)

    The three oracle words say what the Python library functions do on THIS case (the harness computes
    them): does the header line decode as UTF-8, is the meta text/*, what does `bytes.decode(charset)`
    do on the body (0 ok, 1 UnicodeDecodeError, 2 LookupError, 3 another exception).
    ev     ::= `d:<piece>+<piece>…` | `l:0` | `l:1`         read / connection_lost(None) / connection_lost(exc)
    piece  ::= `<hex>` | `*<byte>*<count>`                  literal bytes / a run of one byte
    output ::= `ok <fut> closed=<0|1>`
    fut    ::= `pending` | `err:<kind>` | `resp:<status>:<meta-hex>:<none | <decoded 0|1>:<len>:<adler32>>` -/

def unhexTR (cs : List Char) : List Nat :=
  let rec go : List Char → List Nat → List Nat
    | a :: b :: r, acc => go r ((hexVal a * 16 + hexVal b) :: acc)
    | _, acc => acc.reverse
  go cs []

def parsePiece (s : String) : Option Bytes :=
  if s.startsWith "*" then
    match s.splitOn "*" with
    | [_, b, n] => match b.toNat?, n.toNat? with
      | some byte, some cnt => some (List.replicate cnt byte)
      | _, _ => none
    | _ => none
  else if s == "-" then some []
  else some (unhexTR s.toList)

def parseEv (s : String) : Option CEv :=
  if s == "l:0" then some (.lost false)
  else if s == "l:1" then some (.lost true)
  else if s.startsWith "d:" then
    match (((s.drop 2).toString).splitOn "+").mapM parsePiece with
    | some ps => some (.data ps.flatten)
    | none => none
  else none

def adler32 (b : Bytes) : Nat :=
  let r := b.foldl (fun (p : Nat × Nat) x => ((p.1 + x) % 65521, (p.2 + (p.1 + x) % 65521) % 65521)) (1, 0)
  r.2 * 65536 + r.1

def showFut : Fut → String
  | .pending => "pending"
  | .error k => s!"err:{k}"
  | .response st m none _ => s!"resp:{st}:{toHex m}:none"
  | .response st m (some b) d => s!"resp:{st}:{toHex m}:{if d then 1 else 0}:{b.length}:{adler32 b}"

def parseBit (s : String) : Option Bool := if s == "1" then some true else if s == "0" then some false else none

def handle : List String → Option String
  | "client" :: dt :: utf8 :: text :: dec :: evs =>
    match parseBit dt, parseBit utf8, parseBit text, dec.toNat?, evs.mapM parseEv with
    | some dtb, some u, some t, some d, some es =>
      let env : Env := ⟨fun _ => u, fun _ => t, fun _ _ => d⟩
      let s := crunFrom env (init dtb) es
      some s!"ok {showFut s.fut} closed={if s.closeReq then 1 else 0}"
    | _, _, _, _, _ => some "bad-op"
  | _ => none
end NauyacaVerif.Drv.ClientD
