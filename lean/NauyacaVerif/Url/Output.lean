import NauyacaVerif.Url.Canon
namespace Url

/-! # the components of any accepted parse are in canonical shape (second half of C19) -/

def AllP (P : Char → Prop) (s : Str) : Prop := ∀ c ∈ s, P c

theorem allP_take {P : Char → Prop} {s : Str} (h : AllP P s) (n : Nat) : AllP P (s.take n) :=
  fun c hc => h c (List.mem_of_mem_take hc)
theorem allP_drop {P : Char → Prop} {s : Str} (h : AllP P s) (n : Nat) : AllP P (s.drop n) :=
  fun c hc => h c (List.mem_of_mem_drop hc)

theorem preprocess_safe (u : Str) : AllP (fun c => isUnsafe c = false) (preprocess u) := by
  intro c hc
  unfold preprocess at hc
  have := (List.mem_filter.mp hc).2
  simpa using this

/-- `splitOnce` returns pieces of the input; the left piece does not contain the separator -/
theorem splitOnce_spec {c : Char} {s a b : Str} (h : splitOnce c s = some (a, b)) :
    s = a ++ c :: b ∧ c ∉ a := by
  unfold splitOnce at h
  cases hf : findIdx (· = c) s with
  | none => simp [hf] at h
  | some i =>
    simp only [hf, Option.some.injEq, Prod.mk.injEq] at h
    obtain ⟨rfl, rfl⟩ := h
    -- by induction on the position
    induction s generalizing i with
    | nil => simp [findIdx] at hf
    | cons x xs ih =>
      simp only [findIdx] at hf
      split at hf
      · rename_i hx
        simp at hf; subst hf
        have : x = c := by simpa using hx
        subst this; simp
      · rename_i hx
        simp at hf; obtain ⟨j, hj, rfl⟩ := hf
        obtain ⟨h1, h2⟩ := ih j hj
        have hxc : x ≠ c := by simpa using hx
        refine ⟨?_, ?_⟩
        · simp only [List.take_succ_cons, List.drop_succ_cons, List.cons_append]
          rw [← h1]
        · simp only [List.take_succ_cons, List.mem_cons, not_or]
          exact ⟨fun h => hxc h.symm, h2⟩

theorem splitOnce_none_iff {c : Char} {s : Str} (h : splitOnce c s = none) : c ∉ s := by
  unfold splitOnce at h
  cases hf : findIdx (· = c) s with
  | some i => simp [hf] at h
  | none =>
    have := findIdx_none_iff.mp hf
    intro hc
    have := List.all_eq_true.mp this c hc
    simp at this

theorem cutAt_spec (c : Char) (s : Str) :
    c ∉ (cutAt c s).1 ∧ (∀ P : Char → Prop, AllP P s → AllP P (cutAt c s).1 ∧ AllP P (cutAt c s).2) ∧
    ((cutAt c s).1 = [] ∨ (cutAt c s).1.head? = s.head?) ∧
    (∀ d, d ∉ s → d ∉ (cutAt c s).1) := by
  unfold cutAt
  cases h : splitOnce c s with
  | none =>
    have hn := splitOnce_none_iff h
    exact ⟨hn, fun P hP => ⟨hP, by intro x hx; simp at hx⟩, Or.inr rfl, fun d hd => hd⟩
  | some ab =>
    obtain ⟨a, b⟩ := ab
    obtain ⟨e, hna⟩ := splitOnce_spec h
    refine ⟨hna, fun P hP => ⟨fun x hx => hP x (by rw [e]; simp [hx]), fun x hx => hP x (by rw [e]; simp [hx])⟩, ?_, ?_⟩
    · cases a with
      | nil => left; rfl
      | cons x xs => right; rw [e]; rfl
    · intro d hd hda; apply hd; rw [e]; simp [hda]

/-- after the tail split: path has no `?`/`#`, query has no `#`, every piece inherits character
    properties of the input, and the path is empty or starts like the input -/
theorem splitTail_spec (u : Str) :
    ('?' ∉ (splitTail u).1 ∧ '#' ∉ (splitTail u).1) ∧
    (∀ P : Char → Prop, AllP P u → AllP P (splitTail u).1 ∧ AllP P (splitTail u).2.1 ∧ AllP P (splitTail u).2.2) ∧
    ((splitTail u).1 = [] ∨ (splitTail u).1.head? = u.head?) ∧ '#' ∉ (splitTail u).2.1 := by
  unfold splitTail
  obtain ⟨f1, f2, f3, f4⟩ := cutAt_spec '#' u
  obtain ⟨q1, q2, q3, q4⟩ := cutAt_spec '?' (cutAt '#' u).1
  have hq : '#' ∉ (cutAt '?' (cutAt '#' u).1).2 := by
    intro hm
    exact (q2 (fun c => c ≠ '#') (fun c hc hcc => f1 (hcc ▸ hc))).2 _ hm rfl
  refine ⟨⟨q1, q4 '#' f1⟩, fun P hP => ⟨(q2 P (f2 P hP).1).1, (q2 P (f2 P hP).1).2, (f2 P hP).2⟩, ?_, hq⟩
  rcases q3 with h | h
  · left; exact h
  · rcases f3 with h' | h'
    · left
      rw [h']
      simp [cutAt, splitOnce, findIdx]
    · right; exact h.trans h'
end Url

namespace Url

theorem findIdx_spec {p : Char → Bool} {s : Str} {i : Nat} (h : findIdx p s = some i) :
    (∀ c ∈ s.take i, p c = false) ∧ (∃ d, (s.drop i).head? = some d ∧ p d = true) := by
  induction s generalizing i with
  | nil => simp [findIdx] at h
  | cons x xs ih =>
    simp only [findIdx] at h
    split at h
    · rename_i hx; simp at h; subst h; exact ⟨by simp, x, rfl, hx⟩
    · rename_i hx
      simp at h; obtain ⟨j, hj, rfl⟩ := h
      obtain ⟨h1, h2⟩ := ih hj
      refine ⟨?_, by simpa using h2⟩
      intro c hc
      simp at hc
      rcases hc with rfl | hc
      · simpa using hx
      · exact h1 c hc

/-- the authority has no delimiter; what follows it is empty or starts with a delimiter -/
theorem splitNetloc_spec (u : Str) :
    (∀ c ∈ (splitNetloc u).1, isDelim c = false) ∧
    (∀ P : Char → Prop, AllP P u → AllP P (splitNetloc u).1 ∧ AllP P (splitNetloc u).2) ∧
    ((splitNetloc u).1 ≠ [] → (splitNetloc u).2 = [] ∨ ∃ d, (splitNetloc u).2.head? = some d ∧ isDelim d = true) := by
  unfold splitNetloc
  split
  · cases hf : findIdx isDelim (u.drop 2) with
    | none =>
      have := findIdx_none_iff.mp hf
      simp only [hf]
      refine ⟨fun c hc => by simpa using List.all_eq_true.mp this c hc, fun P hP => ⟨allP_drop hP 2, by intro c hc; simp at hc⟩, fun _ => by simp⟩
    | some j =>
      obtain ⟨h1, h2⟩ := findIdx_spec hf
      simp only [hf]
      exact ⟨h1, fun P hP => ⟨allP_take (allP_drop hP 2) j, allP_drop (allP_drop hP 2) j⟩, fun _ => Or.inr h2⟩
  · exact ⟨by simp, fun P hP => ⟨by intro c hc; simp at hc, hP⟩, fun h => absurd rfl h⟩

theorem splitScheme_allP (u : Str) (P : Char → Prop) (h : AllP P u) : AllP P (splitScheme u).2 := by
  unfold splitScheme
  split
  · split
    · exact allP_drop h _
    · exact h
  · exact h

/-- what `urlsplit` guarantees about its result, for any input and any opaque environment -/
structure SplitOK (sp : Split) : Prop where
  safe : AllP (fun c => isUnsafe c = false) (sp.netloc ++ sp.path ++ sp.query)
  nlNoDelim : ∀ c ∈ sp.netloc, isDelim c = false
  pathNo : '?' ∉ sp.path ∧ '#' ∉ sp.path
  queryNo : '#' ∉ sp.query
  pathHead : sp.netloc ≠ [] → sp.path = [] ∨ sp.path.head? = some '/'
  brackets : ('[' ∈ sp.netloc ↔ ']' ∈ sp.netloc)

theorem urlsplit_spec (env : Env) (u : Str) (sp : Split) (h : urlsplit env u = .ok sp) : SplitOK sp := by
  unfold urlsplit at h
  have hsafe := preprocess_safe u
  generalize preprocess u = v at h hsafe
  have hs2 := splitScheme_allP v _ hsafe
  generalize splitScheme v = sc at h hs2
  obtain ⟨scheme, u1⟩ := sc
  simp only at h hs2
  obtain ⟨n1, n2, n3⟩ := splitNetloc_spec u1
  have hn := n2 _ hs2
  generalize splitNetloc u1 = nlp at h n1 n3 hn
  obtain ⟨netloc, u2⟩ := nlp
  simp only at h n1 n3 hn
  obtain ⟨t1, t2, t3, t4⟩ := splitTail_spec u2
  have ht := t2 _ hn.2
  generalize splitTail u2 = tl at h t1 t3 t4 ht
  obtain ⟨path, query, fragment⟩ := tl
  simp only at h t1 t3 t4 ht
  cases hck : checkNetloc env netloc with
  | some e => simp [hck] at h
  | none =>
    simp only [hck] at h
    injection h with h
    subst h
    refine ⟨?_, n1, t1, t4, ?_, ?_⟩
    · intro c hc
      simp only [List.mem_append] at hc
      rcases hc with (hc | hc) | hc
      · exact hn.1 c hc
      · exact ht.1 c hc
      · exact ht.2.1 c hc
    · intro hne
      rcases n3 hne with h0 | ⟨d, hd, hdd⟩
      · subst h0
        rcases t3 with h | h
        · left; exact h
        · left
          cases path with
          | nil => rfl
          | cons x xs => simp at h
      · rcases t3 with h | h
        · left; exact h
        · right
          rw [h, hd]
          -- the delimiter that starts the path is neither '?' nor '#'
          have hp1 := t1.1; have hp2 := t1.2
          cases path with
          | nil => simp at h; rw [hd] at h; simp at h
          | cons x xs =>
            simp at h; rw [hd] at h; simp at h; subst h
            simp [isDelim] at hdd
            rcases hdd with (rfl | rfl) | rfl
            · rfl
            · simp at hp1
            · simp at hp2
    · -- bracket consistency is what `checkNetloc` returning none means
      unfold checkNetloc at hck
      by_cases ho : netloc.contains '[' = true <;> by_cases hc : netloc.contains ']' = true <;> simp_all
end Url
