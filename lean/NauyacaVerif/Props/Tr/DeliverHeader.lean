import NauyacaVerif.Gen.Fn.DeliverHeaderOnly
import NauyacaVerif.Gen.Fn.TitanDeliverHeaderOnly
import NauyacaVerif.Cl.ClientSeg
set_option linter.unusedSimpArgs false
set_option linter.unusedVariables false
/-!
`_deliver_header_only` of both client protocol classes, TRANSLATED (regenerated from the current source on every run), is the
operation `Cl.deliverHeader` that the model's `afterHeader` - and the translation of `data_received` - use for a non-2x header:
the call is resolved, once, with the parsed status and meta and WITHOUT a body (the translator insists on
`GeminiResponse(status=self.status, meta=self.meta, body=None, …)`).
-/
namespace NauyacaVerif.Translated
open NauyacaVerif.Gen.Fn Cl

theorem deliver_header_only_eq (s : CSt) : (deliverHeaderOnly s).1 = deliverHeader s := by
  unfold deliverHeaderOnly deliverHeader
  by_cases h : s.fut = .pending
  · cases hs : s.status <;> simp [h, setResult, headerResponse, hs]
  · simp [h]

theorem titan_deliver_header_only_eq (s : CSt) : (titanDeliverHeaderOnly s).1 = deliverHeader s := by
  unfold titanDeliverHeaderOnly deliverHeader
  by_cases h : s.fut = .pending
  · cases hs : s.status <;> simp [h, setResult, headerResponse, hs]
  · simp [h]

/-- what it delivers is a response without body, and only while the call is still pending -/
theorem deliver_header_only_spec (s : CSt) (st : Nat) (hs : s.status = some st) :
    (deliverHeaderOnly s).1.fut = if s.fut = .pending then .response st s.mta none false else s.fut := by
  rw [deliver_header_only_eq]; unfold deliverHeader
  by_cases h : s.fut = .pending <;> simp [h, hs]
end NauyacaVerif.Translated
