"""Run one C12 round-trip case in a child interpreter whose PROCESS ENVIRONMENT is chosen by the case (DESIGN.md §13).

What `tofu export` / `tofu import` write and read must not depend on the environment the command happens to run in - in
particular not on the locale, which decides Python's default text encoding (`open()` / `Path.write_text()` without
`encoding=`), the filesystem encoding and the encoding of the standard streams.  The locale encoding is fixed when the
interpreter starts, so a case that varies it needs an interpreter of its own:

    python -m harness.sim.store_child <job.json>      (cwd = /verif; prints the observation as one ASCII JSON line)

ENVIRONMENTS maps the names used in cases to environment variables; `available()` adds the legacy 8-bit locales installed
on this machine (none in the build container: only C, C.utf8, POSIX).
"""
from __future__ import annotations

import json
import os
import subprocess
import sys

STRICT = {"PYTHONUTF8": "0", "PYTHONCOERCECLOCALE": "0"}        # what the interpreter does when it is NOT allowed to paper over the locale
ENVIRONMENTS = {
    "utf8": {"LC_ALL": "C.UTF-8", "LANG": "C.UTF-8"},
    "c": {"LC_ALL": "C", "LANG": "C"},                                   # CPython >= 3.7 coerces this to C.UTF-8 / UTF-8 mode
    "c-strict": dict(STRICT, LC_ALL="C", LANG="C"),                      # ASCII: cron jobs, minimal containers, `env -i`, embedded interpreters
    "posix-strict": dict(STRICT, LC_ALL="POSIX", LANG="POSIX"),
    "utf8mode": {"LC_ALL": "C", "LANG": "C", "PYTHONUTF8": "1"},
}
_LEGACY: list | None = None


def legacy_locales() -> list:
    """installed locales with a legacy 8-bit / multi-byte charset (ISO-8859-x, KOI8, EUC, …)"""
    global _LEGACY
    if _LEGACY is None:
        try:
            out = subprocess.run(["locale", "-a"], capture_output=True, text=True, timeout=10).stdout.split()
        except Exception:  # noqa: BLE001
            out = []
        _LEGACY = sorted(l for l in out if any(t in l.lower() for t in ("iso8859", "iso-8859", "latin", "koi8", "euc", "cp125", "gbk", "big5", "sjis")))[:4]
    return _LEGACY


def available() -> list:
    return list(ENVIRONMENTS) + ["locale:" + l for l in legacy_locales()]


def env_for(name: str) -> dict:
    env = {k: v for k, v in os.environ.items() if k not in ("LC_ALL", "LC_CTYPE", "LANG", "LANGUAGE", "PYTHONUTF8", "PYTHONCOERCECLOCALE", "PYTHONIOENCODING")}
    if name.startswith("locale:"):
        env.update(STRICT, LC_ALL=name[7:], LANG=name[7:])
    else:
        env.update(ENVIRONMENTS[name])
    return env


def run(job: dict, workdir: str, timeout: int = 120) -> dict:
    """run `job` ({"env": name, "do": "roundtrip", "case": …}) in a child; returns its observation"""
    from ..core import VERIF

    jf = os.path.join(workdir, "job.json")
    with open(jf, "w", encoding="ascii") as f:
        json.dump(job, f)
    p = subprocess.run([sys.executable, "-m", "harness.sim.store_child", jf], cwd=str(VERIF), env=env_for(job["env"]), capture_output=True, timeout=timeout)
    lines = [l for l in p.stdout.decode("ascii", "replace").splitlines() if l.startswith("OBS ")]
    if p.returncode != 0 or not lines:
        raise RuntimeError(f"child interpreter failed (rc {p.returncode}): {p.stderr.decode('utf-8', 'replace')[-400:]}")
    return json.loads(lines[-1][4:])


def main() -> None:
    with open(sys.argv[1], encoding="ascii") as f:
        job = json.load(f)
    from .. import core

    core.setup_import_path()
    from ..props import c12

    obs = c12.roundtrip_here(job["case"])
    with open(os.devnull, "w") as f:          # what open() / Path.write_text() use when no encoding is given
        obs["locale_encoding"] = f.encoding.lower()
    print("OBS " + json.dumps(obs))


if __name__ == "__main__":
    main()
