import NauyacaVerif.Gen.Fn.PumpResponse
import NauyacaVerif.Gen.Fn.ResumeWriting
import NauyacaVerif.Gen.Fn.PauseWriting
import NauyacaVerif.Gen.Fn.ConnectionLost
import NauyacaVerif.Gen.Fn.SendResponse
import NauyacaVerif.Srv.FlowPy
import NauyacaVerif.Srv.FlowProof
set_option linter.unusedSimpArgs false
set_option linter.unusedVariables false
/-!
The hand-written write-pump model `Srv.Flow.pump` / `fstep` (M-Flow: pieces, pause signalled during a chosen write, resume)
against the TRANSLATIONS of `GeminiServerProtocol._pump_response` (a `while` loop, translated as recursion on fuel),
`resume_writing` and `pause_writing` (regenerated from the current source on every run).
-/
namespace NauyacaVerif.Translated
open NauyacaVerif.Gen.Fn Srv Srv.Flow

/-- the loop in closed form: what `while self._unsent and not self._write_paused and self.transport: write(pop(0))` leaves -/
def loopSpec (s : FSt) : FSt :=
  if s.paused || s.lost || s.closed then s else
  match s.budget with
  | none => { s with out := s.out ++ s.unsent.map .write, unsent := [], done := s.done ++ s.unsent }
  | some k =>
    if k < s.unsent.length then
      { s with out := s.out ++ (s.unsent.take (k + 1)).map .write, unsent := s.unsent.drop (k + 1), paused := true, budget := none,
               done := s.done ++ s.unsent.take (k + 1) }
    else
      { s with out := s.out ++ s.unsent.map .write, unsent := [], budget := some (k - s.unsent.length), done := s.done ++ s.unsent }

theorem loop_nil (s : FSt) (fuel : Nat) (h : s.unsent = []) : pumpResponse_loop1 fuel s = s := by
  cases fuel with
  | zero => rfl
  | succ n => simp [pumpResponse_loop1, h]

theorem loopSpec_nil (s : FSt) (h : s.unsent = []) : loopSpec s = s := by
  obtain ⟨started, unsent, paused, budget, out, closed, lost, timer, all, done⟩ := s
  simp only at h
  subst h
  unfold loopSpec
  split
  · rfl
  · cases budget <;> simp

theorem loop_eq (l : List Bytes) : ∀ (s : FSt) (fuel : Nat), s.unsent = l → l.length ≤ fuel → s.closed = false →
    pumpResponse_loop1 fuel s = loopSpec s := by
  induction l with
  | nil => intro s fuel hl _ _; rw [loop_nil s fuel hl, loopSpec_nil s hl]
  | cons p ps ih =>
    intro s fuel hl hf hc
    cases fuel with
    | zero => simp at hf
    | succ n =>
      have hn : ps.length ≤ n := by simpa using hf
      obtain ⟨started, unsent, paused, budget, out, closed, lost, timer, all, done⟩ := s
      simp only at hl hc
      subst hl hc
      unfold pumpResponse_loop1
      by_cases hp : paused = true
      · subst hp; simp [loopSpec]
      · have hp' : paused = false := by simpa using hp
        subst hp'
        by_cases hlost : lost = true
        · subst hlost; simp [loopSpec]
        · have hl' : lost = false := by simpa using hlost
          subst hl'
          cases budget with
          | none =>
            simp only [List.isEmpty_cons, Bool.not_false, Bool.and_self, if_true, List.headD_cons, List.tail_cons, pyWrite, Bool.false_eq_true, if_false]
            rw [ih _ n rfl hn rfl]
            simp [loopSpec]
          | some k =>
            cases k with
            | zero =>
              simp only [List.isEmpty_cons, Bool.not_false, Bool.and_self, if_true, List.headD_cons, List.tail_cons, pyWrite, Bool.false_eq_true, if_false]
              rw [ih _ n rfl hn rfl]
              simp [loopSpec]
            | succ k =>
              simp only [List.isEmpty_cons, Bool.not_false, Bool.and_self, if_true, List.headD_cons, List.tail_cons, pyWrite, Bool.false_eq_true, if_false]
              rw [ih _ n rfl hn rfl]
              by_cases hk : k < ps.length
              · simp [loopSpec, hk]
              · simp [loopSpec, hk]

/-- `_pump_response` once a response exists (the only way it is called), on every state whose closed transport has nothing
    left to send: the translated loop-and-close IS the model's `pump` -/
theorem pump_eq (s : FSt) (hs : s.started = true) (hc : s.closed = true → s.unsent = []) :
    (pumpResponse s).1 = pump s := by
  unfold pumpResponse
  by_cases hcl : s.closed = true
  · have hu := hc hcl
    simp only [loop_nil s _ hu]
    simp [pump, pyClose, hcl, hu]
  · have hcl' : s.closed = false := by simpa using hcl
    simp only [loop_eq s.unsent s _ rfl (Nat.le_refl _) hcl']
    obtain ⟨started, unsent, paused, budget, out, closed, lost, timer, all, done⟩ := s
    simp only at hs hcl'
    subst hs hcl'
    by_cases hp : paused = true
    · subst hp; simp [loopSpec, pump]
    · have hp' : paused = false := by simpa using hp
      subst hp'
      by_cases hlost : lost = true
      · subst hlost; simp [loopSpec, pump]
      · have hl' : lost = false := by simpa using hlost
        subst hl'
        cases budget with
        | none => simp [loopSpec, pump, pyClose]
        | some k =>
          by_cases hk : k < unsent.length
          · simp [loopSpec, pump, pyClose, hk]
          · simp [loopSpec, pump, pyClose, hk]

/-- `resume_writing` IS the model's `resume` event -/
theorem resume_eq (s : FSt) (hc : s.closed = true → s.unsent = []) : (resumeWriting s).1 = fstep s .resume := by
  obtain ⟨started, unsent, paused, budget, out, closed, lost, timer, all, done⟩ := s
  simp only at hc
  unfold resumeWriting
  cases started with
  | true =>
    simp only [if_true, fstep]
    exact pump_eq _ rfl hc
  | false => simp [fstep, pump]

/-- `pause_writing` IS the model's `pause` event -/
theorem pause_eq (s : FSt) : (pauseWriting s).1 = fstep s .pause := rfl

/-- `connection_lost` IS the model's `lost` event -/
theorem lost_eq (s : FSt) : (connectionLost s).1 = fstep s .lost := by
  obtain ⟨started, unsent, paused, budget, out, closed, lost, timer, all, done⟩ := s
  cases timer <;> simp [connectionLost, fstep, pyLost, pyCancel]

/-- `_send_response(r)` IS the model's `send (pieces r)` event: ignored when a response was already sent or the peer is gone,
    otherwise the timer is cancelled, the rendered header and the `WRITE_CHUNK_SIZE` pieces of the body are queued and pumped -/
theorem send_eq (r : Resp) (s : FSt) (hi : s.started = false → s.closed = false) :
    (sendResponse r s).1 = fstep s (.send (pieces r)) := by
  obtain ⟨started, unsent, paused, budget, out, closed, lost, timer, all, done⟩ := s
  simp only at hi
  unfold sendResponse
  cases started with
  | true => simp [fstep]
  | false =>
    have hcl : closed = false := hi rfl
    subst hcl
    cases lost with
    | true => simp [fstep]
    | false =>
      cases timer with
      | none =>
        simp only [fstep, pieces, pySetUnsent, pySetUnsentExtend, pyCancel, Bool.not_false, Bool.not_true, Bool.or_self, Bool.false_eq_true, if_false,
          Option.isSome_none, List.nil_append, List.singleton_append]
        rw [pump_eq _ rfl (by intro h; simp at h)]
      | some t =>
        simp only [fstep, pieces, pySetUnsent, pySetUnsentExtend, pyCancel, Bool.not_false, Bool.not_true, Bool.or_self, Bool.false_eq_true, if_false,
          Option.isSome_some, if_true, List.nil_append, List.singleton_append]
        rw [pump_eq _ rfl (by intro h; simp at h)]

theorem send_reachable (r : Resp) (evs : List FEv) : (sendResponse r (frun evs)).1 = fstep (frun evs) (.send (pieces r)) :=
  send_eq r _ (fun h => ((frun_inv evs).idle h).2.2.2)

/-- on every reachable state of the pump model (any sequence of sends, limits, pauses, resumes, losses, ticks) the translated
    `resume_writing` does what the model's `resume` does -/
theorem resume_reachable (evs : List FEv) : (resumeWriting (frun evs)).1 = fstep (frun evs) .resume :=
  resume_eq _ (frun_inv evs).closedEmpty

/-- non-vacuity: three pieces, pause signalled during the second write, then resume -/
example : ((pumpResponse { started := true, unsent := [[1], [2], [3]], budget := some 1 }).1).out = [.write [1], .write [2]] := by rfl
example : ((resumeWriting ((pumpResponse { started := true, unsent := [[1], [2], [3]], budget := some 1 }).1)).1).out =
    [.write [1], .write [2], .write [3], .close] := by rfl
end NauyacaVerif.Translated
