namespace Misc
abbrev Bytes := List Nat

/-! ## C06: the write loops of the TLS wrapper deliver every byte, in order -/

/-- `sendall`: hand the engine what is left until nothing is left; `accept n` = how many of the `n`
    offered bytes one `SSL_write` takes (partial-write mode: at most one record) -/
def sendAll (accept : Nat → Nat) : Nat → Bytes → List Bytes
  | 0, _ => []
  | _ + 1, [] => []
  | fuel + 1, data =>
    let k := accept data.length
    data.take k :: sendAll accept fuel (data.drop k)

theorem sendAll_complete (accept : Nat → Nat) (hacc : ∀ n, 0 < n → 0 < accept n ∧ accept n ≤ n)
    (fuel : Nat) (data : Bytes) (hf : data.length ≤ fuel) : (sendAll accept fuel data).flatten = data := by
  induction fuel generalizing data with
  | zero =>
    have : data = [] := by cases data with | nil => rfl | cons _ _ => simp at hf
    subst this; rfl
  | succ n ih =>
    cases data with
    | nil => rfl
    | cons x xs =>
      simp only [sendAll]
      have h := hacc (x :: xs).length (by simp)
      have hlen : ((x :: xs).drop (accept (x :: xs).length)).length ≤ n := by
        simp only [List.length_drop]; simp only [List.length_cons] at hf h ⊢; omega
      simp only [List.flatten_cons]
      rw [ih _ hlen, List.take_append_drop]

/-- what the unrepaired wrapper did: one `send`, the rest is dropped -/
def sendOnce (accept : Nat → Nat) (data : Bytes) : List Bytes := [data.take (accept data.length)]

/-- the defect, as a theorem about the old code: with a 16 384-byte record limit a longer body is cut -/
theorem sendOnce_truncates : ∃ data : Bytes, (sendOnce (fun n => min n 16384) data).flatten ≠ data := by
  refine ⟨List.replicate 16385 0, ?_⟩
  intro h
  have := congrArg List.length h
  simp only [sendOnce, List.flatten_cons, List.flatten_nil, List.append_nil, List.length_take,
    List.length_replicate] at this
  omega

/-- `_flush_outgoing`: drain the outgoing BIO in pieces of at most `n` bytes -/
def drain (n : Nat) : Nat → Bytes → List Bytes
  | 0, _ => []
  | _ + 1, [] => []
  | fuel + 1, pending => pending.take n :: drain n fuel (pending.drop n)

theorem drain_complete (n : Nat) (hn : 0 < n) (fuel : Nat) (p : Bytes) (hf : p.length ≤ fuel) :
    (drain n fuel p).flatten = p := by
  induction fuel generalizing p with
  | zero =>
    have : p = [] := by cases p with | nil => rfl | cons _ _ => simp at hf
    subst this; rfl
  | succ k ih =>
    cases p with
    | nil => rfl
    | cons x xs =>
      simp only [drain, List.flatten_cons]
      have hlen : ((x :: xs).drop n).length ≤ k := by
        simp only [List.length_drop, List.length_cons] at hf ⊢; omega
      rw [ih _ hlen, List.take_append_drop]

/-! ## C20: version negotiation never goes below the configured minimum -/
inductive Ver where | ssl3 | tls10 | tls11 | tls12 | tls13
deriving Repr, DecidableEq

def Ver.rank : Ver → Nat | .ssl3 => 0 | .tls10 => 1 | .tls11 => 2 | .tls12 => 3 | .tls13 => 4

structure Range where
  lo : Ver
  hi : Ver

def ofRank : Nat → Ver | 0 => .ssl3 | 1 => .tls10 | 2 => .tls11 | 3 => .tls12 | _ => .tls13

/-- highest version enabled on both sides, if any -/
def negotiate (ours peer : Range) : Option Ver :=
  let lo := max ours.lo.rank peer.lo.rank
  let hi := min ours.hi.rank peer.hi.rank
  if lo ≤ hi then some (ofRank hi) else none

theorem rank_ofRank (n : Nat) (h : n ≤ 4) : (ofRank n).rank = n := by
  match n, h with
  | 0, _ => rfl | 1, _ => rfl | 2, _ => rfl | 3, _ => rfl | 4, _ => rfl

theorem rank_le (v : Ver) : v.rank ≤ 4 := by cases v <;> decide

/-- whatever the peer offers, a completed handshake is at least our minimum -/
theorem negotiate_ge_min (ours peer : Range) (v : Ver) (h : negotiate ours peer = some v) : ours.lo.rank ≤ v.rank := by
  unfold negotiate at h
  simp only at h
  split at h
  · rename_i hle
    injection h with h; subst h
    have : min ours.hi.rank peer.hi.rank ≤ 4 := Nat.le_trans (Nat.min_le_left _ _) (rank_le _)
    rw [rank_ofRank _ this]; omega
  · simp at h

theorem no_old_tls (ours peer : Range) (hmin : ours.lo = .tls12) (v : Ver) (h : negotiate ours peer = some v) :
    v = .tls12 ∨ v = .tls13 := by
  have := negotiate_ge_min ours peer v h
  rw [hmin] at this
  cases v <;> simp [Ver.rank] at this ⊢
end Misc
