import NauyacaVerif.Gen.Fn.SendMwRejection
import NauyacaVerif.Props.Tr.Dispatch
set_option linter.unusedSimpArgs false
set_option linter.unusedVariables false
/-!
`_send_middleware_rejection`, TRANSLATED (regenerated from the current source on every run): the response a refusing middleware
component's line is turned into is the model's `Srv.rejection` - a missing or malformed line refuses with `40 Request refused`,
and a "refusal" whose line says 2x is never relayed as a success.  `handleMwResult_eq` took `E.reject` as a parameter
(`mwEnv.reject`); this is what it does.
-/
namespace NauyacaVerif.Translated
open NauyacaVerif.Gen.Fn Srv

/-- `Srv.rejection` on a line that is there, written with the operations the translation uses -/
def rejOfPair (code text : List Char) : Resp :=
  match code with
  | [a, b] =>
    if a.isDigit ∧ b.isDigit then
      if 20 ≤ (a.toNat - 48) * 10 + (b.toNat - 48) ∧ (a.toNat - 48) * 10 + (b.toNat - 48) ≤ 29 then mkResp 40 refusedText
      else mkResp ((a.toNat - 48) * 10 + (b.toNat - 48)) text
    else mkResp 40 refusedText
  | _ => mkResp 40 refusedText

def rejOf (l : List Char) : Resp := rejOfPair (part l).1 (part l).2

theorem rejection_none : rejection none = mkResp 40 refusedText := rfl

theorem rejection_some (l0 : List Char) : rejection (some l0) = rejOf (dropCRLF l0) := by
  unfold rejection rejOf rejOfPair
  simp only
  have hd : (if l0.length ≥ 2 ∧ l0.drop (l0.length - 2) = ['\r', '\n'] then l0.take (l0.length - 2) else l0) = dropCRLF l0 := rfl
  rw [hd]
  generalize dropCRLF l0 = l
  unfold part
  cases Url.splitOnce ' ' l with
  | none =>
    simp only
    rcases l with _ | ⟨a, _ | ⟨b, _ | ⟨c, t⟩⟩⟩ <;> first | rfl | (simp only; split <;> first | rfl | (split <;> rfl))
  | some ab =>
    obtain ⟨x, y⟩ := ab
    simp only
    rcases x with _ | ⟨a, _ | ⟨b, _ | ⟨c, t⟩⟩⟩ <;> first | rfl | (simp only; split <;> first | rfl | (split <;> rfl))

theorem pair_eq (E : RejEnv) (s : PState) (code text : List Char) :
    (if twoDigits code = true then
        if (!(decide (20 ≤ intOf code) && decide (intOf code ≤ 29))) = true then (E.sendResponse s (mkResp (intOf code) text), ())
        else (E.sendResponse s (mkResp 40 refusedText), ())
      else (E.sendResponse s (mkResp 40 refusedText), ())).1 = E.sendResponse s (rejOfPair code text) := by
  unfold rejOfPair
  rcases code with _ | ⟨a, _ | ⟨b, _ | ⟨c, t⟩⟩⟩
  · simp [twoDigits]
  · simp [twoDigits]
  · show (if twoDigits [a, b] = true then
        if (!(decide (20 ≤ intOf [a, b]) && decide (intOf [a, b] ≤ 29))) = true then (E.sendResponse s (mkResp (intOf [a, b]) text), ())
        else (E.sendResponse s (mkResp 40 refusedText), ())
      else (E.sendResponse s (mkResp 40 refusedText), ())).1 =
      E.sendResponse s (if a.isDigit ∧ b.isDigit then
        (if 20 ≤ intOf [a, b] ∧ intOf [a, b] ≤ 29 then mkResp 40 refusedText else mkResp (intOf [a, b]) text) else mkResp 40 refusedText)
    generalize intOf [a, b] = n
    simp only [twoDigits]
    by_cases hdg : a.isDigit = true ∧ b.isDigit = true
    · simp only [hdg, Bool.and_self, if_true, and_self]
      by_cases hr : 20 ≤ n ∧ n ≤ 29
      · simp [hr]
      · have : (decide (20 ≤ n) && decide (n ≤ 29)) = false := by simpa using hr
        rw [this]
        simp [hr]
    · have : (a.isDigit && b.isDigit) = false := by
        simpa using hdg
      simp [this, hdg]
  · simp [twoDigits]

/-- whatever `_send_response` is, it is called exactly once, with the model's `rejection line` -/
theorem sendMwRejection_eq (E : RejEnv) (line : Option (List Char)) (s : PState) :
    (sendMwRejection E line s).1 = E.sendResponse s (rejection line) := by
  cases line with
  | none => rw [rejection_none]; simp [sendMwRejection]
  | some l0 =>
    rw [rejection_some]
    unfold sendMwRejection rejOf
    simp only [Option.isSome_some, if_true, Option.getD_some]
    exact pair_eq E s _ _

/-- … and with `_send_response` as the model sees it, that is `mwEnv.reject`, the operation `handleMwResult_eq` assumed -/
def rejEnv : RejEnv where
  sendResponse s r := { s with _response_sent := (respond s.m r).sent, m := respond s.m r }

theorem sendMwRejection_is_reject (cfg : Cfg) (outcome : Except Unit (Bool × Option (List Char))) (line : Option (List Char)) (s : PState) :
    (sendMwRejection rejEnv line s).1 = (mwEnv cfg outcome).reject s line := by
  rw [sendMwRejection_eq]; rfl

/-- a refusal is never relayed as a success, whatever line the component returned -/
theorem rejection_never_success (line : Option (List Char)) : ¬ (20 ≤ (rejection line).status ∧ (rejection line).status ≤ 29) := by
  cases line with
  | none => rw [rejection_none]; simp [mkResp]
  | some l0 =>
    rw [rejection_some]
    unfold rejOf rejOfPair
    split
    · split
      · split
        · simp [mkResp]
        · rename_i hn; simp only [mkResp]; omega
      · simp [mkResp]
    · simp [mkResp]
end NauyacaVerif.Translated
