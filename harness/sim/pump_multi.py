"""Several connections of one PyOpenSSL-backend server open AT THE SAME TIME (C04, family `pumppair`).

Every connection is a real `TLSServerProtocol` (one per TCP connection, as `loop.create_server` would make them, all
from the same server context) driven by its own `ssl.SSLObject` client over memory BIOs (as in sim/pump.py); the
inner `GeminiServerProtocol` objects all consult ONE real `MiddlewareChain`.  A connection goes through the stages

    connect   TCP connection made (server side: connection_made)
    hello     the client's first flight (ClientHello) reaches the server, the server's answer reaches the client
    finish    the client's second flight (its certificate - if it presents one -, Finished) reaches the server:
              the server-side handshake is complete, the inner protocol exists
    part k    the k-th piece of the request (one TLS record each) reaches the server

and a schedule interleaves them: `["s", i]` = connection i does its next stage, `["y", k]` = the event loop runs k
iterations, `["x", i]` = connection i is lost (the peer vanished: connection_lost(None)).  Whatever state the backend
keeps per connection (peer address, presented certificate, inner protocol, TLS object) is thereby exercised while
other connections are at another stage.

Attribution: each connection has its own counting handler and upload handler and consults the shared chain through
its own thin view object, so a consult and a handler run are attributed to the connection whose protocol made them.
"""
from __future__ import annotations

import asyncio
import ssl

from . import pump as P
from .mw_multi import spy_on, wire_bytes


class Tcp(P.TCP):
    def __init__(self, peer):
        super().__init__()
        self.peer = peer

    def get_extra_info(self, n, d=None):
        return self.peer if n == "peername" else d


class View:
    """connection i's handle on the shared chain: records what this connection's protocol asked"""

    def __init__(self, chain, idx, consults, trace):
        self.chain, self.idx, self.consults, self.trace = chain, idx, consults, trace

    async def process_request(self, url, ip, fp=None):
        self.consults.append([self.idx, url, ip, fp])
        self.trace.append(f"{self.idx}:chain-asked")
        return await self.chain.process_request(url, ip, fp)


class Conn:
    def __init__(self, loop, idx, spec, chain, ctx, clients, consults, trace, excs):
        self.idx, self.spec, self.ctx, self.trace, self.excs = idx, spec, ctx, trace, excs
        self.log = {"h": 0, "u": 0, "hfp": []}
        self.view = View(chain, idx, consults, trace)
        self.server = None
        self.tcp = None
        self.stage = 0
        self.delivered = 0     # pieces of the request that reached the server
        self.lost = False
        whole = wire_bytes(spec["line"])
        cuts = sorted({c for c in (spec.get("cuts") or []) if 0 < c < len(whole)})
        self.parts = [whole[a:b] for a, b in zip([0] + cuts, cuts + [len(whole)])]
        cctx = ssl.SSLContext(ssl.PROTOCOL_TLS_CLIENT)
        cctx.check_hostname = False
        cctx.verify_mode = ssl.CERT_NONE
        if spec.get("cert") is not None:
            cctx.load_cert_chain(clients[spec["cert"]][0], clients[spec["cert"]][1])
        self.inb, self.outb = ssl.MemoryBIO(), ssl.MemoryBIO()
        self.so = cctx.wrap_bio(self.inb, self.outb, server_hostname="localhost")
        self.plain = b""

    @property
    def n_stages(self):
        return 3 + len(self.parts)

    @property
    def request_complete(self):
        return self.stage >= self.n_stages

    def _factory(self):
        from nauyaca.protocol.response import GeminiResponse
        from nauyaca.server.protocol import GeminiServerProtocol

        log, idx, trace = self.log, self.idx, self.trace

        def h(req):
            log["h"] += 1
            log["hfp"].append(getattr(req, "client_cert_fingerprint", None))
            trace.append(f"{idx}:handler")
            return GeminiResponse(status=20, meta="text/gemini", body="served")

        class Up:
            max_size = 8
            upload_dir = "/nonexistent"
            allowed_types = None
            auth_tokens = None
            enable_delete = True

            async def handle_upload(self, req):
                log["u"] += 1
                log["hfp"].append(getattr(req, "client_cert_fingerprint", None))
                trace.append(f"{idx}:upload-handler")
                return GeminiResponse(status=20, meta="text/gemini", body="stored")

        return GeminiServerProtocol(h, self.view, Up())

    def _feed(self, data):
        if not data or self.lost:
            return
        try:
            self.server.data_received(data)
        except Exception as e:  # noqa: BLE001
            self.excs.append(f"{type(e).__name__}: {e}"[:120])

    def _to_client(self):
        for b in self.tcp.out:
            self.inb.write(b)
        self.tcp.out.clear()

    def _handshake(self):
        try:
            self.so.do_handshake()
        except ssl.SSLWantReadError:
            pass
        except ssl.SSLError as e:
            self.excs.append(f"client {self.idx}: {e}"[:120])

    def advance(self):
        from nauyaca.server.tls_protocol import TLSServerProtocol

        if self.lost or self.stage >= self.n_stages:
            return
        s = self.stage
        self.stage += 1
        if s == 0:
            self.server = TLSServerProtocol(self._factory, self.ctx)
            peer = self.spec["peer"]
            self.tcp = Tcp((peer, 4000 + self.idx) if ":" not in peer else (peer, 4000 + self.idx, 0, 0))
            self.server.connection_made(self.tcp)
            self.trace.append(f"{self.idx}:connect")
        elif s == 1:
            self._handshake()
            self._feed(self.outb.read())
            self._to_client()
            self.trace.append(f"{self.idx}:hello")
        elif s == 2:
            self._handshake()
            self._feed(self.outb.read())
            self.trace.append(f"{self.idx}:handshake-done")
        else:
            if self.tcp.closed:
                return
            try:
                self.so.write(self.parts[s - 3])
            except ssl.SSLError as e:
                self.excs.append(f"client {self.idx}: {e}"[:120])
                return
            self.trace.append(f"{self.idx}:request" + (f"-part{s - 2}/{len(self.parts)}" if len(self.parts) > 1 else ""))
            self._feed(self.outb.read())
            self.delivered += 1

    def lose(self):
        if self.server is None or self.lost:
            return
        self.lost = True
        self.trace.append(f"{self.idx}:lost")
        try:
            self.server.connection_lost(None)
        except Exception as e:  # noqa: BLE001
            self.excs.append(f"{type(e).__name__}: {e}"[:120])

    def finish(self):
        if self.server is None:
            return {"st": "", "h": self.log["h"], "u": self.log["u"], "hfp": self.log["hfp"], "closed": False, "stage": self.stage, "lost": self.lost,
                    "sent_all": False}
        self._to_client()
        got = b""
        try:
            while True:
                x = self.so.read(1 << 16)
                if not x:
                    break
                got += x
        except (ssl.SSLZeroReturnError, ssl.SSLWantReadError):
            pass
        except ssl.SSLError:
            got += b"<SSLERR>"
        inner = self.server.inner_protocol
        if inner is not None and getattr(inner, "timeout_handle", None):
            inner.timeout_handle.cancel()
        if getattr(self.server, "_handshake_timer", None):
            self.server._handshake_timer.cancel()
        if not self.lost:
            try:
                self.server.connection_lost(None)
            except Exception:  # noqa: BLE001
                pass
        return {"st": got[:2].decode("latin1"), "h": self.log["h"], "u": self.log["u"], "hfp": self.log["hfp"], "closed": self.tcp.closed,
                "stage": self.stage, "lost": self.lost, "sent_all": self.delivered == len(self.parts)}


async def run_pump_multi(loop, case, components):
    """case: {"conns": [{"peer", "line", "cert" (index into pump.env() clients | None), "cuts": [offsets]}], "sched": [...]};
    components: the shared chain's component objects in order.  Returns a JSON-able observation."""
    from nauyaca.server.middleware import MiddlewareChain

    ctx, clients = P.env()
    complog: list = []
    chain = MiddlewareChain([spy_on(c, complog, i) for i, c in enumerate(components)])
    consults: list = []
    trace: list = []
    excs: list = []
    loop.set_exception_handler(lambda lp, cx: excs.append(str(cx.get("exception") or cx.get("message"))[:120]))
    conns = [Conn(loop, i, cn, chain, ctx, clients, consults, trace, excs) for i, cn in enumerate(case["conns"])]
    for e in case["sched"]:
        if e[0] == "s":
            conns[e[1]].advance()
        elif e[0] == "x":
            conns[e[1]].lose()
        else:
            for _ in range(e[1]):
                await asyncio.sleep(0)
    for _ in range(60):
        await asyncio.sleep(0)
    out = [c.finish() for c in conns]
    loop.set_exception_handler(lambda lp, cx: None)
    for _ in range(4):
        await asyncio.sleep(0)
    return {"conns": out, "consults": consults, "comp": complog, "trace": trace, "exc": excs}
