namespace Mw.Cert
/-! # `CertificateAuth`: path rules, the reference policy and the middleware

Strings (`rule.prefix`, canonical request paths, locations of resources) are Python `str`
values as lists of code points; `/` is 47.  Fingerprints are opaque (only equality matters). -/
abbrev Str := List Nat
abbrev Fp := Nat

structure Rule where
  pre : Str
  requireCert : Bool
  allowed : Option (List Fp)    -- none = no list; some [] = nobody
deriving Repr, DecidableEq

inductive Decision where | allow | d60 | d61
deriving Repr, DecidableEq

/-- the body of the loop in `CertificateAuth.process_request` for the matching rule -/
def applyRule (r : Rule) (fp : Option Fp) : Decision :=
  if r.requireCert && fp.isNone then .d60
  else match r.allowed with
    | none => .allow
    | some l => match fp with
      | none => .d60
      | some f => if l.contains f then .allow else .d61

/-- the response line sent for a refusal -/
def line60 : List Nat :=
  [54, 48, 32, 67, 108, 105, 101, 110, 116, 32, 99, 101, 114, 116, 105, 102, 105, 99, 97, 116, 101, 32, 114, 101, 113,
   117, 105, 114, 101, 100, 13, 10]
def line61 : List Nat :=
  [54, 49, 32, 67, 101, 114, 116, 105, 102, 105, 99, 97, 116, 101, 32, 110, 111, 116, 32, 97, 117, 116, 104, 111, 114,
   105, 122, 101, 100, 13, 10]

def Decision.line : Decision → Option (List Nat)
  | .allow => none
  | .d60 => some line60
  | .d61 => some line61

/-! ### specification: the first rule whose prefix covers the *location of the resource* decides -/
def firstCover : List Rule → Str → Option Rule
  | [], _ => none
  | r :: rs, loc => if r.pre.isPrefixOf loc then some r else firstCover rs loc

def policy (rules : List Rule) (loc : Str) (fp : Option Fp) : Decision :=
  match firstCover rules loc with
  | none => .allow
  | some r => applyRule r fp

/-- the admission condition spelled out as in the property statement -/
theorem applyRule_allow_iff (r : Rule) (fp : Option Fp) :
    applyRule r fp = .allow ↔
      (r.requireCert = true → fp.isSome = true) ∧
      (∀ l, r.allowed = some l → ∃ f, fp = some f ∧ f ∈ l) := by
  unfold applyRule
  cases hq : r.requireCert <;> cases fp <;> cases ha : r.allowed <;> simp
  all_goals (split <;> simp_all)

/-- decision table: 60 exactly when a certificate is needed (required, or a list is given) and
    none was presented; 61 exactly when one was presented and a list is given that does not
    contain it; otherwise the request passes -/
theorem applyRule_table (r : Rule) (fp : Option Fp) :
    applyRule r fp =
      match fp, r.allowed with
      | none, none => if r.requireCert then .d60 else .allow
      | none, some _ => .d60
      | some _, none => .allow
      | some f, some l => if f ∈ l then .allow else .d61 := by
  unfold applyRule
  cases fp <;> cases r.allowed <;> cases r.requireCert <;> simp

theorem applyRule_d60_iff (r : Rule) (fp : Option Fp) :
    applyRule r fp = .d60 ↔ fp = none ∧ (r.requireCert = true ∨ r.allowed.isSome = true) := by
  rw [applyRule_table]
  cases fp <;> cases r.allowed <;> cases r.requireCert <;> simp
  all_goals (split <;> simp)

theorem applyRule_d61_iff (r : Rule) (fp : Option Fp) :
    applyRule r fp = .d61 ↔ ∃ f l, fp = some f ∧ r.allowed = some l ∧ f ∉ l := by
  rw [applyRule_table]
  cases fp <;> cases r.allowed <;> cases r.requireCert <;> simp
  all_goals (split <;> simp_all)

/-- an empty allow-list admits nobody; a missing one (without `require_cert`) admits everybody -/
theorem empty_list_admits_nobody (r : Rule) (h : r.allowed = some []) (fp : Option Fp) : applyRule r fp ≠ .allow := by
  rw [applyRule_table, h]
  cases fp <;> simp

theorem no_list_admits (r : Rule) (h : r.allowed = none) (hq : r.requireCert = false) (fp : Option Fp) :
    applyRule r fp = .allow := by
  rw [applyRule_table, h, hq]
  cases fp <;> simp

def DirPrefix (p : Str) : Prop := ∃ q, p = q ++ [47]

theorem isPrefixOf_iff {a b : Str} : a.isPrefixOf b = true ↔ a <+: b := by
  simpa using (List.isPrefixOf_iff_prefix (l₁ := a) (l₂ := b))

/-- a prefix ending in `/` covers `dir/name` (name without `/`) iff it covers `dir/` -/
theorem dirPrefix_file {p dir name : Str} (hp : DirPrefix p) (hn : 47 ∉ name) :
    p <+: dir ++ [47] ++ name ↔ p <+: dir ++ [47] := by
  obtain ⟨q, rfl⟩ := hp
  constructor
  · intro h
    obtain ⟨t, ht⟩ := h
    by_cases hlen : (q ++ [47]).length ≤ (dir ++ [47]).length
    · exact (List.prefix_of_prefix_length_le ⟨t, ht⟩ (List.prefix_append _ _) hlen)
    · exfalso
      have hlt : (dir ++ [47]).length < (q ++ [47]).length := by omega
      have h2 : dir ++ [47] <+: q ++ [47] := by
        apply List.prefix_of_prefix_length_le (List.prefix_append _ name) ⟨t, ht⟩ (by omega)
      obtain ⟨u, hu⟩ := h2
      have hu_ne : u ≠ [] := by
        intro hnil; subst hnil; simp at hu; simp [hu] at hlt
      have : name = u ++ t := by
        have := ht; rw [← hu] at this
        simp only [List.append_assoc] at this
        have := List.append_cancel_left this
        simpa using this.symm
      have hlast : 47 ∈ u := by
        have hq : (dir ++ [47] ++ u).getLast? = some 47 := by rw [hu]; simp
        rw [List.getLast?_append] at hq
        cases hul : u.getLast? with
        | none => simp [List.getLast?_eq_none_iff] at hul; exact absurd hul hu_ne
        | some c => simp [hul] at hq; subst hq; exact List.mem_of_getLast? hul
      exact hn (by rw [this]; simp [hlast])
  · intro h
    exact h.trans (List.prefix_append _ _)

/-- `CertificateAuth.process_request` on the canonical path: the rule for the path itself, and —
    when the path does not end in `/` and may therefore name a directory — also the rule for
    `path/`; the request passes only if both admit -/
def stricter (a b : Decision) : Decision := if a = .allow then b else a

def process (rules : List Rule) (path : Str) (fp : Option Fp) : Decision :=
  stricter (policy rules path fp)
    (if path.getLast? = some 47 then .allow else policy rules (path ++ [47]) fp)

theorem firstCover_congr {rules : List Rule} {l₁ l₂ : Str}
    (h : ∀ r ∈ rules, (r.pre <+: l₁ ↔ r.pre <+: l₂)) : firstCover rules l₁ = firstCover rules l₂ := by
  induction rules with
  | nil => rfl
  | cons r rs ih =>
    have hr := h r (by simp)
    have ih' := ih (fun r' hr' => h r' (by simp [hr']))
    simp only [firstCover]
    by_cases h1 : r.pre <+: l₁
    · have h2 := hr.mp h1
      simp [isPrefixOf_iff.mpr h1, isPrefixOf_iff.mpr h2]
    · have h2 : ¬ r.pre <+: l₂ := fun h2 => h1 (hr.mpr h2)
      have e1 : r.pre.isPrefixOf l₁ = false := by
        cases hh : r.pre.isPrefixOf l₁ with
        | false => rfl
        | true => exact absurd (isPrefixOf_iff.mp hh) h1
      have e2 : r.pre.isPrefixOf l₂ = false := by
        cases hh : r.pre.isPrefixOf l₂ with
        | false => rfl
        | true => exact absurd (isPrefixOf_iff.mp hh) h2
      simp [e1, e2, ih']

/-- the canonical location of what the static handler delivers for canonical request path `path`
    (a path with a trailing slash never yields a regular file: `StaticFileHandler.handle`
    answers 51 for `<file>/`) -/
inductive Served (path : Str) : Str → Prop
  | file : path.getLast? ≠ some 47 → Served path path
  | dirSlash (index : Str) : path.getLast? = some 47 → 47 ∉ index → Served path (path ++ index)
  | dirListing : path.getLast? = some 47 → Served path path
  | dirNoSlash (index : Str) : path.getLast? ≠ some 47 → 47 ∉ index → Served path (path ++ [47] ++ index)
  | dirNoSlashListing : path.getLast? ≠ some 47 → Served path (path ++ [47])

/-- C05 core (rule prefixes are directory prefixes): whatever is delivered for a request the
    middleware let through is admitted by the first rule covering its own location -/
theorem c05_core (rules : List Rule) (hd : ∀ r ∈ rules, DirPrefix r.pre) (path loc : Str) (fp : Option Fp)
    (hs : Served path loc) (hp : process rules path fp = .allow) : policy rules loc fp = .allow := by
  unfold process stricter at hp
  cases hs with
  | file hne =>
    split at hp
    · assumption
    · rename_i h; simp_all
  | dirListing hl =>
    split at hp
    · assumption
    · rename_i h; simp_all
  | dirSlash index hl hi =>
    have h1 : policy rules path fp = .allow := by
      split at hp
      · assumption
      · rename_i h; simp_all
    obtain ⟨d, hdp⟩ : ∃ d, path = d ++ [47] := List.getLast?_eq_some_iff.mp hl
    have : firstCover rules (path ++ index) = firstCover rules path := by
      apply firstCover_congr
      intro r hr
      rw [hdp]
      exact dirPrefix_file (hd r hr) hi
    simpa [policy, this] using h1
  | dirNoSlash index hne hi =>
    have h2 : policy rules (path ++ [47]) fp = .allow := by
      split at hp
      · simpa [hne] using hp
      · rename_i h; simp_all
    have : firstCover rules (path ++ [47] ++ index) = firstCover rules (path ++ [47]) := by
      apply firstCover_congr
      intro r hr
      exact dirPrefix_file (hd r hr) hi
    unfold policy at h2 ⊢
    rw [this]; exact h2
  | dirNoSlashListing hne =>
    split at hp
    · simpa [hne] using hp
    · rename_i h; simp_all

/-- the contrapositive, as the property is worded: a refused certificate gets 60 or 61 and the
    middleware does not pass the request -/
theorem c05_refuses (rules : List Rule) (hd : ∀ r ∈ rules, DirPrefix r.pre) (path loc : Str) (fp : Option Fp)
    (hs : Served path loc) (hpol : policy rules loc fp ≠ .allow) :
    process rules path fp = .d60 ∨ process rules path fp = .d61 := by
  cases h : process rules path fp with
  | allow => exact absurd (c05_core rules hd path loc fp hs h) hpol
  | d60 => exact Or.inl rfl
  | d61 => exact Or.inr rfl

/-! ### the TOML / `ServerConfig` layer -/
/-- one `[[certificate_auth.paths]]` table: `require_cert` and `allowed_fingerprints` optional -/
structure PathCfg where
  pre : Str
  requireCert : Option Bool
  allowed : Option (List Fp)       -- `some []` = the key is present with an empty list
deriving Repr, DecidableEq

/-- one rule of `ServerConfig.get_certificate_auth_config` -/
def ruleOf (c : PathCfg) : Rule :=
  { pre := c.pre, requireCert := c.requireCert.getD false, allowed := c.allowed }

/-- `get_certificate_auth_config`: no middleware at all when the list is absent or empty -/
def rulesOf (paths : Option (List PathCfg)) : Option (List Rule) :=
  match paths with
  | none => none
  | some [] => none
  | some ps => some (ps.map ruleOf)

/-- what the server enforces for a configuration: without middleware everything passes -/
def enforced (paths : Option (List PathCfg)) (path : Str) (fp : Option Fp) : Decision :=
  match rulesOf paths with
  | none => .allow
  | some rules => process rules path fp
end Mw.Cert
