import NauyacaVerif.Drv.Common
import NauyacaVerif.Drv.SrvD
import NauyacaVerif.Misc.Pump
import NauyacaVerif.Misc.PumpWrap
import NauyacaVerif.Srv.Render
import NauyacaVerif.Gen.Params
import NauyacaVerif.Gen.Tls
namespace NauyacaVerif.Drv.PumpD
open NauyacaVerif.Drv Misc

/-- accept behaviour of one `SSL_write`: `min<k>` (at most one record of k bytes), `all`, `one`, `half` -/
def parseAccept (s : String) : Option (Nat → Nat) :=
  if s == "all" then some (fun n => n)
  else if s == "one" then some (fun _ => 1)
  else if s == "half" then some (fun n => (n + 1) / 2)
  else if s.startsWith "min" then
    match (s.drop 3).toString.toNat? with
    | some k => if k = 0 then none else some (fun n => min n k)
    | none => none
  else none

def rle : List Nat → List (Nat × Nat)
  | [] => []
  | x :: xs =>
    match rle xs with
    | (y, c) :: r => if x = y then (y, c + 1) :: r else (x, 1) :: (y, c) :: r
    | [] => [(x, 1)]

def showRle (l : List Nat) : String :=
  if l.isEmpty then "-" else ",".intercalate ((rle l).map (fun p => if p.2 = 1 then toString p.1 else s!"{p.1}x{p.2}"))

/-- flush chunk size as the current source has it -/
def chunk : Nat := match Gen.recvSizes with | [n] => n | _ => 0

/-- record sizes of one `write(data)` of `n` bytes, as the current source does it -/
def recordSizes (accept : Nat → Nat) (n : Nat) : List Nat :=
  if Gen.wrapperUsesSendall then sendAllSizes accept n n else (if n = 0 then [0] else [min (accept n) n])

def flushSizes (pending : Nat) : List Nat := drainSizes chunk pending pending

/-- sizes of the TCP writes of one wrapper `write`: every record grows by `ovh` bytes when sealed -/
def writeTcp (accept : Nat → Nat) (ovh n : Nat) : List Nat :=
  flushSizes ((recordSizes accept n).foldl (fun a r => a + r + ovh) 0)

def wrapLine (accept : Nat → Nat) (ovh cn : Nat) (lens : List Nat) : String :=
  let recs := lens.map (recordSizes accept)
  let tcp := (lens.map (writeTcp accept ovh)).flatten ++ flushSizes cn
  s!"rec={";".intercalate (recs.map showRle)} tcp={showRle tcp} sum={(recs.map (fun l => l.foldl (· + ·) 0))}"

def verOfRank? (n : Nat) : Option Ver := if n ≤ 4 then some (ofRank n) else none

def showVer : Option Ver → String
  | none => "none"
  | some .ssl3 => "ssl3" | some .tls10 => "tls10" | some .tls11 => "tls11" | some .tls12 => "tls12" | some .tls13 => "tls13"

def handle : List String → Option String
  | "sendall" :: ak :: lens =>
    match parseAccept ak, lens.mapM String.toNat? with
    | some accept, some ls =>
      if ls.isEmpty then some "bad-op" else
      some s!"ok {";".intercalate (ls.map (fun n => showRle (recordSizes accept n)))} sum={ls.map (fun n => (recordSizes accept n).foldl (· + ·) 0)}"
    | _, _ => some "bad-op"
  | "drain" :: lens =>
    match lens.mapM String.toNat? with
    | some ls => if ls.isEmpty then some "bad-op" else
      some s!"ok {";".intercalate (ls.map (fun n => showRle (flushSizes n)))} sum={ls.map (fun n => (flushSizes n).foldl (· + ·) 0)}"
    | none => some "bad-op"
  | "wrap" :: ak :: ovh :: cn :: lens =>
    match parseAccept ak, ovh.toNat?, cn.toNat?, lens.mapM String.toNat? with
    | some accept, some ovh, some cn, some ls => some s!"ok {wrapLine accept ovh cn ls}"
    | _, _, _, _ => some "bad-op"
  | ["c06", ak, ovh, cn, "r", resp] =>
    match parseAccept ak, ovh.toNat?, cn.toNat?, SrvD.parseResp resp with
    | some accept, some ovh, some cn, some r =>
      let (h, b) := Srv.render r
      let lens := h.length :: bodyWriteSizes Gen.responseWriteChunk b.length
      some s!"ok hdr={toHex h} body={toHex b} blen={b.length} {wrapLine accept ovh cn lens}"
    | _, _, _, _ => some "bad-op"
  | ["c06", ak, ovh, cn, "n", resp, blen] =>
    -- big bodies: the header is rendered from the response without its body, the body only by length
    match parseAccept ak, ovh.toNat?, cn.toNat?, SrvD.parseResp resp, blen.toNat? with
    | some accept, some ovh, some cn, some r, some bl =>
      let (h, _) := Srv.render r
      let lens := h.length :: bodyWriteSizes Gen.responseWriteChunk bl
      some s!"ok hdr={toHex h} body=? blen={bl} {wrapLine accept ovh cn lens}"
    | _, _, _, _, _ => some "bad-op"
  | ["tlsver", path, lo, hi] =>
    match path.toNat?, lo.toNat?.bind verOfRank?, hi.toNat?.bind verOfRank? with
    | some pid, some lo, some hi =>
      match Gen.contextPaths.find? (fun p => p.1 == pid) with
      | some p =>
        let peer : Range := ⟨lo, hi⟩
        some s!"ok v={showVer (negotiate ⟨ofRank p.2.1, ofRank p.2.2⟩ peer)} ctrl={showVer (negotiate ⟨.tls10, .tls13⟩ peer)}"
      | none => some "no-such-path"
    | _, _, _ => some "bad-op"
  | "tlsvers" :: path :: ranges =>
    -- a history of peers for one context path: `lo hi lo hi …` → the version each step negotiates
    match path.toNat?, ranges.mapM String.toNat? with
    | some pid, some rs =>
      match Gen.contextPaths.find? (fun p => p.1 == pid) with
      | some p =>
        let rec go : List Nat → Option (List String)
          | [] => some []
          | lo :: hi :: rest =>
            match verOfRank? lo, verOfRank? hi, go rest with
            | some l, some h, some tl => some (showVer (negotiate ⟨ofRank p.2.1, ofRank p.2.2⟩ ⟨l, h⟩) :: tl)
            | _, _, _ => none
          | _ => none
        match go rs with
        | some vs => some s!"ok {",".intercalate vs}"
        | none => some "bad-op"
      | none => some "no-such-path"
    | _, _ => some "bad-op"
  | _ => none
end NauyacaVerif.Drv.PumpD
