import NauyacaVerif.Gen.Fn.LimiterRequest
import NauyacaVerif.Gen.Fn.BucketInit
import NauyacaVerif.Mw.StorePy
/-!
`RateLimiter.process_request`, TRANSLATED (regenerated from the current source on every run) over the Python-level store of
`Mw/StorePy.lean`, is the model's `Mw.request` - get-or-create a full bucket for the address, take one token from THAT address's
bucket and from no other - and the line it returns next to a refusal is `Mw.limiterResponse`.
-/
namespace NauyacaVerif.Translated
open NauyacaVerif.Gen Mw

theorem abs_find (w : PyStore) (ip : Ip) :
    (PyStore.abs w).find ip = (w.find? (·.1 == ip)).map (fun p => ({ tokens := p.2.tokens, last := p.2.last } : Bucket)) := by
  unfold PyStore.abs Store.find
  rw [List.find?_map, Option.map_map]
  rfl

theorem abs_filter (w : PyStore) (ip : Ip) : PyStore.abs (w.filter (·.1 != ip)) = (PyStore.abs w).filter (·.1 != ip) := by
  unfold PyStore.abs
  rw [List.filter_map]; rfl

/-- the shape of the translated function: get-or-create, then one `consume()` on the bucket of this address; the line is the model's -/
theorem limiter_request_shape (cap rate : Rat) (retry : Int) (now : Rat) (w : PyStore) (ip : Ip) :
    Fn.limiterRequest cap rate retry now w ip =
      (let w1 := if pyHas w ip then w else pyPut now w ip cap rate
       let r := pyConsumeAt now w1 ip
       (r.1, (r.2, limiterResponse retry r.2))) := by
  unfold Fn.limiterRequest
  cases hh : pyHas w ip
  · simp only [Bool.not_false, if_true, Bool.false_eq_true, if_false]
    cases ha : (pyConsumeAt now (pyPut now w ip cap rate) ip).2 <;>
      simp [limiterResponse, rateLimitLine, rlPrefix, rlSuffix]
  · simp only [Bool.not_true, Bool.false_eq_true, if_false, if_true]
    cases ha : (pyConsumeAt now w ip).2 <;>
      simp [limiterResponse, rateLimitLine, rlPrefix, rlSuffix]

theorem consumeAt_spec (c : LCfg) (now : Rat) (w : PyStore) (ip : Ip) (p : Ip × PyBucket) (hf : w.find? (·.1 == ip) = some p)
    (hp : p.2.cap = c.cap ∧ p.2.rate = c.rate) :
    pyConsumeAt now w ip =
      ((ip, { p.2 with tokens := (consume c { tokens := p.2.tokens, last := p.2.last } now).1.tokens,
                       last := (consume c { tokens := p.2.tokens, last := p.2.last } now).1.last }) :: w.filter (·.1 != ip),
       (consume c { tokens := p.2.tokens, last := p.2.last } now).2) := by
  unfold pyConsumeAt
  rw [hf]
  have hc : ∀ b : Bucket, consume { cap := p.2.cap, rate := p.2.rate } b now = consume c b now := by
    intro b; simp only [consume, Bucket.level, hp.1, hp.2]; rfl
  simp only [hc]

theorem find_filter_ne (w : PyStore) (ip : Ip) : (w.filter (·.1 != ip)).find? (·.1 == ip) = none := by
  rw [List.find?_eq_none]
  intro x hx
  have := (List.mem_filter.mp hx).2
  simpa [bne] using this

/-- the translated function refines `Mw.request`: same decision, same store (seen through `abs`), the refusal line of the model, and
    every bucket still carries the configuration -/
theorem limiter_request_eq (c : LCfg) (retry : Int) (now : Rat) (w : PyStore) (ip : Ip) (hu : w.Uniform c) :
    let r := Fn.limiterRequest c.cap c.rate retry now w ip
    PyStore.abs r.1 = (request c (PyStore.abs w) ip now).1 ∧ r.2.1 = (request c (PyStore.abs w) ip now).2
      ∧ r.2.2 = limiterResponse retry r.2.1 ∧ PyStore.Uniform c r.1 := by
  have hu' : ∀ q ∈ w.filter (·.1 != ip), q.2.cap = c.cap ∧ q.2.rate = c.rate := fun q hq => hu q (List.mem_filter.mp hq).1
  rw [limiter_request_shape]
  simp only [request, abs_find]
  cases hf : w.find? (·.1 == ip) with
  | none =>
    have hh : pyHas w ip = false := by simp [pyHas, hf]
    simp only [hh, Bool.false_eq_true, if_false, Option.map_none, Option.getD_none]
    have hf1 : (pyPut now w ip c.cap c.rate).find? (·.1 == ip) = some (ip, { cap := c.cap, rate := c.rate, tokens := c.cap, last := now }) := by
      simp [pyPut]
    rw [consumeAt_spec c now _ ip _ hf1 ⟨rfl, rfl⟩]
    refine ⟨?_, by trivial, by trivial, ?_⟩
    · simp only [pyPut, List.filter_cons, bne_self_eq_false, Bool.false_eq_true, if_false, List.filter_filter, Bool.and_self, Store.set]
      simp only [PyStore.abs, List.map_cons]
      congr 1
      exact abs_filter w ip
    · intro q hq
      simp only [pyPut, List.filter_cons, bne_self_eq_false, Bool.false_eq_true, if_false, List.filter_filter, Bool.and_self, List.mem_cons] at hq
      rcases hq with rfl | hq
      · exact ⟨rfl, rfl⟩
      · exact hu' q hq
  | some p =>
    have hh : pyHas w ip = true := by simp [pyHas, hf]
    have hp := hu p (List.mem_of_find?_eq_some hf)
    simp only [hh, if_true, Option.map_some, Option.getD_some]
    rw [consumeAt_spec c now w ip p hf hp]
    refine ⟨?_, by trivial, by trivial, ?_⟩
    · simp only [Store.set, PyStore.abs, List.map_cons]
      congr 1
      exact abs_filter w ip
    · intro q hq
      simp only [List.mem_cons] at hq
      rcases hq with rfl | hq
      · exact hp
      · exact hu' q hq

/-- `TokenBucket.__init__`, translated: whatever the object held before, it is now a FULL bucket of the given capacity and rate,
    stamped with the current time (`float(capacity)` is the same number: the translation computes in `Rat`) -/
theorem bucket_init_eq (s0 : Fn.BucketSt) (now cap rate : Rat) :
    (Fn.bucketInit s0 now cap rate).1 = { capacity := cap, refill_rate := rate, tokens := cap, last_update := now } := rfl

/-- ... and that is the object `pyPut` - the store operation the translation of `process_request` uses for
    `self.buckets[ip] = TokenBucket(cap, rate)` - puts under the address -/
theorem pyPut_is_init (s0 : Fn.BucketSt) (now : Rat) (w : PyStore) (ip : Ip) (cap rate : Rat) :
    pyPut now w ip cap rate =
      (ip, { cap := (Fn.bucketInit s0 now cap rate).1.capacity, rate := (Fn.bucketInit s0 now cap rate).1.refill_rate,
             tokens := (Fn.bucketInit s0 now cap rate).1.tokens, last := (Fn.bucketInit s0 now cap rate).1.last_update }) :: w.filter (·.1 != ip) := rfl

-- non-vacuity: a fresh address is admitted and its bucket created; with capacity 1 the second request at the same instant is refused
-- with the configured hint, and another address is untouched by it
example : (Fn.limiterRequest 1 1 30 0 [] 7).2 = (true, none) := by decide +kernel
example : (Fn.limiterRequest 1 1 30 0 (Fn.limiterRequest 1 1 30 0 [] 7).1 7).2 = (false, some (rateLimitLine 30)) := by decide +kernel
example : (Fn.limiterRequest 1 1 30 0 (Fn.limiterRequest 1 1 30 0 [] 7).1 8).2 = (true, none) := by decide +kernel
end NauyacaVerif.Translated
