import NauyacaVerif.Srv.Flow
/-!
The transport as seen by the TRANSLATION of `GeminiServerProtocol._pump_response` / `resume_writing` / `pause_writing`
(`Gen/Fn/PumpResponse.lean` …), which runs directly on the model state `Srv.Flow.FSt` (`_unsent` ↦ `unsent`,
`_write_paused` ↦ `paused`, `_response_sent` ↦ `started`, `self.transport` ↦ not lost).
`pyWrite`: one `transport.write(piece)` — the piece is accepted, and when the transport's budget says so `pause_writing`
is signalled synchronously during this very call (asyncio does that inside `write`).  `pyClose`: `transport.close()`, idempotent.
-/
namespace Srv.Flow

def pyWrite (s : FSt) (piece : Bytes) : FSt :=
  if s.closed then s else
  let s' := { s with out := s.out ++ [.write piece], done := s.done ++ [piece] }
  match s.budget with
  | none => s'
  | some 0 => { s' with paused := true, budget := none }
  | some (k + 1) => { s' with budget := some k }

def pyClose (s : FSt) : FSt := if s.closed then s else { s with out := s.out ++ [.close], closed := true }

/-- `self.transport = None` (only in `connection_lost`) -/
def pyLost (s : FSt) : FSt := { s with lost := true }
/-- `self.timeout_handle.cancel()` -/
def pyCancel (s : FSt) : FSt := { s with timer := none }

/-- `self._unsent = pieces` in `_send_response` (the ghost `all` remembers what was handed over) -/
def pySetUnsent (s : FSt) (ps : List Bytes) : FSt := { s with unsent := ps, all := ps }
/-- `self._unsent.extend(pieces)` in `_send_response` -/
def pySetUnsentExtend (s : FSt) (ps : List Bytes) : FSt := { s with unsent := s.unsent ++ ps, all := s.all ++ ps }

end Srv.Flow
