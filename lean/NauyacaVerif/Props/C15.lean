import NauyacaVerif.Srv.ConnMore
import NauyacaVerif.Srv.PumpProof
import NauyacaVerif.Srv.FlowProof
import NauyacaVerif.Srv.SysSeg
import NauyacaVerif.Gen.Params

/-! # C15  Silent peers are always disconnected within the timeout
Time is a natural number of 1/8 s since `connection_made`; `tick dt` advances the clock and runs due
timers (what the event loop does); every theorem quantifies over every event list. -/
namespace NauyacaVerif.C15
open Srv

theorem requestTimeout_tie : Srv.requestTimeout8 = Gen.requestTimeout8 := by decide

/-- the request timer is armed exactly while the server waits for the request line or the Titan body on a
    connected, unanswered connection -/
theorem armed_while_waiting (cfg : Cfg) (evs : List Ev) :
    (run cfg evs).timer = true ↔ (waiting (run cfg evs).phase ∧ (run cfg evs).lost = false ∧ (run cfg evs).sent = false) :=
  (run_inv cfg evs).timerIff

/-- … and while it is armed the deadline has not passed -/
theorem armed_before_deadline (cfg : Cfg) (evs : List Ev) (h : (run cfg evs).timer = true) :
    (run cfg evs).now < requestTimeout8 := run_timeInv cfg evs h

/-- once the clock has reached the deadline a connection still waiting for its request is gone -/
theorem silent_closed (cfg : Cfg) (evs : List Ev) (hnow : (run cfg evs).now ≥ requestTimeout8)
    (hw : waiting (run cfg evs).phase) : (run cfg evs).lost = true := Srv.silent_closed cfg evs hnow hw

/-- the response written when the timer fires on a connected, unanswered connection: `40 Request timeout`, close -/
theorem timeout_response (cfg : Cfg) (s : St) (dt : Nat) (hi : Inv cfg s) (ht : s.timer = true)
    (hd : s.now + dt ≥ requestTimeout8) :
    (step cfg s (.tick dt)).out = [.exact (render ⟨40, strOf "Request timeout", .none⟩).1, .close] :=
  Srv.timeout_response cfg s dt hi ht hd

/-- a timeout never fires once a complete request has been received and is being answered -/
theorem no_timeout_after_complete (cfg : Cfg) (evs : List Ev) (h : ¬ waiting (run cfg evs).phase) :
    (run cfg evs).timer = false := Srv.no_timeout_after_complete cfg evs h

theorem tick_noop_after_complete (cfg : Cfg) (s : St) (dt : Nat) (h : s.timer = false) :
    (step cfg s (.tick dt)).out = s.out ∧ (step cfg s .timeout).out = s.out := Srv.tick_noop_after_complete cfg s dt h

/-- the timer is armed once and never re-armed: no slow-loris extension by trickling bytes -/
theorem never_rearmed (cfg : Cfg) (s : St) (e : Ev) (h : (step cfg s e).timer = true) : s.timer = true :=
  step_timer_mono cfg s e h

/-- the other direction, on the model of the write pump (M-Flow, which carries the same timer): once the request is
    decided and a response is being written, no amount of time changes anything -- trace, state, pending pieces -- however
    long the transport keeps writing paused.  A peer that sent a complete request and takes its (large) answer slowly is
    not cut off by the request timer. -/
theorem flow_tick_after_send (evs : List Flow.FEv) (dt : Nat) (hs : (Flow.frun evs).started = true) :
    Flow.frun (evs ++ [.tick dt]) = Flow.frun evs := Flow.tick_after_send evs dt hs

/-- ... and when nothing was decided by the deadline the timeout response goes through the same pump -/
theorem flow_tick_fires (s : Flow.FSt) (dt r : Nat) (ht : s.timer = some r) (hd : r ≤ dt) (hs : s.started = false) (hl : s.lost = false) :
    Flow.fstep s (.tick dt) = Flow.pump { s with started := true, unsent := Flow.timeoutPieces, all := Flow.timeoutPieces, timer := none } :=
  Flow.tick_fires s dt r ht hd hs hl

example : (Flow.frun [.limit 0, .send [[1], [2]], .tick 100000]).out = [.write [1]] := by decide
example : (Flow.frun [.tick 240]).closed = true := by decide

/-- non-vacuity: a peer that sends half a line and stalls is answered 40 at the deadline -/
example : (run { mw := false, upload := false, handler := .async, env := asciiEnv }
            [.data [103, 101], .tick 239]).out = [] := by decide
example : (run { mw := false, upload := false, handler := .async, env := asciiEnv }
            [.data [103, 101], .tick 239, .tick 1]).out ≠ [] := by decide

/-- PyOpenSSL backend: until the handshake completes (and while the TCP connection is up) the handshake timer is armed -/
theorem pump_armed (cfg : Cfg) (evs : List PEv) (h1 : (pumpRun cfg evs).hsDone = false) (h2 : (pumpRun cfg evs).lost = false)
    (h3 : (pumpRun cfg evs).tcpClosed = false) : (pumpRun cfg evs).hsTimer = true :=
  (pumpRun_pinv cfg evs).armed h1 h2 h3

/-- … and when it fires the connection is closed -/
theorem pump_handshake_timeout_closes (cfg : Cfg) (p : PSt) (h1 : p.hsTimer = true) (h2 : p.hsDone = false) (h3 : p.lost = false) :
    (pumpStep cfg p .hsTimeout).tcpClosed = true := by
  simp [pumpStep, h1, h2, h3]

/-- after the handshake the inner protocol's own request timer takes over, with all of the above -/
theorem pump_inner_timer (cfg : Cfg) (evs : List PEv) (i : St) (hi : (pumpRun cfg evs).inner = some i) :
    (i.timer = true ↔ (waiting i.phase ∧ i.lost = false ∧ i.sent = false)) ∧ (i.timer = true → i.now < requestTimeout8) :=
  ⟨((pumpRun_pinv cfg evs).innerInv i hi).1.timerIff, ((pumpRun_pinv cfg evs).innerInv i hi).2.1⟩


/-- on the composed machine: when the clock reaches the deadline on a connection still waiting for its request, the timeout
    response is decided, and on a transport that accepts it, it is written whole and the connection is closed -/
theorem sys_timeout_closes (cfg : Cfg) (dyn : Nat → Bytes) (evs : List Sys.SEv) (dt : Nat) (ht : (Sys.srun cfg dyn evs).conn.timer = true)
    (hd : (Sys.srun cfg dyn evs).conn.now + dt ≥ requestTimeout8) (hp : (Sys.srun cfg dyn evs).flow.paused = false)
    (hb : (Sys.srun cfg dyn evs).flow.budget = none) :
    (Sys.sstep cfg dyn (Sys.srun cfg dyn evs) (.conn (.tick dt))).flow.closed = true ∧
    (Sys.sstep cfg dyn (Sys.srun cfg dyn evs) (.conn (.tick dt))).flow.out = [.write (render ⟨40, strOf "Request timeout", .none⟩).1, .close] :=
  Sys.timeout_closes cfg dyn _ (Sys.srun_j cfg dyn evs) dt ht hd hp hb
end NauyacaVerif.C15
