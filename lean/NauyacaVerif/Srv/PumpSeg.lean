import NauyacaVerif.Srv.PumpProof
import NauyacaVerif.Srv.SegProof

/-! Segmentation independence at the pump level (C07): how the TLS items (handshake records, application
    records, close-notify, garbage) are grouped into TCP reads does not change what the peer receives nor
    what is invoked. -/
namespace Srv

/-- what can be observed of a pump state from outside: TCP close, and of the inner protocol its output trace,
    invocation counts and uploaded content -/
def PSt.obs (p : PSt) : Bool × Bool × Option (List Out × Nat × Nat × Nat × Bytes) :=
  (p.tcpClosed, p.hsDone, p.inner.map (fun i => (i.out, i.hcalls, i.ucalls, i.mwcalls, i.content)))

def Item.isApp : Item → Bool
  | .app _ => true
  | _ => false

/-- `appLoop` stops at the first item that is not application data -/
theorem appLoop_append (cfg : Cfg) (a b : List Item) (p : PSt) :
    appLoop cfg p (a ++ b) = if a.all Item.isApp then appLoop cfg (appLoop cfg p a) b else appLoop cfg p a := by
  induction a generalizing p with
  | nil => simp [appLoop]
  | cons it rest ih =>
    cases it with
    | app d => simp only [List.cons_append, appLoop, List.all_cons, Item.isApp, Bool.true_and]; exact ih _
    | closeNotify => simp [appLoop, Item.isApp]
    | hs => simp [appLoop, Item.isApp]
    | hsFinal => simp [appLoop, Item.isApp]
    | bad => simp [appLoop, Item.isApp]

theorem appLoop_term_closed (cfg : Cfg) (a : List Item) (p : PSt) (h : a.all Item.isApp = false) :
    (appLoop cfg p a).tcpClosed = true := by
  induction a generalizing p with
  | nil => simp at h
  | cons it rest ih =>
    cases it with
    | app d => simp only [List.all_cons, Item.isApp, Bool.true_and] at h; simp only [appLoop]; exact ih _ h
    | closeNotify => simp [appLoop]
    | hs => simp [appLoop]
    | hsFinal => simp [appLoop]
    | bad => simp [appLoop]

theorem appLoop_lost (cfg : Cfg) (a : List Item) (p : PSt) : (appLoop cfg p a).lost = p.lost := by
  induction a generalizing p with
  | nil => rfl
  | cons it rest ih =>
    cases it with
    | app d =>
      simp only [appLoop]; rw [ih]
      split
      · unfold syncClosed; simp only; split <;> (try split) <;> rfl
      · rfl
    | closeNotify => simp [appLoop]
    | hs => simp [appLoop]
    | hsFinal => simp [appLoop]
    | bad => simp [appLoop]

theorem appLoop_hsDone (cfg : Cfg) (a : List Item) (p : PSt) : (appLoop cfg p a).hsDone = p.hsDone := by
  induction a generalizing p with
  | nil => rfl
  | cons it rest ih =>
    cases it with
    | app d =>
      simp only [appLoop]; rw [ih]
      split
      · unfold syncClosed; simp only; split <;> (try split) <;> rfl
      · rfl
    | closeNotify => simp [appLoop]
    | hs => simp [appLoop]
    | hsFinal => simp [appLoop]
    | bad => simp [appLoop]

/-- feeding data to an inner protocol that has already answered changes nothing -/
theorem innerFeed_sent (cfg : Cfg) (i : St) (d : Bytes) (hi : Inv cfg i) (hs : i.sent = true) : innerFeed cfg i d = i := by
  unfold innerFeed
  have hd : Dead i := Or.inr (by have := hi.sentDone hs; simp [this])
  generalize chunks recvSize d = cs
  induction cs with
  | nil => rfl
  | cons c cs ih => simp only [List.foldl_cons]; rw [dead_data cfg i c hd]; exact ih

/-- a closed pump whose inner protocol has answered: further items change nothing observable -/
theorem appLoop_after_sent (cfg : Cfg) (b : List Item) (p : PSt) (i : St) (hin : p.inner = some i) (hi : Inv cfg i)
    (hs : i.sent = true) (hc : p.tcpClosed = true) : (appLoop cfg p b).obs = p.obs := by
  induction b generalizing p i with
  | nil => rfl
  | cons it rest ih =>
    cases it with
    | app d =>
      simp only [appLoop, hin]
      rw [innerFeed_sent cfg i d hi hs]
      have : syncClosed { p with inner := some i } = p := by
        unfold syncClosed; simp only [hs, ↓reduceIte]
        obtain ⟨a1, a2, a3, a4, a5⟩ := p
        simp only at hin hc; subst hin; subst hc; rfl
      rw [this]; exact ih p i hin hi hs hc
    | closeNotify => simp [appLoop, PSt.obs, hin, hc, step]
    | hs => simp [appLoop, PSt.obs, hc]
    | hsFinal => simp [appLoop, PSt.obs, hc]
    | bad => simp [appLoop, PSt.obs, hc]
end Srv

namespace Srv
/-- the TCP side was closed because the inner protocol has answered -/
def ClosedBySent (cfg : Cfg) (p : PSt) : Prop :=
  p.tcpClosed = true ∧ ∃ i, p.inner = some i ∧ i.sent = true ∧ Inv cfg i

theorem appLoop_apps_closed (cfg : Cfg) (a : List Item) (p : PSt)
    (hinv : ∀ i, p.inner = some i → Inv cfg i ∧ TimeInv i ∧ ReqInv cfg i ∧ DoneInv i)
    (h0 : p.tcpClosed = false ∨ ClosedBySent cfg p) (ha : a.all Item.isApp = true)
    (hc : (appLoop cfg p a).tcpClosed = true) : ClosedBySent cfg (appLoop cfg p a) := by
  induction a generalizing p with
  | nil =>
    simp only [appLoop] at hc ⊢
    rcases h0 with h | h
    · simp [h] at hc
    · exact h
  | cons it rest ih =>
    cases it with
    | app d =>
      simp only [List.all_cons, Item.isApp, Bool.true_and] at ha
      simp only [appLoop] at hc ⊢
      cases hi : p.inner with
      | none =>
        simp only [hi] at hc ⊢
        exact ih p hinv h0 ha hc
      | some i =>
        simp only [hi] at hc ⊢
        have hall := feed_inv cfg (chunks recvSize d) i (hinv i hi)
        have hj : Inv cfg (innerFeed cfg i d) := hall.1
        refine ih _ ?_ ?_ ha hc
        · intro j hj'
          have : j = innerFeed cfg i d := by
            unfold syncClosed at hj'; simp only at hj'
            split at hj' <;> simp_all
          subst this; exact hall
        · by_cases hs : (innerFeed cfg i d).sent = true
          · right
            refine ⟨by simp [syncClosed, hs], innerFeed cfg i d, by simp [syncClosed, hs], hs, hj⟩
          · rcases h0 with h | h
            · left; simp [syncClosed, hs, h]
            · obtain ⟨_, i', hi', hs', hinv'⟩ := h
              rw [hi] at hi'; cases hi'
              rw [innerFeed_sent cfg i d hinv' hs'] at hs
              exact absurd hs' hs
    | closeNotify => simp [Item.isApp] at ha
    | hs => simp [Item.isApp] at ha
    | hsFinal => simp [Item.isApp] at ha
    | bad => simp [Item.isApp] at ha

/-- two reads carrying application-phase items are observationally the same as one read carrying both -/
theorem appRead_merge (cfg : Cfg) (p : PSt) (hp : PInv cfg p) (hd : p.hsDone = true) (a b : List Item) :
    (pumpRead cfg (pumpRead cfg p a) b).obs = (pumpRead cfg p (a ++ b)).obs := by
  by_cases hlc : p.lost = true ∨ p.tcpClosed = true
  · have h1 : pumpRead cfg p a = p := by simp only [pumpRead]; rw [if_pos hlc]
    have h2 : pumpRead cfg p (a ++ b) = p := by simp only [pumpRead]; rw [if_pos hlc]
    have h3 : pumpRead cfg p b = p := by simp only [pumpRead]; rw [if_pos hlc]
    rw [h1, h2, h3]
  · have hl : p.lost = false := by cases h : p.lost <;> simp_all
    have hc : p.tcpClosed = false := by cases h : p.tcpClosed <;> simp_all
    have e1 : ∀ x, pumpRead cfg p x = appLoop cfg p x := by
      intro x; simp only [pumpRead]; rw [if_neg hlc, if_pos hd]
    rw [e1 a, e1 (a ++ b), appLoop_append]
    have hd1 : (appLoop cfg p a).hsDone = true := by rw [appLoop_hsDone]; exact hd
    have hl1 : (appLoop cfg p a).lost = false := by rw [appLoop_lost]; exact hl
    by_cases ha : a.all Item.isApp = true
    · rw [if_pos ha]
      by_cases hc1 : (appLoop cfg p a).tcpClosed = true
      · have hcl := appLoop_apps_closed cfg a p hp.innerInv (Or.inl hc) ha hc1
        obtain ⟨_, i, hi, hs, hinv⟩ := hcl
        have : pumpRead cfg (appLoop cfg p a) b = appLoop cfg p a := by
          simp only [pumpRead]; rw [if_pos (Or.inr hc1)]
        rw [this, appLoop_after_sent cfg b _ i hi hinv hs hc1]
      · have : pumpRead cfg (appLoop cfg p a) b = appLoop cfg (appLoop cfg p a) b := by
          simp only [pumpRead]; rw [if_neg (by simp [hl1, hc1]), if_pos hd1]
        rw [this]
    · rw [if_neg ha]
      have hc1 := appLoop_term_closed cfg a p (by simpa using ha)
      have : pumpRead cfg (appLoop cfg p a) b = appLoop cfg p a := by
        simp only [pumpRead]; rw [if_pos (Or.inr hc1)]
      rw [this]

theorem go_lost (cfg : Cfg) (a : List Item) (p : PSt) (hd : p.hsDone = false) : (pumpRead.go cfg p a).lost = p.lost := by
  induction a generalizing p with
  | nil => rfl
  | cons it rest ih =>
    cases it with
    | hs => simp only [pumpRead.go]; exact ih p hd
    | hsFinal => simp only [pumpRead.go]; rw [appLoop_lost]
    | app d => simp [pumpRead.go]
    | closeNotify => simp [pumpRead.go]
    | bad => simp [pumpRead.go]

/-- C07 at the pump: how the TLS items are grouped into two TCP reads is not observable — including the
    read that completes the handshake being coalesced with application data -/
theorem read_merge (cfg : Cfg) (p : PSt) (hp : PInv cfg p) (a b : List Item) :
    (pumpRead cfg (pumpRead cfg p a) b).obs = (pumpRead cfg p (a ++ b)).obs := by
  by_cases hd : p.hsDone = true
  · exact appRead_merge cfg p hp hd a b
  · have hd' : p.hsDone = false := by simpa using hd
    by_cases hlc : p.lost = true ∨ p.tcpClosed = true
    · have h1 : ∀ x, pumpRead cfg p x = p := by intro x; simp only [pumpRead]; rw [if_pos hlc]
      rw [h1 a, h1 (a ++ b), h1 b]
    · have hn : p.inner = none := by
        cases hi : p.inner with
        | none => rfl
        | some i => have := hp.innerAfterHs (by simp [hi]); simp [hd'] at this
      have e1 : ∀ x, pumpRead cfg p x = pumpRead.go cfg p x := by
        intro x; simp only [pumpRead]; rw [if_neg hlc, if_neg hd]
      rw [e1 a, e1 (a ++ b)]
      induction a with
      | nil => simp only [pumpRead.go, List.nil_append]; rw [e1 b]
      | cons it rest ih =>
        cases it with
        | hs => simp only [pumpRead.go, List.cons_append]; exact ih
        | hsFinal =>
          simp only [pumpRead.go, List.cons_append]
          -- from here on it is the application-phase statement for the freshly created inner protocol
          let p0 : PSt := { p with hsDone := true, hsTimer := false, inner := some {} }
          have hp0 : PInv cfg p0 :=
            ⟨by intro j hj; simp only [p0, Option.some.injEq] at hj; subst hj; exact init_all cfg, by intro _; rfl, by intro hh; simp [p0] at hh⟩
          have hl0 : ¬ (p0.lost = true ∨ p0.tcpClosed = true) := by simpa [p0] using hlc
          have e0 : ∀ x, pumpRead cfg p0 x = appLoop cfg p0 x := by
            intro x; simp only [pumpRead]; rw [if_neg hl0, if_pos rfl]
          have := appRead_merge cfg p0 hp0 rfl rest b
          rw [e0 rest, e0 (rest ++ b)] at this
          exact this
        | app d =>
          simp only [pumpRead.go, List.cons_append]
          simp [pumpRead]
        | closeNotify =>
          simp only [pumpRead.go, List.cons_append]
          simp [pumpRead]
        | bad =>
          simp only [pumpRead.go, List.cons_append]
          simp [pumpRead]

/-- … and any number of reads: feeding the reads one by one is observationally the same as one read carrying
    all their items -/
theorem reads_merge (cfg : Cfg) (reads : List (List Item)) (p : PSt) (hp : PInv cfg p) :
    (reads.foldl (pumpRead cfg) p).obs = (pumpRead cfg p reads.flatten).obs := by
  induction reads generalizing p with
  | nil =>
    simp only [List.foldl_nil, List.flatten_nil]
    simp only [pumpRead]
    split
    · rfl
    · split
      · simp [appLoop]
      · simp [pumpRead.go]
  | cons r rest ih =>
    simp only [List.foldl_cons, List.flatten_cons]
    have hp1 : PInv cfg (pumpRead cfg p r) := pumpStep_pinv cfg p (.read r) hp
    rw [ih _ hp1, read_merge cfg p hp r rest.flatten]
end Srv
