"""A document tree that changes while one server object lives (C02 `sequence` family).

`Live` is a `fs_tree.Built` whose directory can be turned into another tree in place (`morph`), so
that a long-lived handler sees entries being replaced under its feet; `scan` reads the directory
back without following links, so that every statement about "the tree at that moment" rests on what
is really on disk.  `mutate` edits an entry list the way an editor of a capsule would: an entry (or a
directory above a file) is replaced by a symlink leading outside or inside the root, removed,
re-created as another kind, two entries change places, something new appears.
"""
from __future__ import annotations

import os
import random
import shutil

from . import fs_tree as T


class Live(T.Built):
    def _make(self, e) -> bool:
        full = os.path.join(self.base, e[1])
        par = os.path.dirname(full)
        if not os.path.isdir(par) or os.path.islink(par) or os.path.lexists(full):
            return False
        try:
            if e[0] == "d":
                os.mkdir(full)
            elif e[0] == "f":
                with open(full, "wb") as f:
                    f.write(T.file_bytes(e[2], bool(e[3]), e[4]))
            else:
                tgt = e[2]
                os.symlink((self.base + tgt) if tgt.startswith("/") else tgt, full)
        except (OSError, ValueError):
            return False
        return True

    def morph(self, new_ents) -> None:
        """turn the directory into `new_ents`: entries that are the same in both trees are left alone
        (same inode), everything else is removed (deepest first) and the new entries are created in order"""
        new = [list(e) for e in new_ents]
        keep = [e for e in self.ents if e in new]
        gone = [e for e in self.ents if e not in new]
        for e in sorted(gone, key=lambda e: -e[1].count("/")):
            full = os.path.join(self.base, e[1])
            try:
                if os.path.islink(full) or not os.path.isdir(full):
                    os.unlink(full)
                else:
                    os.rmdir(full)
            except OSError:
                shutil.rmtree(full, ignore_errors=True)
        ents = []
        for e in new:
            if e in keep or self._make(e):
                ents.append(e)
        self.ents = ents

    def scan(self) -> list:
        """what is on disk now, links not followed: sorted [kind, relpath, id | target | None]"""
        out = []

        def walk(d, rel):
            with os.scandir(d) as it:
                items = sorted(it, key=lambda x: x.name)
            for it in items:
                r = rel + "/" + it.name if rel else it.name
                if it.is_symlink():
                    tgt = os.readlink(it.path)
                    out.append(["l", r, tgt[len(self.base):] if tgt.startswith(self.base + "/") else tgt])
                elif it.is_dir(follow_symlinks=False):
                    out.append(["d", r, None])
                    walk(it.path, r)
                else:
                    with open(it.path, "rb") as f:
                        ids = T.sentinels_in(f.read(40).decode("latin-1"))
                    out.append(["f", r, ids[0] if len(ids) == 1 else None])
        walk(self.base, "")
        return sorted(out)

    def as_described(self) -> bool:
        """the directory holds exactly the entries of `self.ents`"""
        want = sorted([e[0], e[1], None if e[0] == "d" else e[2]] for e in self.ents)
        return want == self.scan()


# ----------------------------------------------------------------------------------------------
# editing an entry list
# ----------------------------------------------------------------------------------------------
OUT_FILES = ["out/secret", "root-evil/e", "out/sub/index.gmi", "root-evil/index.gmi"]
OUT_DIRS = ["out", "out/sub", "root-evil"]


def _up(p: str) -> str:
    """from the directory that holds entry `p` to the base directory"""
    return "../" * p.count("/")


def _without(ents, p):
    return [e for e in ents if e[1] != p and not e[1].startswith(p + "/")]


def _below(ents, p):
    return [e for e in ents if e[1].startswith(p + "/")]


def _kind(e) -> str:
    return {"d": "directory", "f": "file", "l": "symlink"}[e[0]]


def _next_id(ents, floor: int) -> int:
    return max([floor] + [e[2] + 1 for e in ents if e[0] == "f"])


def _link_to(rnd, p, target_rel):
    """a symlink entry at `p` to `target_rel` (relative to the base), spelled relatively or absolutely"""
    return ["l", p, ("/" + target_rel) if rnd.random() < 0.3 else _up(p) + target_rel]


def mutate(rnd: random.Random, ents, names, floor_id: int = 8):
    """-> (new entry list (not settled), [paths touched], kind of edit, description)"""
    ents = [list(e) for e in ents]
    inside = [e for e in ents if e[1].startswith("root/")]
    dirs_in = ["root"] + [e[1] for e in inside if e[0] == "d"]
    fid = _next_id(ents, floor_id)
    k = rnd.random()
    if not inside:
        k = 0.95
    if k < 0.90:
        e = rnd.choice(inside)
        if k < 0.12 and "/" in e[1][len("root/"):]:
            # a file below a sub-directory: the directory above it is what gets replaced
            e = next(x for x in ents if x[1] == e[1].rsplit("/", 1)[0])
        p = e[1]
    if k < 0.34:
        # replaced by a symlink that leads outside the root
        rest = _without(ents, p)
        if e[0] == "d" and rnd.random() < 0.6:
            # ... to a directory outside that holds entries of the same names (what an attacker, or a
            # careless "move the directory elsewhere and link it back", produces)
            m = "out/m%d" % fid
            rest.append(["d", m])
            rest.append(["f", m + "/" + T.MARK + str(fid), fid, True, 0])
            fid += 1
            for x in _below(ents, p):
                q = m + x[1][len(p):]
                if x[0] == "d":
                    rest.append(["d", q])
                else:
                    rest.append(["f", q, fid, True, 0])
                    fid += 1
            tgt = m
        elif e[0] == "d":
            tgt = rnd.choice(OUT_DIRS if rnd.random() < 0.85 else OUT_FILES)
        else:
            tgt = rnd.choice(OUT_FILES if rnd.random() < 0.85 else OUT_DIRS)
        ln = _link_to(rnd, p, tgt)
        rest.append(ln)
        return rest, [p] + [x[1] for x in _below(ents, p)], "link-out", f"{_kind(e)} {p!r} replaced by a symlink to {ln[2]!r} (outside the root)"
    if k < 0.46:
        # replaced by a symlink to something else inside the root
        others = [x for x in inside if x[1] != p and not x[1].startswith(p + "/") and not p.startswith(x[1] + "/")]
        tgt = rnd.choice(others)[1] if others else "root"
        rest = _without(ents, p)
        ln = _link_to(rnd, p, tgt)
        rest.append(ln)
        return rest, [p, tgt] + [x[1] for x in _below(ents, p)], "link-in", f"{_kind(e)} {p!r} replaced by a symlink to {ln[2]!r} (inside the root)"
    if k < 0.56:
        return _without(ents, p), [p] + [x[1] for x in _below(ents, p)], "remove", f"{_kind(e)} {p!r} removed"
    if k < 0.68:
        # replaced by a new regular file (other content; a link or directory becomes a plain file)
        rest = _without(ents, p)
        rest.append(["f", p, fid, rnd.random() < 0.9, 0])
        return rest, [p] + [x[1] for x in _below(ents, p)], "refile", f"{_kind(e)} {p!r} replaced by a new regular file"
    if k < 0.76:
        # replaced by a directory with something in it
        rest = _without(ents, p)
        rest.append(["d", p])
        kids = []
        for nm in rnd.sample(["index.gmi", "a", "f.gmi", rnd.choice(names)], rnd.randint(0, 3)):
            if any(x[1] == p + "/" + nm for x in rest):
                continue
            if rnd.random() < 0.7:
                rest.append(["f", p + "/" + nm, fid, True, 0])
                fid += 1
            else:
                rest.append(_link_to(rnd, p + "/" + nm, rnd.choice(OUT_FILES)))
            kids.append(p + "/" + nm)
        return rest, [p] + kids + [x[1] for x in _below(ents, p)], "redir", f"{_kind(e)} {p!r} replaced by a directory holding {[q.rsplit('/', 1)[-1] for q in kids]}"
    if k < 0.90:
        # two entries change places (with everything below them)
        others = [x for x in inside if x[1] != p and not x[1].startswith(p + "/") and not p.startswith(x[1] + "/")]
        if others:
            o = rnd.choice(others)[1]
            out = []
            for x in ents:
                y = list(x)
                if x[1] == p or x[1].startswith(p + "/"):
                    y[1] = o + x[1][len(p):]
                elif x[1] == o or x[1].startswith(o + "/"):
                    y[1] = p + x[1][len(o):]
                out.append(y)
            # parents first
            out = [x for x in out if not x[1].startswith("root/")] + sorted([x for x in out if x[1].startswith("root/")], key=lambda x: x[1].count("/"))
            return out, [p, o] + [x[1] for x in _below(ents, p)] + [x[1] for x in _below(ents, o)], "swap", f"{p!r} and {o!r} change places"
    # something new appears
    parent = rnd.choice(dirs_in)
    nm = rnd.choice(["index.gmi", "index.gemini", "zz", rnd.choice(names), rnd.choice(names)])
    p = parent + "/" + nm
    if any(x[1] == p for x in ents):
        return _without(ents, p), [p], "remove", f"{p!r} removed"
    c = rnd.random()
    if c < 0.5:
        ents.append(["f", p, fid, True, 0])
        what = "regular file"
    elif c < 0.65:
        ents.append(["d", p])
        what = "directory"
    else:
        ln = _link_to(rnd, p, rnd.choice(OUT_FILES + OUT_DIRS + [x[1] for x in inside] + ["root"]))
        ents.append(ln)
        what = f"symlink to {ln[2]!r}"
    return ents, [p], "create", f"new {what} {p!r}"
