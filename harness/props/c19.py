"""C19  URL normalisation preserves meaning and is idempotent

Correspondence: `parse_url` / `normalize_url` of the working tree against `Url.parseUrl` in the Lean
model (family `parse`, in-process, RFC 3986 generator restricted to gemini + mutations), and the request
line a real `GeminiClient.get` writes against what a real `GeminiServerProtocol` behind TLS on loopback
makes of it (family `wire`, spy handler; the model side is `Url.clientWire` / `Url.serverParse`).
"""
from __future__ import annotations

import asyncio
import logging
import random
import unicodedata
import urllib.parse as up

from .. import core
from ..core import Family, cps, uncps

ID = "C19"
READY = True
LEAN_TARGETS = ["NauyacaVerif.Props.C19", "NauyacaVerif.Props.Tr.ParseUrl"]
TRANSLATED = ["parseUrl"]
THEOREMS = [f"NauyacaVerif.C19.{t}" for t in (
    "norm_accepted_partial", "norm_same_partial", "norm_idem_partial", "norm_idem_plain_partial",
    "wire_roundtrip_partial", "tail_canonical", "defaultPort_tie", "maxRequest_tie")] + ["NauyacaVerif.Translated.parseUrl_eq"]
EXTRACT = ["defaultPort", "maxRequest"]
ASSUMPTIONS = [
    "urllib.parse of the interpreter in /venv (3.12.1) is what Url.urlsplit ports; ipaddress.ip_address / the IPvFuture regex on a bracketed host and the NFKC check on a non-ASCII authority are opaque (passed to the model per case as oracle bits); str.lower is modelled as ASCII lower-casing",
    "theorems cover ASCII authorities; host names with non-ASCII characters are checked by correspondence (family parse: model compared when str.lower acts as ASCII lower-casing on the authority, direct oracle always) — not proved",
    "the IP-literal check is assumed to accept the lower-cased spelling of whatever it accepts (IpStable): ipaddress parses hex digits case-insensitively and the IPvFuture pattern allows both cases after the leading 'v'",
    "the UTF-8 encode/decode pair between client and server is treated as the identity on text (codec contract)",
    "family wire redirects the client's TCP connection to the loopback spy server whatever host/port the URL names (loop.create_connection is wrapped; the requested host/port are recorded), so default-port and non-resolvable host spellings can be exercised; TLS is real",
]
LEVEL_TEXT = "partial"
LEVEL_NOTE = ("proved for every URL with an ASCII authority (reg-name, IPv4, bracketed IPv6 with/without zone, IPvFuture, any port spelling, "
              "any path/query); host names with non-ASCII characters are covered by correspondence only (str.lower / NFKC are opaque); "
              "the TLS/TCP path between client and server is exercised live, not modelled")
TECHNIQUE = "Lean 4 proofs over a port of urlsplit/parse_url (norm_idem_ascii, parse_canonical, wire_roundtrip) + differential testing against parse_url and a live client/server pair"

logging.disable(logging.CRITICAL)

# ------------------------------------------------------------------------------------------------
# generator: RFC 3986 restricted to gemini, plus mutations
# ------------------------------------------------------------------------------------------------
UNRESERVED = "abcdefghijklmnopqrstuvwxyzABCDEFGHIJKLMNOPQRSTUVWXYZ0123456789-._~"
SUBDELIMS = "!$&'()*+,;="
HEX = "0123456789abcdefABCDEF"
ODD = " \t\r\n\\|^`{}<>\"[]%#?@:/\x00\x1f\x7f"
NONASCII_HOST = ["é", "ä", "ß", "İ", "Ａ", "ｅ", "℀", "／", "＠", "：", "？", "＃", "⁈", "ǅ", "Σ", "ς", "ı", "K", "Ω", "ﬁ", "٣", "日本", "­", "‍", "\U0001f600", "ª", "⑴", "︓", "﹕"]
SCHEMES = ["gemini"] * 12 + ["GEMINI", "Gemini", "gEmInI", "http", "titan", "gemini+x", "gemin", "geminii", "", "1gemini", "gem ini", "gemini\t"]
SEEDS = [
    "gemini://[::1]/x", "gemini://[::1]", "gemini://[::1]:1965/", "gemini://[::1]:70/a?b", "gemini://[FE80::1%25eth0]/", "gemini://[fe80::1%eth0]:1966/p",
    "gemini://[2001:DB8::1]/", "gemini://[::ffff:1.2.3.4]/", "gemini://[v1.fe]/", "gemini://[v1.a:b]/", "gemini://[vF.a-b:c]:7/", "gemini://[v1.a[b]/", "gemini://[v1.a[b:]/",
    "gemini://[1.2.3.4]/", "gemini://[zz]/", "gemini://[::1", "gemini://::1]/", "gemini://[::1]x/", "gemini://x[::1]/", "gemini://[::1]:/", "gemini://[::1]:x/", "gemini://[::1]@h/", "gemini://@[::1]/",
    "gemini://example.com", "gemini://example.com/", "GEMINI://EXAMPLE.COM:1965/Path?Query", "gemini://example.com:01965", "gemini://example.com:0/", "gemini://example.com:65535/",
    "gemini://example.com:65536/", "gemini://example.com:/", "gemini://example.com:1966", "gemini://h?", "gemini://h/?", "gemini://h?q", "gemini://h??", "gemini://h/a;b;c?d;e", "gemini://h;p",
    "gemini://h/%2F%2e%2e%00%", "gemini://h/a//b/./../c", "gemini://h/a:b@c", "gemini://h//", "gemini://@h/", "gemini://:@h/", "gemini://u@h/", "gemini://u:p@h/", "gemini://a@b@h/",
    "gemini://h/#", "gemini://h/#f", "gemini://h#", " gemini://h/", "gemini://h/ x", "gemini://h/\tx", "gem\nini://h/", "gemini:///x", "gemini://", "gemini:/h", "gemini:h", "//h/", "",
    "gemini://127.0.0.1/", "gemini://1.2.3.4:70", "gemini://h%41/", "gemini://h%/", "gemini://exämple.com/", "gemini://İ.com/", "gemini://ＥＸ.com/", "gemini://a℀b/", "gemini://h/é?ü",
    "gemini://h:٣/", "gemini://h:¹/", "gemini://h:+1/", "gemini://h:1_0/", "gemini://h: 1/", "gemini://H.:1965/.", "gemini://-/", "gemini://h/[x]", "gemini://h/?[x]",
]


def pct(rng):
    return "%" + rng.choice(HEX) + rng.choice(HEX)


def pchar(rng):
    r = rng.random()
    if r < 0.55:
        return rng.choice(UNRESERVED)
    if r < 0.67:
        return pct(rng)
    if r < 0.82:
        return rng.choice(SUBDELIMS)
    if r < 0.9:
        return rng.choice(":@")
    if r < 0.95:
        return rng.choice(["é", "ü", "日", "\U0001f600", "İ"])
    return rng.choice(ODD)


def gen_regname(rng):
    n = rng.choice([1, 1, 2, 3, 5, 9])
    s = ""
    for _ in range(n):
        r = rng.random()
        if r < 0.75:
            s += rng.choice(UNRESERVED)
        elif r < 0.83:
            s += pct(rng)
        elif r < 0.93:
            s += rng.choice(SUBDELIMS)
        else:
            s += rng.choice(NONASCII_HOST)
    return s


def gen_v6(rng):
    groups = [format(rng.randrange(0, 65536), rng.choice(["x", "X", "04x"])) for _ in range(8)]
    form = rng.random()
    if form < 0.25:
        a = ":".join(groups)
    elif form < 0.6:
        i, j = sorted(rng.sample(range(0, 9), 2))
        a = ":".join(groups[:i]) + "::" + ":".join(groups[j:])
    elif form < 0.7:
        a = "::"
    elif form < 0.8:
        a = "::" + rng.choice(["1", "ffff:1.2.3.4", "FFFF:127.0.0.1"])
    elif form < 0.9:
        a = rng.choice(["fe80::1", "FE80::A", "fe80::1:2"])
    else:
        a = rng.choice(["1::2::3", ":::", "12345::", "g::1", "1.2.3.4", "::1.2.3", ""])
    z = rng.random()
    if z < 0.15:
        a += "%25" + rng.choice(["eth0", "ETH0", "1", "en-1"])
    elif z < 0.25:
        a += "%" + rng.choice(["eth0", "Lo", "", "%", "a:b", "a[b"])
    return a


def gen_vfuture(rng):
    body = "".join(rng.choice(UNRESERVED + SUBDELIMS + "::" + ("[%@" if rng.random() < 0.2 else "")) for _ in range(rng.randint(0, 5)))
    return rng.choice(["v", "v", "V"]) + rng.choice(["1", "F", "a9", "", "g"]) + rng.choice([".", ".", ""]) + body


def gen_host(rng):
    r = rng.random()
    if r < 0.4:
        return gen_regname(rng)
    if r < 0.5:
        return ".".join(str(rng.choice([0, 1, 127, 255, 256, 10])) for _ in range(rng.choice([4, 4, 4, 3, 5])))
    if r < 0.75:
        return "[" + gen_v6(rng) + "]"
    if r < 0.85:
        return "[" + gen_vfuture(rng) + "]"
    if r < 0.9:
        return rng.choice(["", "[", "]", "[]", "[::1", "::1]", "[::1]]", "[[::1]", "x[::1]", "[::1]x", "[::1][::2]"])
    return rng.choice(["example.com", "EXAMPLE.com", "localhost", "LocalHost", "h"])


def gen_port(rng):
    r = rng.random()
    if r < 0.3:
        return ""
    if r < 0.4:
        return ":1965"
    if r < 0.5:
        return ":" + str(rng.choice([0, 1, 70, 1964, 1966, 65535, 65536, 99999]))
    if r < 0.7:
        return ":" + str(rng.randrange(0, 65536))
    if r < 0.78:
        return ":" + rng.choice(["", "01965", "007", "0", "00000", "0001966"])
    return ":" + rng.choice(["1a", "-1", "+1", "٣", "¹", " 1", "1 ", "1_0", "0x10", "1.0", "１"])


def gen_path(rng):
    r = rng.random()
    if r < 0.15:
        return ""
    if r < 0.25:
        return "/"
    segs = []
    for _ in range(rng.randint(1, 4)):
        t = rng.random()
        if t < 0.1:
            segs.append(rng.choice([".", "..", "", "%2e%2e", "%2E", "..."]))
        elif t < 0.25:
            segs.append("".join(pchar(rng) for _ in range(rng.randint(1, 4))) + ";" + "".join(pchar(rng) for _ in range(rng.randint(0, 3))))
        else:
            segs.append("".join(pchar(rng) for _ in range(rng.randint(0, 6))))
    p = "/" + "/".join(segs)
    if rng.random() < 0.05:
        p = p[1:]  # rootless (only mutations make this reach the authority)
    return p


def gen_query(rng):
    r = rng.random()
    if r < 0.45:
        return ""
    if r < 0.55:
        return "?"
    return "?" + "".join(rng.choice([pchar(rng), "/", "?", "=", "&"]) for _ in range(rng.randint(1, 8)))


def gen_url(rng):
    scheme = rng.choice(SCHEMES)
    ui = rng.choice([""] * 14 + ["@", ":@", "u@", "u:p@", "@@", ":p@", "[@"])
    sep = rng.choice(["://"] * 12 + [":", "//", ":/", ":///"])
    frag = rng.choice([""] * 12 + ["#", "#f", "#/?"])
    pre = rng.choice([""] * 10 + [" ", "\x00", "\n", "\t "])
    return pre + scheme + sep + ui + gen_host(rng) + gen_port(rng) + gen_path(rng) + gen_query(rng) + frag


def mutate(rng, u):
    if not u:
        return rng.choice(ODD)
    k = rng.random()
    i = rng.randrange(len(u))
    alphabet = ":/?#[]@%;" + ODD + "gG1."
    if k < 0.3:
        return u[:i] + u[i + 1:]
    if k < 0.6:
        return u[:i] + rng.choice(alphabet) + u[i:]
    if k < 0.8:
        return u[:i] + rng.choice(alphabet) + u[i + 1:]
    if k < 0.9:
        j = rng.randrange(len(u))
        a, b = min(i, j), max(i, j)
        return u[:a] + u[a:b] * 2 + u[b:]
    return u[:i] + rng.choice(NONASCII_HOST) + u[i:]


def oracle_bits(u: str) -> tuple[int, int]:
    """What urlsplit learns from ipaddress / NFKC for this URL (the model's opaque parameters)."""
    ipok, nf = 1, 1
    try:
        up.urlsplit(u)
    except ValueError as e:
        m = str(e)
        if "NFKC" in m:
            nf = 0
        elif "Invalid IPv6 URL" in m:
            pass
        else:
            ipok = 0
    return ipok, nf


def err_kind(m: str) -> str:
    for needle, k in (("cannot be empty", "empty"), ("missing scheme", "noScheme"), ("Invalid scheme", "badScheme"), ("missing hostname", "noHost"),
                      ("userinfo", "userinfo"), ("must not contain fragment", "fragment"), ("could not be cast", "badPort"), ("out of range", "portRange"),
                      ("Invalid IPv6 URL", "invalidIPv6"), ("NFKC", "nfkc"), ("URL too long", "tooLong")):
        if needle in m:
            return k
    return "bracketHost"


def parse_obs(u: str):
    from nauyaca.utils.url import parse_url

    try:
        p = parse_url(u)
    except ValueError as e:
        return ["err", err_kind(str(e))]
    return ["ok", p.hostname, p.port, p.path, p.query, p.normalized]


def authority_of(u: str) -> str | None:
    try:
        return up.urlsplit(u).netloc
    except ValueError:
        return None


def model_applicable(u: str) -> bool:
    """The driver's `lowerU` is ASCII lower-casing: compare when str.lower agrees with it on the authority."""
    nl = authority_of(u)
    if nl is None:
        # rejected inside urlsplit: the bits carry the reason; non-ASCII lowering is never reached
        return True
    return nl.lower() == "".join(c.lower() if c.isascii() else c for c in nl)


def classify_host(u: str, r) -> str:
    nl = authority_of(u) or ""
    if "[" in nl:
        h = "v6zone" if "%" in nl else "vfuture" if "[v" in nl.lower() else "v6"
    elif any(ord(c) > 127 for c in nl):
        h = "nonascii"
    elif nl.replace(".", "").split(":")[0].isdigit():
        h = "ipv4"
    else:
        h = "regname"
    return h


class Parse(Family):
    name = "parse"
    quick_n = 60000
    thorough_n = 1500000

    def gen(self, rng: random.Random, n: int):
        cnt = 0
        for u in self.share(SEEDS):  # every process runs its part of the fixed list (harness/README "Sharding pitfall")
            cnt += 1
            yield {"u": u}
        for i in range(max(0, n - cnt)):
            u = gen_url(rng)
            m = rng.random()
            if m < 0.25:
                u = mutate(rng, u)
            if m < 0.05:
                u = mutate(rng, u)
            yield {"u": u}

    def impl(self, case):
        from nauyaca.utils.url import normalize_url

        u = case["u"]
        r = parse_obs(u)
        obs = {"r": r}
        if r[0] == "ok":
            obs["again"] = parse_obs(r[5])
            try:
                n1 = normalize_url(u)
                obs["norm"] = n1
                try:
                    obs["norm2"] = normalize_url(n1)
                except ValueError as e:
                    obs["norm2"] = None
            except ValueError:
                obs["norm"] = None
        return obs

    def model(self, case):
        u = case["u"]
        if not model_applicable(u):
            return None
        ip, nf = oracle_bits(u)
        return f"url {cps(u)} {ip} {nf}"

    def expect(self, case, out):
        if out.startswith("err "):
            return ["err", out.split(".")[-1]]
        assert out.startswith("ok "), out
        h, port, path, q, n = out[3:].split(" ")
        return ["ok", uncps(h), int(port), uncps(path), uncps(q), uncps(n)]

    def same(self, expected, obs):
        return expected == obs["r"]

    def oracle(self, case, obs):
        r = obs["r"]
        if r[0] != "ok":
            return None
        _, host, port, path, query, norm = r
        a = obs["again"]
        if obs.get("norm") != norm:
            return ("normalize-differs", f"normalize_url({case['u']!r}) = {obs.get('norm')!r} but parse_url(...).normalized = {norm!r}")
        if a[0] != "ok":
            if host.startswith("v") and "[" in host and ":" not in host:
                return ("norm-rejected:ipvfuture-inner-bracket", f"{case['u']!r} is accepted (host {host!r}) but its normalised form {norm!r} is rejected: {a[1]}")
            return ("norm-rejected", f"{case['u']!r} is accepted but its normalised form {norm!r} is rejected: {a[1]}")
        for name, x, y in (("hostname", host, a[1]), ("port", port, a[2]), ("path", path, a[3]), ("query", query, a[4])):
            if x != y:
                return (f"norm-changed:{name}", f"{case['u']!r}: {name} {x!r} becomes {y!r} after normalisation to {norm!r}")
        if obs.get("norm2") != norm:
            return ("norm-not-idempotent", f"{case['u']!r}: normalize gives {norm!r}, normalising again gives {obs.get('norm2')!r}")
        return None

    def key(self, case, obs):
        r = obs["r"]
        if r[0] == "err":
            return "err:" + r[1]
        u = case["u"]
        nl = authority_of(u) or ""
        flags = []
        if r[2] != 1965:
            flags.append("port")
        elif ":" in nl.rsplit("]", 1)[-1]:
            flags.append("port1965")
        if r[4]:
            flags.append("q")
        if ";" in r[3]:
            flags.append("params")
        if nl != nl.lower():
            flags.append("upper")
        return "ok:" + classify_host(u, r) + (":" + "+".join(flags) if flags else "")


# ------------------------------------------------------------------------------------------------
# live: GeminiClient.get -> TLS on loopback -> GeminiServerProtocol -> spy handler
# ------------------------------------------------------------------------------------------------
WIRE_HOSTS = ["127.0.0.1", "localhost", "LOCALHOST", "LocalHost.", "[::1]", "[::FFFF:127.0.0.1]", "[fe80::1%25lo]", "[fe80::1%lo]", "[v1.lo:x]", "[v1.lo]", "example.com", "EXAMPLE.COM",
              "@localhost", ":@localhost", "xn--bcher-kva.example", "h%41", "a_b", "1.2.3.4", "[2001:db8::1]", "localhost[::1]", "exämple.com", "İ.example", "ＥＸ.example", "ß.example"]


class Wire(Family):
    realtime = True     # runs on the wall clock (sockets, threads): a failure is re-run once before it counts (core.run_family)
    name = "wire"
    quick_n = 260
    thorough_n = 4000
    parallel = False

    def setup(self):
        from ..sim import url_upstream as U
        from nauyaca.protocol.response import GeminiResponse
        from nauyaca.server.protocol import GeminiServerProtocol

        if getattr(self, "_ready", False):
            return
        self.loop = U.quiet_loop()
        self.seen: list = []

        def spy(request):
            self.seen.append([request.raw_url, request.hostname, request.port, request.path, request.query])
            return GeminiResponse(status=20, meta="text/plain", body="ok")

        async def start():
            srv = await self.loop.create_server(lambda: GeminiServerProtocol(spy), "127.0.0.1", 0, ssl=U.server_context())
            return srv

        self.server = self.loop.run_until_complete(start())
        self.port = self.server.sockets[0].getsockname()[1]
        # every connection of the client goes to the spy server; what was asked for is recorded
        self.asked: list = []
        orig = self.loop.create_connection

        async def redirect(factory, host=None, port=None, *, ssl=None, server_hostname=None, **kw):
            self.asked.append([host, port])
            return await orig(factory, host="127.0.0.1", port=self.port, ssl=ssl, server_hostname="localhost", **kw)

        self.loop.create_connection = redirect  # type: ignore[method-assign]
        self._ready = True

    def gen(self, rng: random.Random, n: int):
        fixed = [
            "gemini://127.0.0.1/", "gemini://127.0.0.1", "gemini://[::1]/x", "gemini://[::1]:1965", "GEMINI://LOCALHOST:01965/A;b?C=d&e", "gemini://localhost?", "gemini://localhost?q",
            "gemini://localhost/%2F%2e%2e/;p?x?y", "gemini://localhost:7/a//b", "gemini://[fe80::1%25lo]:70/z", "gemini://[v1.lo:x]/", "gemini://[v1.a[b]/", "gemini://exämple.com/é?ü",
            "gemini://@localhost/x", "gemini://localhost/ x", "gemini://localhost/a\tb", " gemini://localhost/",
        ]
        # lengths around the limit: the client measures the caller's string, the server the normalised one
        for total in (1020, 1021, 1022, 1023):
            for shape in ("gemini://localhost?", "gemini://localhost/?", "gemini://localhost/", "gemini://LOCALHOST:1965/", "gemini://localhost"):
                pad = total - len(shape)
                fixed.append(shape + "q" * pad)
        fixed.append("gemini://localhost/" + "é" * 501)
        fixed.append("gemini://localhost/" + "é" * 502)
        cnt = 0
        for u in self.share(fixed):
            cnt += 1
            yield {"u": u}
        for _ in range(max(0, n - cnt)):
            host = rng.choice(WIRE_HOSTS)
            u = rng.choice(["gemini", "gemini", "Gemini", "GEMINI"]) + "://" + host + gen_port(rng) + gen_path(rng) + gen_query(rng)
            if rng.random() < 0.1:
                u = mutate(rng, u)
            yield {"u": u}

    def impl(self, case):
        from nauyaca.client.session import GeminiClient

        u = case["u"]
        self.seen.clear()
        self.asked.clear()

        async def go():
            client = GeminiClient(timeout=3.0, verify_ssl=False, trust_on_first_use=False)
            try:
                r = await client.get(u, follow_redirects=False)
                return ["resp", r.status, r.meta]
            except ValueError as e:
                return ["invalid", err_kind(str(e))]
            except Exception as e:  # noqa: BLE001
                return ["error", type(e).__name__]

        res = self.loop.run_until_complete(go())
        self.loop.run_until_complete(asyncio.sleep(0))
        return {"client": res, "asked": list(self.asked), "seen": list(self.seen), "caller": parse_obs(u)}

    def model(self, case):
        u = case["u"]
        if not model_applicable(u):
            return None
        ip, nf = oracle_bits(u)
        return f"wire 1024 {cps(u)} {ip} {nf}"

    def expect(self, case, out):
        # what the model says the spy must see: [raw line, host, port, path, query] or a refusal
        if out.startswith("err "):
            return {"client": "invalid", "seen": []}
        wire, _, srv = out[3:].partition(" | ")
        line = uncps(wire)
        assert line.endswith("\r\n")
        if srv.startswith("err "):
            return {"client": "resp59", "seen": []}
        h, port, path, q, n = srv[3:].split(" ")
        return {"client": "resp20", "seen": [[line[:-2], uncps(h), int(port), uncps(path), uncps(q)]]}

    def same(self, expected, obs):
        c = obs["client"]
        kind = "invalid" if c[0] == "invalid" else f"resp{c[1]}" if c[0] == "resp" else "error"
        return expected["client"] == kind and expected["seen"] == obs["seen"]

    def oracle(self, case, obs):
        c, seen, caller = obs["client"], obs["seen"], obs["caller"]
        u = case["u"]
        if c[0] == "invalid":
            if seen or obs["asked"]:
                return ("wire-sent-invalid", f"client refused {u!r} but a connection was made")
            return None
        if c[0] == "error":
            return ("wire-client-error", f"client raised {c[1]} for {u!r}")
        if caller[0] != "ok":
            return ("wire-accepted-unparsable", f"client sent a request for {u!r} which parse_url rejects")
        _, host, port, path, query, norm = caller
        if obs["asked"] != [[host, port]]:
            return ("wire-connect-target", f"{u!r}: connected to {obs['asked']} instead of {[host, port]}")
        if len(seen) != 1:
            if len(norm.encode()) + 2 > 1024 and len(u.encode()) + 2 <= 1024:
                return ("wire-rejected:normalised-longer-than-limit",
                        f"client accepted {len(u.encode())}-byte URL {u[:40]!r}… but sent the {len(norm.encode())}-byte normalised form, which the server refused: {c}")
            if host.startswith("v") and "[" in host and ":" not in host:
                return ("norm-rejected:ipvfuture-inner-bracket", f"client sent {norm!r} for {u!r}; server answered {c}")
            return ("wire-rejected", f"request line for {u!r} was not accepted by the server: {c}; handler calls {len(seen)}")
        s = seen[0]
        for name, x, y in (("hostname", host, s[1]), ("port", port, s[2]), ("path", path, s[3]), ("query", query, s[4])):
            if x != y:
                return (f"wire-changed:{name}", f"{u!r}: caller's {name} {x!r}, server saw {y!r} (request line {s[0]!r})")
        return None

    def key(self, case, obs):
        c = obs["client"]
        if c[0] != "resp":
            return c[0] + ":" + str(c[1])
        return f"resp{c[1]}:" + classify_host(case["u"], None) + (":longline" if len(case["u"]) > 1000 else "")


class Purity(Family):
    """parsing and normalising a URL is a function of the URL alone: whatever the process did before (fetches that follow
    redirects with absolute, relative, odd or non-gemini targets; uploads; request parsing on the server side) the same URL
    parses to the same components - in particular a path keeps its `;`, `%`, `.` and empty segments"""

    name = "purity"
    quick_n = 120
    thorough_n = 2500

    PROBES = ["gemini://h/dir/file;v=1", "gemini://h/a;b/c;d?q;r", "gemini://h/;x", "gemini://h/a/./b/../c//d", "gemini://h/%2e%2e/x;y", "gemini://H:1965/a%3Bb",
              "gemini://h/a;b.txt", "gemini://[::1]:1966/p;q;r=1/", "gemini://h/?;", "gemini://h/x;"]

    def gen(self, rng: random.Random, n: int):
        targets = ["/relative", "relative/path", "../up", "?q", "//other/x", "gemini://b/next", ";params", "./a;b", "", "http://a/", "gemini://b/y;z"]
        for i in range(n):
            probes = rng.sample(self.PROBES, 4) + [gen_url(rng) for _ in range(3)] + [gen_url(rng).split("?")[0] + ";p=" + str(i)]
            graph = {"gemini://a/": ["r", rng.choice([30, 31]), rng.choice(targets)], "gemini://b/next": ["f", 20], "gemini://a/relative": ["f", 20],
                     "gemini://b/y;z": ["r", 31, rng.choice(targets)]}
            yield {"probes": probes, "graph": graph, "lines": ["gemini://h/x;y\r\n", "titan://h/up;size=0\r\n"]}

    def impl(self, case):
        import asyncio

        from nauyaca.client.session import GeminiClient
        from nauyaca.protocol.request import GeminiRequest
        from nauyaca.protocol.response import GeminiResponse
        from nauyaca.utils.url import normalize_url

        def look():
            out = []
            for u in case["probes"]:
                r = parse_obs(u)
                try:
                    nz = normalize_url(u)
                except ValueError:
                    nz = None
                out.append([r, nz])
            return out

        before = look()
        graph = case["graph"]

        async def fake_single(url: str):
            e = graph.get(url)
            if e is None:
                raise ConnectionError("stub: no such host")
            if e[0] == "f":
                return GeminiResponse(status=e[1], meta="text/gemini", body="x", url=url)
            return GeminiResponse(status=e[1], meta=e[2], url=url)

        async def go():
            client = GeminiClient(max_redirects=5, verify_ssl=False, trust_on_first_use=False)
            client._get_single = fake_single  # type: ignore[method-assign]
            for start in ("gemini://a/", "gemini://b/y;z"):
                try:
                    await client.get(start, follow_redirects=True)
                except Exception:  # noqa: BLE001  what the fetch returns is C16's business
                    pass

        asyncio.run(go())
        for ln in case["lines"]:
            try:
                GeminiRequest.from_line(ln.strip())
            except Exception:  # noqa: BLE001
                pass
        return {"before": before, "after": look()}

    def model(self, case):
        return None     # family parse compares single URLs with the Lean model; here the oracle speaks

    def oracle(self, case, obs):
        for u, b, a in zip(case["probes"], obs["before"], obs["after"]):
            if a != b:
                return ("parse-depends-on-history", f"{u!r} parsed/normalised to {b} before and to {a} after the same process followed some redirects and parsed some request lines")
            r = a[0]
            if r[0] == "ok":
                tail = u.split("://", 1)[1]
                rawpath = "/" + tail.split("/", 1)[1] if "/" in tail.split("?")[0] else "/"
                rawpath = rawpath.split("?")[0].split("#")[0]
                if ";" in rawpath and r[3] != rawpath and "\t" not in u and "\n" not in u and "\r" not in u:
                    return ("path-lost-params", f"{u!r}: path component is {r[3]!r}, the URL says {rawpath!r}")
        return None

    def key(self, case, obs):
        return f"{sum(1 for a in obs['after'] if a[0][0] == 'ok')} ok of {len(obs['after'])}"


FAMILIES = [Parse(), Wire(), Purity()]
