"""C04  No handler runs for a request the middleware chain refuses."""
from __future__ import annotations

import asyncio
import json
import random

from ..core import Family
from ..sim import srv as sim
from .pumpfam import PumpFamily, gen_pump_case
from .srvfam import ConnFamily, racy, gen_case, gen_orderly, get_loop, parse_model

ID = "C04"
READY = True
LEAN_TARGETS = ["NauyacaVerif.Props.C04", "NauyacaVerif.Props.Tr.Chain"]
THEOREMS = ['NauyacaVerif.C04.handler_gated', 'NauyacaVerif.C04.mw_once', 'NauyacaVerif.C04.undecided_no_handler', 'NauyacaVerif.C04.deny_is_response', 'NauyacaVerif.C04.raise_refuses', 'NauyacaVerif.C04.rejection_not_success', 'NauyacaVerif.C04.mwResponses_wf', 'NauyacaVerif.C04.pump_handler_gated'] + ['NauyacaVerif.Translated.chain_first_reject']
TRANSLATED = ['chain']
LEAN_TARGETS = LEAN_TARGETS + ["NauyacaVerif.Props.Tr.Dispatch", "NauyacaVerif.Props.Tr.Rejection"]
TRANSLATED = list(globals().get("TRANSLATED", [])) + ["handleMwResult", "handleGeminiRequest", "processTitanUpload", "sendMwRejection"]
THEOREMS = THEOREMS + [f"NauyacaVerif.Translated.{t}" for t in ("handleMwResult_eq", "handleGeminiRequest_eq", "processTitanUpload_eq",
                                                                  "sendMwRejection_eq", "sendMwRejection_is_reject", "rejection_never_success")]
EXTRACT = ["mwResponses"]
LEVEL_TEXT = "Proved for every event list, Gemini and Titan: with a chain configured, handler + upload invocations never exceed consumed allow verdicts, nothing is invoked while the verdict is outstanding, a deny/raise verdict ends in a response and no invocation, a refusal is never relayed as success; lifted to the pump model. Correspondence: scripted verdicts in every order vs reads/timer/disconnect, chains of the REAL RateLimiter/AccessControl/CertificateAuth + scripted components against a reference 'first rejecting component evaluated on its own', chain arguments (normalised URL, peer address, SHA-256 fingerprint of the certificate actually presented, also over the real PyOpenSSL handshake); several connections sharing one chain under chosen interleavings (same loop iteration, overlapping slow evaluations, counting components): every handler run covered by an allow of every component for that very request."
LEVEL_NOTE = "Trusted: Lean kernel (axioms propext, Classical.choice, Quot.sound only); the hand-written model Srv.step/Srv.pumpStep is tied to /repo by extraction (constants, 'every transport.write sits in _send_response') and by the correspondence run of every check (fake transport with asyncio's write-after-close semantics, virtual-clock loop, scripted handlers; real PyOpenSSL pump over memory BIOs); asyncio's transport/timer contract, OpenSSL's record layer and Python exception texts are assumed, see assumptions."
TECHNIQUE = 'Lean 4 proof (invariant induction over all event lists of an executable connection state machine) + differential correspondence with the real asyncio protocol objects under a virtual clock'
ASSUMPTIONS = [
    "the chain's verdict is a parameter of the connection model (allow / deny line / raise, completing at an arbitrary later event); the real RateLimiter, AccessControl and CertificateAuth components are the subject of C10, C09 and C05",
    "family chain evaluates each real component on its own to obtain the reference verdict (first rejecting component wins)",
    "family concurrent (direct oracle, no Lean line): several connections share ONE real MiddlewareChain; request lines are delivered in the same event-loop iteration or while an earlier evaluation is pending (scripted slow components); the stateful components are the real RateLimiter with the module clock frozen and a scripted quota; components are spied on individually (their process_request is replaced on the instance) and stateless components are re-evaluated on their own per connection",
    "family pumppair (direct oracle, no Lean line): two to four connections of one PyOpenSSL-backend server are open at the same time (real TLSServerProtocol objects from one server context, real TLS clients over memory BIOs, one shared real chain); their stages (connect, first flight, end of handshake, pieces of the request, loss) are interleaved in a chosen order; each connection's questions to the chain and handler runs are attributed through a per-connection view of the chain and per-connection handlers; stateless components are re-evaluated on their own with that connection's address, URL and presented certificate",
    "the PyOpenSSL backend hands the inner protocol the same events (family pump of C01/C07); the fingerprint passed to the chain is checked on the fake transport's ssl_object and, in the thorough tier, over the memory-BIO pump",
]

REQ_LINES = [b"gemini://h.example/", b"gemini://h.example/app/secret.gmi?x=1", b"gemini://H.Example:1965/a/../b", b"gemini://[::1]:7000/x",
             b"titan://h.example/up/f.txt;size=3;mime=text/plain", b"titan://h.example/up/f.txt;size=0", b"titan://h.example/app/x;size=2;token=t",
             # Titan lines whose path part holds ';' itself (fields that are no name=value pair, dot segments behind them, empty
             # fields): whatever the parser makes of them, the chain and the upload handler must be shown ONE request
             b"titan://h.example/x;/../app/secret.gmi;size=3", b"titan://h.example/up/notes;draft.gmi;size=2;mime=text/plain",
             b"titan://h.example/pub/;x/../../app/x;size=3;token=t", b"titan://h.example/a;b/c;size=0", b"titan://h.example/up/f.txt;;size=2",
             b"titan://h.example/app;v=1/../up/f.txt;size=3;mime=text/plain"]


TITAN_FIELDS = ("size", "mime", "token")


def oracle_same_request(case, obs):
    """`The chain is consulted with ... the request URL`: the URL the chain was asked about and the request the (upload) handler
    was then handed are one and the same request - same host, port and path (Gemini: and query).  Stated on what the two spies
    saw, with no parser of /repo in between: the chain's URL is taken apart with urlsplit; for Titan the parameters the server
    appends (;size=..;mime=..[;token=..]) may follow the handler's path, nothing else may."""
    if "line" not in case or not obs.get("mwargs") or not obs.get("hargs"):
        return None
    from urllib.parse import urlsplit

    url = obs["mwargs"][0][0]
    host, port, path, query, _raw = obs["hargs"][0]
    what = f"the chain was consulted about {url!r} but the {'upload ' if obs['u'] else ''}handler was handed host={host!r} port={port!r} path={path!r}" + (f" query={query!r}" if query else "")
    try:
        u = urlsplit(url)
        uhost, uport, upath = u.hostname, (u.port if u.port is not None else 1965), (u.path or "/")
    except ValueError:
        return ("mw-args", what + " (the chain's URL cannot even be split)")
    if (uhost or "").lower() != (host or "").lower() or uport != port:
        return ("mw-args", what)
    if url.startswith("titan://"):
        rest = upath[len(path):] if upath.startswith(path) else (upath if path == "/" and upath.startswith(";") else None)
        fields = [f for f in rest[1:].split(";")] if rest and rest.startswith(";") else []
        if rest is None or (rest and not rest.startswith(";")) or any(f.partition("=")[0].strip() not in TITAN_FIELDS or "=" not in f for f in fields):
            return ("mw-args", what + ": these are two different resources")
    elif upath != path or (query is not None and u.query != query):
        return ("mw-args", what + ": these are two different resources")
    return None


class Gate(ConnFamily):
    """scripted chain verdicts in every order relative to reads, timer and disconnect; spy handlers"""

    name = "gate"
    quick_n = 3000
    thorough_n = 60000

    def gen(self, rng: random.Random, n: int):
        for i in range(n):
            c = gen_orderly(rng) if i % 2 == 0 else gen_case(rng)
            c["mw"] = True
            make_racy = i % 3 == 0
            if rng.random() < 0.5:
                # a valid request with a chosen peer and certificate, so that the chain's arguments can be checked
                line = rng.choice(REQ_LINES)
                content = b"abc" if b"size=3" in line else b"xy" if b"size=2" in line else b""
                c["evs"] = [["d", (line + b"\r\n" + content).hex()]] + [e for e in c["evs"] if e[0] != "d"]
                c["up"] = True
                c["cert"] = rng.choice([None, 0, 1, 2, 3, 0, 3])
                c["peer"] = rng.choice(["192.0.2.7", "2001:db8::5", "10.1.2.3"])
                c["line"] = line.decode()
            if "line" in c and c["line"].startswith("titan") and b"size=0" not in line and i % 2 == 1:
                # the Titan request line first, a verdict racing with the read that completes the body
                whole = line + b"\r\n" + content
                cutp = rng.randint(len(line) + 2, len(whole) - 1)
                verdict = rng.choice([["md!", "53 Access denied\r\n"], ["mr!"], ["mn!"], ["ma!"], ["md", "53 Access denied\r\n"], ["ma"]])
                c["evs"] = [["d", whole[:cutp].hex()], verdict, ["d", whole[cutp:].hex()], rng.choice([["ma"], ["md", "61 no\r\n"], ["mr"]]),
                            ["ua", [20, "text/gemini", None]]]
                make_racy = False
            if make_racy:
                # a verdict (or a completion) and the read / disconnect that follows land in the same loop iteration
                if "line" in c and rng.random() < 0.5:
                    c["evs"].insert(rng.randint(1, len(c["evs"])), ["d", "5a5a"])
                c = racy(rng, c)
            yield c

    def impl(self, case):
        # self-contained history: when the peer presents certificate 0 or its look-alike 3, another connection
        # presenting the other one of the pair comes first (anything cached per issuer/serial would now be stale)
        if case.get("cert") in (0, 3) and "line" in case:
            loop = get_loop()
            first = dict(case)
            first["cert"] = 3 - case["cert"]
            loop.run_until_complete(sim.run_conn(loop, first))
        return ConnFamily.impl(self, case)

    def oracle(self, case, obs):
        v = self.oracle_gated(case, obs) or self.oracle_once(case, obs)
        if v:
            return v
        if "line" in case and obs["mwargs"]:
            from nauyaca.protocol.request import GeminiRequest, TitanRequest

            line = case["line"]
            want_url = (TitanRequest.from_line(line) if line.startswith("titan://") else GeminiRequest.from_line(line)).normalized_url
            want_fp = None if case.get("cert") is None else sim.cert_pool()[case["cert"]][1]
            got = obs["mwargs"][0]
            gfp = got[2]
            if got[0] != want_url or got[1] != case["peer"] or (gfp or None) != want_fp:
                return ("mw-args", f"chain consulted with {got}, expected url={want_url!r} ip={case['peer']!r} fingerprint={want_fp!r}")
            v = oracle_same_request(case, obs)
            if v:
                return v
        # a deny verdict consumed while the chain was pending must be what the client receives
        return None


def _delay(spec):
    """seconds a scripted component takes before it answers (outcome `slow`), 0 for every other component"""
    return spec[3] if spec[0] in ("allow", "deny", "raise") and len(spec) > 3 else 0


def _mk_component(spec, loop):
    """a real or scripted middleware component from a JSON spec"""
    from nauyaca.server.middleware import (AccessControl, AccessControlConfig, CertificateAuth, CertificateAuthConfig,
                                           CertificateAuthPathRule, RateLimitConfig, RateLimiter)

    k = spec[0]
    if k == "acl":
        return AccessControl(AccessControlConfig(allow_list=spec[1], deny_list=spec[2], default_allow=spec[3]))
    if k == "rate":
        return RateLimiter(RateLimitConfig(capacity=spec[1], refill_rate=1.0, retry_after=spec[2]))
    if k == "cert":
        fps = None if spec[3] is None else {sim.cert_pool()[i][1] for i in spec[3]}
        return CertificateAuth(CertificateAuthConfig(path_rules=[CertificateAuthPathRule(prefix=spec[1], require_cert=spec[2], allowed_fingerprints=fps)]))

    if k == "quota":
        from ..sim.mw_multi import Quota

        return Quota(spec[1], spec[2], spec[3])

    class Scripted:
        async def process_request(self, url, ip, fp=None):
            if len(spec) > 3 and spec[3]:
                await asyncio.sleep(spec[3])       # outcome `slow`: seconds of the event loop's clock (virtual: `tick` events)
            for _ in range(spec[2] if len(spec) > 2 else 0):
                await asyncio.sleep(0)
            if k == "allow":
                return True, None
            if k == "deny":
                return False, spec[1]
            raise RuntimeError("component\nfailed")

    return Scripted()


class Chain(ConnFamily):
    """chains built from the real RateLimiter, AccessControl, CertificateAuth and scripted components in every
    order; the reference verdict is the first rejecting component evaluated on its own"""

    name = "chain"
    quick_n = 2500
    thorough_n = 40000

    def gen(self, rng: random.Random, n: int):
        pool = [
            ["acl", ["192.0.2.0/24"], None, True], ["acl", None, ["192.0.2.7"], True], ["acl", None, None, False], ["acl", ["2001:db8::/32"], None, True],
            ["rate", 1, 30], ["rate", 0, 7], ["rate", 5, 1],
            ["cert", "/app/", True, None], ["cert", "/", False, [0]], ["cert", "/up/", True, [1, 2]], ["cert", "/app/", False, []],
            ["allow", None, 0], ["allow", None, 2], ["deny", "51 Not here\r\n", 0], ["deny", "53 Go away\r\n", 3], ["deny", None, 1], ["raise", None, 0], ["raise", None, 2],
        ]
        # outcome `slow`: components that take seconds, minutes of the loop's clock before they allow, deny or raise (a lookup that
        # hangs, a lock held elsewhere); the clock moves by `tick` events (eighths of a second) after the request is complete
        slow = [[k, r, y, d] for k, r in (("allow", None), ("deny", "53 Go away\r\n"), ("deny", "51 Not here\r\n"), ("deny", None), ("raise", None))
                for y in (0, 2) for d in (0.5, 2.5, 4.0, 6.0, 7.0, 12.0, 30.0, 75.0, 600.0)]
        for i in range(n):
            comps = [rng.choice(pool) for _ in range(rng.randint(1, 3))]
            timed = i % 4 == 1
            if timed:
                for _ in range(rng.choice((1, 1, 2))):
                    comps[rng.randrange(len(comps))] = rng.choice(slow)
                if len(comps) < 3 and rng.random() < 0.3:
                    comps.append(rng.choice(slow))
            line = rng.choice(REQ_LINES)
            content = b"abc" if b"size=3" in line else b"xy" if b"size=2" in line else b""
            stream = line + b"\r\n" + content + (b"EXTRA" if rng.random() < 0.2 else b"")
            cut = rng.randint(1, len(stream) - 1)
            evs = [["d", stream[:cut].hex()], ["d", stream[cut:].hex()]]
            hk = rng.choice(["s", "a"])
            handler = ["s", [20, "text/gemini", ["s", "served"]]] if hk == "s" else ["a"]
            tail = [["ha", [20, "text/gemini", ["s", "late"]]], ["ua", [20, "text/gemini", None]]]
            if rng.random() < 0.2:
                tail.insert(0, rng.choice([["l"], ["tick", 300]]))
            if timed:
                total = sum(_delay(s) for s in comps)
                r = rng.random()
                if r < 0.3:        # one jump of the clock past everything
                    ticks = [int(total * 8) + rng.choice((1, 8, 800))]
                elif r < 0.6:      # second by second (at most 40 steps), then the rest
                    ticks = [8] * min(40, int(total) + 2) + [max(8, int(total * 8))]
                elif r < 0.85:     # uneven steps
                    ticks = [rng.choice((1, 7, 8, 20, 39, 40, 41, 100, 240, 1000)) for _ in range(rng.randint(1, 12))] + ([int(total * 8) + 8] if rng.random() < 0.6 else [])
                else:              # not enough time: the chain has not decided when the case ends
                    ticks = [max(1, int(total * 8) // rng.choice((2, 3, 8)))]
                tail = tail[:-2] + [["tick", t] for t in ticks] + tail[-2:]
            yield {"mw": True, "up": True, "handler": handler, "evs": evs + tail, "chain": comps, "line": line.decode(),
                   "cert": rng.choice([None, 0, 1, 2, 3, 0, 3]), "peer": rng.choice(["192.0.2.7", "2001:db8::5", "10.1.2.3"])}

    def _verdict(self, case, when=False):
        """reference: evaluate every component on its own, in order; first non-allow decides.  With `when`: (verdict, position in
        the event list at which the chain can have decided at the earliest - None: not within this case): a component that takes
        d seconds answers during the first `tick` event that brings the loop's clock to d seconds after it was asked"""
        from nauyaca.protocol.request import GeminiRequest, TitanRequest

        loop = get_loop()
        line = case["line"]
        try:
            url = (TitanRequest.from_line(line) if line.startswith("titan://") else GeminiRequest.from_line(line)).normalized_url
        except ValueError:
            url = line         # (a tree that refuses one of REQ_LINES: the model and `mw-not-consulted` speak about that)
        fp = None if case.get("cert") is None else sim.cert_pool()[case["cert"]][1]
        evs = case["evs"]
        pos, clock = 2, 0          # the real chain starts while the loop drains after the read that completes the request
        verdict = ["ma"]
        for spec in case["chain"]:
            delay = _delay(spec)
            if delay:
                due = clock + int(delay * 8)
                while pos is not None and clock < due:
                    nxt = next((i for i in range(pos, len(evs)) if evs[i][0] == "tick"), None)
                    if nxt is None:
                        pos = None
                    else:
                        clock += evs[nxt][1]
                        pos = nxt + 1
                clock = max(clock, due) if pos is None else clock
            comp = _mk_component(spec[:3] if delay else spec, loop)
            try:
                ok, resp = loop.run_until_complete(comp.process_request(url, case["peer"], fp))
            except Exception:
                verdict = ["mr"]
                break
            if not ok:
                verdict = ["mn"] if resp is None else ["md", resp]
                break
        return (verdict, pos) if when else verdict

    def _with_verdict(self, case):
        c = dict(case)
        evs = list(case["evs"])
        verdict, pos = self._verdict(case, when=True)
        if pos is not None:
            evs.insert(pos, verdict)
        c["evs"] = evs
        return c

    def impl(self, case):
        from nauyaca.server.middleware import MiddlewareChain

        loop = get_loop()
        chain = MiddlewareChain([_mk_component(s, loop) for s in case["chain"]])
        seen = []
        orig = chain.process_request

        async def spy(url, ip, fp=None):
            seen.append([url, ip, fp])
            return await orig(url, ip, fp)

        chain.process_request = spy  # type: ignore[method-assign]
        o = loop.run_until_complete(sim.run_conn(loop, case, middleware=chain))
        o["m"] = len(seen)
        o["mwargs"] = seen
        # a component that is still waiting for its time when the case ends must not wake up during a later case on this loop
        left = [t for t in asyncio.all_tasks(loop) if not t.done()]
        for t in left:
            t.cancel()
        if left:
            loop.run_until_complete(sim._drain())
        return o

    def model(self, case):
        return sim.enc_case(self._with_verdict(case))

    def expect(self, case, out):
        e = parse_model(out)
        # the model has one event more (the verdict) than the implementation run
        pos = self._verdict(case, when=True)[1]
        if pos is not None:
            e["lens"] = e["lens"][:pos] + e["lens"][pos + 1:]
        return e

    def same(self, exp, obs):
        # response timing relative to the two reads differs by the inserted verdict event: compare the rest
        exp2 = dict(exp)
        exp2["lens"] = obs["lens"]
        return ConnFamily.same(self, exp2, obs)

    def oracle(self, case, obs):
        v = self.oracle_once(case, obs)
        if v:
            return v
        verdict, pos = self._verdict(case, when=True)
        lost_first = False
        raw = b"".join(bytes.fromhex(a[1]) for a in obs["acts"] if a[0] == "w")
        pr = sim.parse_response(raw) if raw else None
        if pos is None and (obs["h"] or obs["u"]):
            secs = sum(e[1] for e in case["evs"] if e[0] == "tick") / 8
            return ("handler-ungated", f"the chain cannot have decided yet ({secs} s have passed since the request; components {[s for s in case['chain'] if _delay(s)]} take their "
                                       f"time one after the other; the verdict will be {verdict}), yet handler={obs['h']} upload={obs['u']} ran")
        v = oracle_same_request(case, obs)
        if v:
            return v
        if verdict[0] != "ma":
            if obs["h"] or obs["u"]:
                secs = sum(e[1] for e in case["evs"] if e[0] == "tick") / 8
                return ("handler-ungated", f"chain {case['chain']} asked about {case['line']!r} from {case['peer']} (certificate {case.get('cert')}): its components, each evaluated on its own "
                                           f"in order, give the verdict {verdict}, yet handler={obs['h']} upload={obs['u']} ran (client got {raw[:40]!r}; {secs} s of loop time passed after the request)")
            if verdict[0] == "md" and pr is not None:
                want = verdict[1][:2]
                if want.isdigit() and not (20 <= int(want) <= 29) and pr[0] != int(want):
                    return ("wrong-rejection", f"first rejecting component answered {verdict[1]!r}, client got {raw[:60]!r}")
            if pr is not None and 20 <= pr[0] <= 29:
                return ("refused-got-success", f"chain refused ({verdict}) but the client got {raw[:40]!r}")
        if obs["m"] != 1:
            return ("mw-not-consulted", f"chain consulted {obs['m']} times for a valid request")
        return None

    def key(self, case, obs):
        raw = b"".join(bytes.fromhex(a[1]) for a in obs["acts"] if a[0] == "w")
        return f"{'titan' if case['line'].startswith('titan') else 'gemini'}|{'+'.join(s[0] + ('~t' if _delay(s) else '') for s in case['chain'])}|{raw[:2].decode('latin1')}|h{obs['h']}u{obs['u']}"


class PumpGate(PumpFamily):
    """PyOpenSSL backend (the one used when client certificates are requested): the chain sees the fingerprint of
    the certificate actually presented in the handshake, and handlers stay gated"""

    name = "pumpgate"
    quick_n = 150
    thorough_n = 3000

    def gen(self, rng, n):
        for _ in range(n):
            c = gen_pump_case(rng)
            c["mw"] = True
            if not any(e[0] in ("ma", "mr", "md", "mn") for e in c["post"]):
                c["post"].insert(0, rng.choice([["ma"], ["mr"], ["md", "60 Client certificate required\r\n"], ["mn"]]))
            yield c

    def oracle(self, case, obs):
        from ..sim import pump as P

        allowed = any(e[0] == "ma" for e in case["post"])
        if (obs["h"] or obs["u"]) and not allowed:
            return ("handler-ungated", f"handler ran although the chain never admitted the request: {obs['order']}")
        if obs["order"] and obs["order"][0] in ("h", "u"):
            return ("handler-ungated", f"handler ran before the chain was consulted: {obs['order']}")
        if obs["mwargs"]:
            want = None if case.get("cert") is None else P.env()[1][case["cert"]][2]
            got = obs["mwargs"][0]
            if got[2] != want or got[1] != "198.51.100.9":
                return ("mw-args", f"chain consulted with ip={got[1]!r} fingerprint={got[2]!r}; the peer is 198.51.100.9 and presented {want!r}")
        return self.oracle_once(case, obs)


CONC_LINES = ["gemini://h.example/", "gemini://h.example/app/secret.gmi", "gemini://h.example/app/secret.gmi?x=1", "gemini://H.Example:1965/app/../app/secret.gmi",
              "titan://h.example/app/x;size=2;token=t", "titan://h.example/up/f.txt;size=3;mime=text/plain", "titan://h.example/up/f.txt;size=0"]
CONC_PEERS = ["192.0.2.7", "192.0.2.7", "192.0.2.8", "2001:db8::5"]
STATEFUL = ("rate", "quota")


class Concurrent(Family):
    """several connections of one server, one shared chain: request lines delivered in the same event-loop iteration
    or while an earlier evaluation is still pending (slow components), stateful components (real RateLimiter, scripted
    quota) behind slow ones, peers with different certificates asking for the same URL.

    Direct oracle (no Lean line), per connection and per class of requests (URL, peer address, fingerprint):
      * a connection whose request a stateless component (real AccessControl / CertificateAuth, scripted constant),
        evaluated on its own with THIS connection's address, URL and presented certificate, refuses: no handler, no 2x,
        and the status of that component unless a stateful component in front of it refused first;
      * every handler run is covered by an `allow` of EVERY component for that very request: for each class, handler
        runs <= number of allow verdicts each component gave for that class (components are spied on individually);
      * the chain is consulted once per complete request, with that connection's address, URL and fingerprint."""

    name = "concurrent"
    quick_n = 2400
    thorough_n = 40000

    SLOW = [["allow", None, 1], ["allow", None, 2], ["allow", None, 3], ["allow", None, 5]]
    STATE = [["rate", 1, 30], ["rate", 2, 9], ["rate", 0, 7], ["quota", 1, "53 Quota used up\r\n", 0], ["quota", 2, "44 Later\r\n", 1], ["quota", 1, None, 2]]
    PLAIN = [["acl", ["192.0.2.0/24"], None, True], ["acl", None, ["192.0.2.7"], True], ["acl", None, None, False],
             ["cert", "/app/", True, None], ["cert", "/", False, [0]], ["cert", "/app/", True, [0]], ["cert", "/up/", True, [1, 2]], ["cert", "/app/", False, []],
             ["allow", None, 0], ["deny", "51 Not here\r\n", 0], ["deny", "53 Go away\r\n", 3], ["deny", None, 1], ["raise", None, 0], ["raise", None, 2]]

    FIXED = [
        # three connections of one peer ask for one URL while a slow component is still looking at the first
        {"chain": [["allow", None, 3], ["rate", 1, 30]], "conns": [{"peer": "192.0.2.7", "line": CONC_LINES[1], "cert": None}] * 3,
         "sched": [["d", 0], ["y", 1], ["d", 1], ["d", 2]]},
        # same URL, same loop iteration: the first peer presents no certificate, the second an authorised one
        {"chain": [["cert", "/app/", True, [0]]], "conns": [{"peer": "192.0.2.7", "line": CONC_LINES[1], "cert": None}, {"peer": "192.0.2.8", "line": CONC_LINES[1], "cert": 0}],
         "sched": [["d", 0], ["d", 1]]},
        {"chain": [["quota", 1, "53 Quota used up\r\n", 2], ["acl", None, ["192.0.2.8"], True]],
         "conns": [{"peer": "192.0.2.7", "line": CONC_LINES[4], "cert": 3}, {"peer": "192.0.2.7", "line": CONC_LINES[4], "cert": 3}, {"peer": "192.0.2.8", "line": CONC_LINES[4], "cert": 0}],
         "sched": [["d", 2], ["d", 0], ["y", 2], ["d", 1]]},
    ]

    def setup(self):
        from ..sim import mw_clock, mw_multi

        self.M, self.clock = mw_multi, mw_clock

    def gen(self, rng: random.Random, n: int):
        k = 0
        for c in self.share(self.FIXED):
            k += 1
            yield c
        while k < n:
            k += 1
            r = rng.random()
            if r < 0.4:      # something that waits in front of something that counts
                comps = [rng.choice(self.SLOW), rng.choice(self.STATE)]
                if rng.random() < 0.4:
                    comps.insert(rng.randint(0, 2), rng.choice(self.PLAIN))
            elif r < 0.7:    # certificate / address rules, possibly slow or counting neighbours
                comps = [rng.choice(self.PLAIN[:8])] + [rng.choice(self.SLOW + self.STATE + self.PLAIN) for _ in range(rng.randint(0, 2))]
                rng.shuffle(comps)
            else:
                comps = [rng.choice(self.SLOW + self.STATE + self.PLAIN) for _ in range(rng.randint(1, 3))]
            nconn = rng.choice((2, 2, 3, 3, 4, 5))
            base = {"peer": rng.choice(CONC_PEERS), "line": rng.choice(CONC_LINES), "cert": rng.choice((None, None, 0, 1, 3))}
            conns = []
            for _ in range(nconn):
                c = dict(base)
                q = rng.random()
                if q < 0.35:
                    c["cert"] = rng.choice((None, 0, 0, 1, 2, 3))
                elif q < 0.5:
                    c["peer"] = rng.choice(CONC_PEERS)
                elif q < 0.6:
                    c["line"] = rng.choice(CONC_LINES)
                elif q < 0.65:
                    c = {"peer": rng.choice(CONC_PEERS), "line": rng.choice(CONC_LINES), "cert": rng.choice((None, 0, 1, 3))}
                conns.append(c)
            order = list(range(nconn))
            rng.shuffle(order)
            sched = []
            for i in order:
                sched.append(["d", i])
                y = rng.choice((0, 0, 0, 1, 1, 2, 3, 4, 8))
                if y:
                    sched.append(["y", y])
            yield {"chain": comps, "conns": conns, "sched": sched}

    def impl(self, case):
        loop = get_loop()
        comps = [_mk_component(s, loop) for s in case["chain"]]
        with self.clock.patched_time(lambda: 5000.0):
            return loop.run_until_complete(self.M.run_multi(loop, case, comps))

    @staticmethod
    def args_of(conn):
        from nauyaca.protocol.request import GeminiRequest, TitanRequest

        line = conn["line"]
        url = (TitanRequest.from_line(line) if line.startswith("titan://") else GeminiRequest.from_line(line)).normalized_url
        return [url, conn["peer"], None if conn.get("cert") is None else sim.cert_pool()[conn["cert"]][1]]

    def stateless_verdict(self, spec, args):
        loop = get_loop()
        comp = _mk_component([spec[0], spec[1], 0] if spec[0] in ("allow", "deny", "raise") else spec, loop)
        try:
            ok, resp = loop.run_until_complete(comp.process_request(*args))
        except Exception:  # noqa: BLE001
            return ("raise", None)
        return ("allow", None) if ok else ("deny", resp)

    def oracle(self, case, obs):
        specs = case["chain"]
        names = [f"#{j} {s[0]}{s[1:]}" for j, s in enumerate(specs)]
        args = [self.args_of(c) for c in case["conns"]]
        for i, (cn, a, r) in enumerate(zip(case["conns"], args, obs["conns"])):
            what = f"connection {i} ({cn['line']!r} from {cn['peer']}, certificate {cn.get('cert')})"
            if r["h"] + r["u"] > 1:
                return ("handler-twice", f"{what}: handler invoked {r['h']}x and upload handler {r['u']}x")
            earlier = set()
            for j, s in enumerate(specs):
                if s[0] in STATEFUL:
                    earlier.add("44" if s[0] == "rate" else (s[2] or "40")[:2])
                    continue
                v = self.stateless_verdict(s, a)
                if v[0] == "allow":
                    continue
                if r["h"] or r["u"]:
                    return ("handler-ungated", f"{what}: component {names[j]}, asked on its own with this connection's address, URL and fingerprint {a[2]!r}, "
                                               f"{'raises' if v[0] == 'raise' else 'refuses (' + repr(v[1]) + ')'}, yet the handler ran (handler={r['h']} upload={r['u']}, client got {r['st']!r}); "
                                               f"chain {names}, schedule {case['sched']}, the chain was consulted with {obs['consults']}")
                if r["st"][:1] == "2":
                    return ("refused-got-success", f"{what}: component {names[j]} refuses the request but the client got {r['st']!r}")
                want = (v[1] or "")[:2] if v[0] == "deny" else ""
                if want.isdigit() and not 20 <= int(want) <= 29 and r["st"] not in earlier | {want}:
                    return ("wrong-rejection", f"{what}: the first component that refuses is {names[j]} ({v[1]!r}) but the client received status {r['st']!r}")
                break
        # a counting component bounds the handler runs: the real RateLimiter (clock frozen during the case) admits at most
        # `capacity` requests of one address, the scripted quota at most k requests altogether
        for j, s in enumerate(specs):
            if s[0] == "rate":
                for peer in sorted({c["peer"] for c in case["conns"]}):
                    runs = sum(r["h"] + r["u"] for c, r in zip(case["conns"], obs["conns"]) if c["peer"] == peer)
                    if runs > s[1]:
                        return ("handler-over-limit", f"{runs} handler runs for requests from {peer} at one instant although the chain holds {names[j]} (capacity {s[1]}: it refuses every further request "
                                                      f"of that address with 44); statuses {[r['st'] for r in obs['conns']]}, chain {names}, connections {case['conns']}, schedule {case['sched']}, "
                                                      f"the limiter was shown {[e[1][1] + ':' + e[2] for e in obs['comp'] if e[0] == j]}")
            elif s[0] == "quota":
                runs = sum(r["h"] + r["u"] for r in obs["conns"])
                if runs > s[1]:
                    return ("handler-over-limit", f"{runs} handler runs although the chain holds {names[j]}, which admits {s[1]} request(s) and refuses every later one with {s[2]!r}; "
                                                  f"statuses {[r['st'] for r in obs['conns']]}, chain {names}, connections {case['conns']}, schedule {case['sched']}, "
                                                  f"the component was shown {[e[2] for e in obs['comp'] if e[0] == j]}")
        # every handler run is covered by an allow of every component for that very request
        classes: dict = {}
        for a, r in zip(args, obs["conns"]):
            classes[tuple(a)] = classes.get(tuple(a), 0) + r["h"] + r["u"]
        for a, runs in classes.items():
            for j in range(len(specs)):
                shown = [e for e in obs["comp"] if e[0] == j and tuple(e[1]) == a]
                allows = sum(1 for e in shown if e[2] == "allow")
                if runs > allows:
                    n_same = sum(1 for x in args if tuple(x) == a)
                    return ("handler-ungated", f"{runs} handler runs for the {n_same} connection(s) asking {a[0]!r} from {a[1]} with fingerprint {a[2]!r}, but component {names[j]} "
                                               f"was shown such a request {len(shown)} time(s) and admitted {allows} (its answers: {[e[2] for e in shown]}); statuses {[r['st'] for r in obs['conns']]}, "
                                               f"chain {names}, schedule {case['sched']}")
        want = sorted(json.dumps(a) for a in args)
        got = sorted(json.dumps([c[0], c[1], c[2] or None]) for c in obs["consults"])
        if want != got:
            return ("mw-args", f"the chain was consulted with {obs['consults']}; the connections are {args} (address, URL and fingerprint of the certificate each presented); schedule {case['sched']}")
        return None

    def key(self, case, obs):
        kinds = [s[0] + ("~" if (s[0] in ("allow", "deny", "raise") and s[2]) or (s[0] == "quota" and s[3]) else "") for s in case["chain"]]
        args = [json.dumps(self.args_of(c)) for c in case["conns"]]
        same = "dup" if len(set(args)) < len(args) else "distinct"
        back2back = any(a[0] == "d" and b[0] == "d" for a, b in zip(case["sched"], case["sched"][1:]))
        slow_first = any(k.endswith("~") for k in kinds[:-1]) and any(s[0] in STATEFUL for s in case["chain"][1:])
        sts = "".join(sorted({r["st"][:1] or "-" for r in obs["conns"]}))
        return f"{'+'.join(kinds)}|{same}|{'same-iter' if back2back else 'spaced'}|{'slow>state|' if slow_first else ''}st={sts}"

    def shrink(self, case, bad):
        cur = case
        budget = 60
        changed = True
        while changed and budget > 0:
            changed = False
            cands = []
            for i in range(len(cur["conns"])):
                if len(cur["conns"]) > 1:
                    sched = [[e[0], e[1] - (e[1] > i)] if e[0] == "d" else e for e in cur["sched"] if not (e[0] == "d" and e[1] == i)]
                    cands.append({"chain": cur["chain"], "conns": cur["conns"][:i] + cur["conns"][i + 1:], "sched": sched})
            for j in range(len(cur["chain"])):
                if len(cur["chain"]) > 1:
                    cands.append({"chain": cur["chain"][:j] + cur["chain"][j + 1:], "conns": cur["conns"], "sched": cur["sched"]})
            for cand in cands:
                budget -= 1
                if budget <= 0:
                    break
                try:
                    if bad(cand):
                        cur, changed = cand, True
                        break
                except Exception:  # noqa: BLE001
                    pass
        return cur


class PumpPair(Family):
    """PyOpenSSL backend, several connections of one server open AT THE SAME TIME (real TLSServerProtocol objects from one
    server context, real TLS clients over memory BIOs, ONE shared real chain): the stages of the connections - TCP connect,
    first flight, end of the handshake (certificate presented or not), the pieces of the request, loss of the connection -
    are interleaved in a chosen order, so that whatever the backend keeps per connection (peer address, presented
    certificate, TLS object, inner protocol) is read while ANOTHER connection has just written its own.

    Direct oracle (no Lean line), per connection i with ITS address, ITS request and the certificate IT presented:
      * every question connection i's protocol puts to the chain carries exactly these three (`mw-args`), and a
        connection that was never lost and sent a complete request asks exactly once;
      * no handler runs on connection i before its protocol has consulted the chain, nor when a component of the chain
        (real AccessControl / CertificateAuth, scripted constant), asked on its own with these three, refuses or raises;
        the client then receives no 2x and - if it still listens - the status of the first refusing component."""

    name = "pumppair"
    quick_n = 480
    thorough_n = 6000

    CERTS = (None, None, 0, 0, 1, 2, 3, 4)
    PLAIN = [["cert", "/app/", True, [0]], ["cert", "/app/", True, [0]], ["cert", "/", True, None], ["cert", "/", False, [0]], ["cert", "/", True, [3]], ["cert", "/up/", True, [1, 2]],
             ["cert", "/app/", True, [4]], ["cert", "/app/", False, []], ["cert", "/", False, [1]],
             ["acl", ["192.0.2.7/32"], None, True], ["acl", None, ["192.0.2.7"], True], ["acl", ["2001:db8::/32"], None, True], ["acl", None, ["192.0.2.8", "2001:db8::5"], True]]
    OTHER = [["allow", None, 0], ["allow", None, 2], ["allow", None, 5], ["deny", "53 Go away\r\n", 0], ["deny", "51 Not here\r\n", 2], ["raise", None, 0], ["raise", None, 1]]

    FIXED = [
        # B (no certificate) completes its handshake, then A (authorised certificate) completes its own, then B asks
        {"chain": [["cert", "/app/", True, [0]]], "conns": [{"peer": "192.0.2.7", "line": CONC_LINES[1], "cert": None, "cuts": []}, {"peer": "192.0.2.8", "line": CONC_LINES[1], "cert": 0, "cuts": []}],
         "sched": [["s", 0], ["s", 0], ["s", 0], ["y", 2], ["s", 1], ["s", 1], ["s", 1], ["y", 2], ["s", 0], ["y", 4], ["s", 1]]},
        # the other way round: A is authorised, B (a certificate that is not on the list) finishes its handshake just before A asks
        {"chain": [["cert", "/", True, [0]]], "conns": [{"peer": "192.0.2.7", "line": CONC_LINES[5], "cert": 0, "cuts": [9]}, {"peer": "192.0.2.7", "line": CONC_LINES[0], "cert": 3, "cuts": []}],
         "sched": [["s", 0], ["s", 0], ["s", 0], ["s", 0], ["s", 1], ["s", 1], ["s", 1], ["s", 0], ["y", 3], ["s", 1]]},
        # address rules: the refused address connects and shakes hands first, the admitted one in between
        {"chain": [["acl", None, ["192.0.2.7"], True]], "conns": [{"peer": "192.0.2.7", "line": CONC_LINES[0], "cert": None, "cuts": []}, {"peer": "192.0.2.8", "line": CONC_LINES[0], "cert": None, "cuts": []}],
         "sched": [["s", 0], ["s", 0], ["s", 1], ["s", 1], ["s", 0], ["s", 1], ["s", 0], ["y", 1], ["s", 1]]},
        # the authorised peer goes away while the other one has not asked yet
        {"chain": [["allow", None, 2], ["cert", "/app/", True, [1, 2]]], "conns": [{"peer": "2001:db8::5", "line": CONC_LINES[4], "cert": 4, "cuts": [30]}, {"peer": "2001:db8::5", "line": CONC_LINES[4], "cert": 2, "cuts": []}],
         "sched": [["s", 0], ["s", 0], ["s", 0], ["s", 0], ["s", 1], ["s", 1], ["s", 1], ["x", 1], ["s", 0], ["y", 6]]},
    ]

    def setup(self):
        from ..sim import pump, pump_multi

        self.P, self.M = pump, pump_multi

    def gen(self, rng: random.Random, n: int):
        k = 0
        for c in self.share(self.FIXED):
            k += 1
            yield c
        while k < n:
            k += 1
            comps = [rng.choice(self.PLAIN)] + [rng.choice(self.PLAIN + self.OTHER) for _ in range(rng.choice((0, 0, 1, 1, 2)))]
            rng.shuffle(comps)
            nconn = rng.choice((2, 2, 2, 3, 3, 4))
            base = {"peer": rng.choice(CONC_PEERS), "line": rng.choice(CONC_LINES)}
            conns = []
            for _ in range(nconn):
                c = dict(base, cert=rng.choice(self.CERTS))
                if rng.random() < 0.5:
                    c["peer"] = rng.choice(CONC_PEERS)
                if rng.random() < 0.3:
                    c["line"] = rng.choice(CONC_LINES)
                size = len(c["line"]) + 2 + (3 if "size=3" in c["line"] else 2 if "size=2" in c["line"] else 0)
                c["cuts"] = [rng.randint(1, size - 1)] if rng.random() < 0.3 else []
                conns.append(c)
            # a random merge of the connections' stages; now and then the stages of one connection stay together up to the
            # end of its handshake (the peer is simply fast), loop iterations in between, a connection that is lost
            todo = [[i] * (4 + len(c["cuts"])) for i, c in enumerate(conns)]
            sched = []
            while any(todo):
                i = rng.choice([j for j, t in enumerate(todo) if t])
                burst = rng.choice((1, 1, 1, 2, 3)) if len(todo[i]) > 1 else 1
                for _ in range(min(burst, len(todo[i]))):
                    todo[i].pop()
                    sched.append(["s", i])
                y = rng.choice((0, 0, 0, 1, 2, 5))
                if y:
                    sched.append(["y", y])
            if rng.random() < 0.2:
                sched.insert(rng.randint(1, len(sched)), ["x", rng.randrange(nconn)])
            yield {"chain": comps, "conns": conns, "sched": sched}

    def component(self, spec):
        if spec[0] == "cert":
            from nauyaca.server.middleware import CertificateAuth, CertificateAuthConfig, CertificateAuthPathRule

            fps = None if spec[3] is None else {self.P.env()[1][i][2] for i in spec[3]}
            return CertificateAuth(CertificateAuthConfig(path_rules=[CertificateAuthPathRule(prefix=spec[1], require_cert=spec[2], allowed_fingerprints=fps)]))
        return _mk_component(spec, get_loop())

    def impl(self, case):
        loop = get_loop()
        comps = [self.component(s) for s in case["chain"]]
        o = loop.run_until_complete(self.M.run_pump_multi(loop, case, comps))
        left = [t for t in asyncio.all_tasks(loop) if not t.done()]
        for t in left:
            t.cancel()
        if left:
            loop.run_until_complete(sim._drain())
        return o

    def args_of(self, conn):
        from nauyaca.protocol.request import GeminiRequest, TitanRequest

        line = conn["line"]
        try:
            url = (TitanRequest.from_line(line) if line.startswith("titan://") else GeminiRequest.from_line(line)).normalized_url
        except ValueError:
            url = line
        return [url, conn["peer"], None if conn.get("cert") is None else self.P.env()[1][conn["cert"]][2]]

    def alone(self, spec, args):
        loop = get_loop()
        comp = self.component([spec[0], spec[1], 0] if spec[0] in ("allow", "deny", "raise") else spec)
        try:
            ok, resp = loop.run_until_complete(comp.process_request(*args))
        except Exception:  # noqa: BLE001
            return ("raise", None)
        return ("allow", None) if ok else ("deny", resp)

    def oracle(self, case, obs):
        specs = case["chain"]
        names = [f"#{j} {s[0]}{s[1:]}" for j, s in enumerate(specs)]
        args = [self.args_of(c) for c in case["conns"]]
        whose = {}
        for i, a in enumerate(args):
            if a[2] is not None:
                whose.setdefault(a[2], []).append(i)
        trace = " ".join(obs["trace"])

        def fp_text(fp):
            if not fp:
                return "no fingerprint"
            own = whose.get(fp)
            return f"fingerprint {fp[:19]}.." + (f" (the certificate connection {own[0]} presented)" if own else " (presented by nobody)")

        for i, (cn, a, r) in enumerate(zip(case["conns"], args, obs["conns"])):
            what = (f"connection {i} ({cn['line']!r} from {cn['peer']}, " + (f"presenting certificate {cn['cert']}" if cn.get("cert") is not None else "NO certificate") + ")")
            asked = [c for c in obs["consults"] if c[0] == i]
            asked_text = "; ".join(f"url={c[1]!r} ip={c[2]!r} {fp_text(c[3])}" for c in asked) or "nothing"
            if r["h"] + r["u"] > 1:
                return ("handler-twice", f"{what}: handler invoked {r['h']}x and upload handler {r['u']}x")
            ran = [k for k, t in enumerate(obs["trace"]) if t in (f"{i}:handler", f"{i}:upload-handler")]
            first_ask = next((k for k, t in enumerate(obs["trace"]) if t == f"{i}:chain-asked"), None)
            if ran and (first_ask is None or first_ask > ran[0]):
                return ("handler-ungated", f"{what}: its handler ran before its protocol had consulted the chain; order of events: {trace}")
            for j, s in enumerate(specs):
                v = self.alone(s, a)
                if v[0] == "allow":
                    continue
                if r["h"] or r["u"]:
                    return ("handler-ungated", f"{what}: the {'upload ' if r['u'] else ''}handler ran (client got {r['st']!r}); for it the chain was asked {asked_text}; asked on its own with this "
                                               f"connection's address, URL and {fp_text(a[2])}, component {names[j]} {'raises' if v[0] == 'raise' else 'refuses (' + repr(v[1]) + ')'}; "
                                               f"pyopenssl backend, order of events: {trace}")
                if r["st"][:1] == "2":
                    return ("refused-got-success", f"{what}: component {names[j]} refuses the request but the client got {r['st']!r}; order of events: {trace}")
                want = (v[1] or "")[:2] if v[0] == "deny" else ""
                if want.isdigit() and not 20 <= int(want) <= 29 and asked and r["st"] != want and not (r["lost"] and r["st"] == ""):
                    return ("wrong-rejection", f"{what}: the first component that refuses is {names[j]} ({v[1]!r}) but the client received status {r['st']!r}; "
                                               f"the chain was asked: {asked_text}; order of events: {trace}")
                break
            for c in asked:
                if [c[1], c[2], c[3] or None] != a:
                    return ("mw-args", f"{what}: the chain was consulted with {asked_text}; the request is {a[0]!r}, the peer's address {a[1]} and it presented {fp_text(a[2])}; "
                                       f"pyopenssl backend, order of events: {trace}")
            if len(asked) > 1 or (r["sent_all"] and not r["lost"] and not asked):
                return ("mw-not-consulted", f"{what}: {'the whole' if r['sent_all'] else 'not the whole'} request reached the server, the chain was consulted {len(asked)} time(s) for it; order of events: {trace}")
        return None

    def key(self, case, obs):
        kinds = "+".join(s[0] for s in case["chain"])
        # did some connection finish its handshake between another one's handshake and that one's (last piece of the) request?
        tr = obs["trace"]
        inter = False
        for i in range(len(case["conns"])):
            try:
                a = tr.index(f"{i}:handshake-done")
                b = max(k for k, t in enumerate(tr) if t.startswith(f"{i}:request"))
            except ValueError:
                continue
            inter = inter or any(t.endswith(":handshake-done") for t in tr[a + 1:b])
        sts = "".join(sorted({r["st"][:1] or "-" for r in obs["conns"]}))
        ids = len({json.dumps(self.args_of(c)[1:]) for c in case["conns"]})
        return f"{kinds}|{'interleaved' if inter else 'apart'}|ids{ids}|lost{int(any(r['lost'] for r in obs['conns']))}|st={sts}"

    def shrink(self, case, bad):
        cur = case
        budget = 80
        changed = True
        while changed and budget > 0:
            changed = False
            cands = []
            for i in range(len(cur["conns"])):
                if len(cur["conns"]) > 1:
                    sched = [[e[0], e[1] - (e[1] > i)] if e[0] in ("s", "x") else e for e in cur["sched"] if not (e[0] in ("s", "x") and e[1] == i)]
                    cands.append({"chain": cur["chain"], "conns": cur["conns"][:i] + cur["conns"][i + 1:], "sched": sched})
            for j in range(len(cur["chain"])):
                if len(cur["chain"]) > 1:
                    cands.append({"chain": cur["chain"][:j] + cur["chain"][j + 1:], "conns": cur["conns"], "sched": cur["sched"]})
            for k, e in enumerate(cur["sched"]):
                if e[0] in ("y", "x"):
                    cands.append({"chain": cur["chain"], "conns": cur["conns"], "sched": cur["sched"][:k] + cur["sched"][k + 1:]})
            for i, c in enumerate(cur["conns"]):
                if c.get("cuts"):
                    # the request in one piece: one stage less for this connection (its last)
                    last = max(k for k, e in enumerate(cur["sched"]) if e == ["s", i])
                    cands.append({"chain": cur["chain"], "conns": cur["conns"][:i] + [dict(c, cuts=[])] + cur["conns"][i + 1:], "sched": cur["sched"][:last] + cur["sched"][last + 1:]})
            for cand in cands:
                budget -= 1
                if budget <= 0:
                    break
                try:
                    if bad(cand):
                        cur, changed = cand, True
                        break
                except Exception:  # noqa: BLE001
                    pass
        return cur


FAMILIES = [Gate(), Chain(), PumpGate(), Concurrent(), PumpPair()]

# configuration file -> real start_server wiring -> request sequences (family `wiring`, harness/props/c04_wiring.py)
from .c04_wiring import Wiring  # noqa: E402

FAMILIES.append(Wiring())
