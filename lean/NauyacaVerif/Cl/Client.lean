namespace Cl
abbrev Bytes := List Nat

/-! # M-Client: `GeminiClientProtocol` / `TitanClientProtocol` (client/protocol.py)

`connection_made` / `send_request` are in M-Session (Misc/Tofu.lean); this file models the receiving
side: `data_received`, `_parse_header`, `connection_lost`.  Both protocol classes have the same logic
(`TitanClientProtocol` has no `decode_text` switch: it always decodes, `decodeText = true`).

Parameters (opaque library behaviour, `Env`): UTF-8 decoding of the header line, the text/* test on
the meta and `bytes.decode(charset)` on the body.  The status token is concrete: exactly two ASCII
digits (`len == 2 and isascii() and isdigit()`), so `int()` is not a parameter.
Environment contract (asyncio): nothing is delivered after `transport.close()` or after the connection
is lost; an exception escaping `data_received` makes the transport call `connection_lost(exc)`. -/

def maxBody : Nat := 10 * 1024 * 1024
def maxHeader : Nat := 2 + 1 + 1024

def findCRLF : Bytes → Option Nat
  | [] => none
  | [_] => none
  | a :: b :: rest => if a = 13 ∧ b = 10 then some 0 else (findCRLF (b :: rest)).map (· + 1)

/-- tail-recursive form used by the compiled driver (header lines of many megabytes) -/
def findGo : Bytes → Nat → Option Nat
  | [], _ => none
  | [_], _ => none
  | a :: b :: rest, n => if a = 13 ∧ b = 10 then some n else findGo (b :: rest) (n + 1)

theorem findGo_eq (l : Bytes) (n : Nat) : findGo l n = (findCRLF l).map (· + n) := by
  fun_induction findCRLF l generalizing n with
  | case1 => rfl
  | case2 => rfl
  | case3 a b rest hc => simp [findGo, hc]
  | case4 a b rest hc ih =>
    rw [findGo, if_neg hc, ih (n + 1)]
    cases findCRLF (b :: rest) with
    | none => rfl
    | some j => simp; omega

def findCRLFTR (l : Bytes) : Option Nat := findGo l 0

@[csimp] theorem findCRLF_eq_findGo : @findCRLF = @findCRLFTR := by
  funext l
  rw [findCRLFTR, findGo_eq]
  cases findCRLF l <;> simp

/-- opaque library behaviour the protocol depends on -/
structure Env where
  /-- `header_line.decode("utf-8")` succeeds? -/
  utf8Ok : Bytes → Bool
  /-- meta says text/* (or is empty) -/
  isText : Bytes → Bool
  /-- decoding the body with the charset named in the meta:
      0 = ok, 1 = UnicodeDecodeError, 2 = LookupError (unknown label), anything else = another codec exception -/
  decodeBody : Bytes → Bytes → Nat

inductive Fut where
  | pending
  /-- `body = some b`: the bytes after the first CRLF; `decoded`: they were decoded with the declared charset -/
  | response (status : Nat) (mta : Bytes) (body : Option Bytes) (decoded : Bool)
  | error (kind : String)
deriving Repr, DecidableEq

structure CSt where
  buf : Bytes := []
  headerReceived : Bool := false
  status : Option Nat := none
  mta : Bytes := []
  fut : Fut := .pending
  closeReq : Bool := false      -- the protocol called `transport.close()`
  crashed : Bool := false       -- an exception escaped `data_received` (asyncio then aborts the transport)
  lost : Bool := false          -- `connection_lost` was called
  decodeText : Bool := true
deriving Repr

inductive CEv where
  | data (c : Bytes)
  | lost (exc : Bool)
deriving Repr

def init (decodeText : Bool) : CSt := { decodeText := decodeText }

def setError (s : CSt) (k : String) : CSt := if s.fut = .pending then { s with fut := .error k } else s

def splitSpace (h : Bytes) : Bytes × Bytes :=
  match h.span (· ≠ 32) with
  | (a, []) => (a, [])
  | (a, _ :: b) => (a, b)

def isDigit (b : Nat) : Bool := 48 ≤ b ∧ b ≤ 57

/-- the status token: exactly two ASCII digits -/
def statusOf : Bytes → Option Nat
  | [a, b] => if isDigit a ∧ isDigit b then some ((a - 48) * 10 + (b - 48)) else none
  | _ => none

/-- the header line has a SP separator (`len(parts) == 2`) -/
def hasSep (h : Bytes) : Bool := h.contains 32

/-- a bare CR or LF in the meta -/
def metaBad (m : Bytes) : Bool := m.contains 13 || m.contains 10

/-- meta is mandatory for 1x–3x; it never contains CR or LF -/
def headerBad (h : Bytes) (st : Nat) : Bool := (!hasSep h && decide (st < 40)) || metaBad (splitSpace h).2

/-- `_parse_header` -/
def parseHeader (s : CSt) (h : Bytes) : CSt :=
  match statusOf (splitSpace h).1 with
  | none => setError s "badStatus"
  | some st =>
    if headerBad h st then setError s "badHeader"
    else if 10 ≤ st ∧ st < 70 then { s with status := some st, mta := (splitSpace h).2 }
    else setError { s with status := some st, mta := (splitSpace h).2 } "statusRange"

def capCheck (s : CSt) : CSt :=
  if s.buf.length > maxBody then { setError s "tooBig" with closeReq := true } else s

/-- header line longer than the protocol allows -/
def tooLong (s : CSt) : CSt := { setError s "headerTooLong" with headerReceived := true, closeReq := true }

/-- `header_line.decode("utf-8")` raised inside `data_received`: asyncio aborts the transport and calls
    `connection_lost(exc)`, which hands the exception to the caller -/
def crash (s : CSt) : CSt := { setError s "headerUtf8" with crashed := true }

/-- `_deliver_header_only`: a non-success response is complete with its header - the call is resolved at once
    (fix 8049c3f: before, it was resolved by `connection_lost`, i.e. after the TLS teardown, whose outcome
    depended on what else the server sent and when) -/
def deliverHeader (s : CSt) : CSt :=
  if s.fut = .pending then
    match s.status with
    | some st => { s with fut := .response st s.mta none false }
    | none => s
  else s

/-- after `_parse_header`: close on a parse failure or a non-2x status (and look at nothing else of
    this read) - a valid non-2x header is the whole response and is delivered here; otherwise the size cap
    applies to the body so far -/
def afterHeader (s : CSt) : CSt :=
  match s.status with
  | none => { s with closeReq := true }
  | some st => if 20 ≤ st ∧ st < 30 then capCheck s else { deliverHeader s with closeReq := true }

/-- the buffer holds a complete header line ending at index `i` -/
def onHeader (env : Env) (s : CSt) (i : Nat) : CSt :=
  if env.utf8Ok (s.buf.take i) then
    afterHeader { parseHeader s (s.buf.take i) with buf := s.buf.drop (i + 2), headerReceived := true }
  else crash s

/-- `data_received` -/
def onData (env : Env) (s : CSt) (c : Bytes) : CSt :=
  if s.closeReq ∨ s.crashed ∨ s.lost then s     -- the transport delivers nothing after close() / abort / loss
  else if s.headerReceived then capCheck { s with buf := s.buf ++ c }
  else match findCRLF (s.buf ++ c) with
    | none =>
      if (s.buf ++ c).length > maxHeader + 1 then tooLong { s with buf := s.buf ++ c }
      else capCheck { s with buf := s.buf ++ c }
    | some i =>
      if i > maxHeader then tooLong { s with buf := s.buf ++ c }
      else onHeader env { s with buf := s.buf ++ c } i

/-- body decoding at the end of a 2x response -/
def deliver (env : Env) (s : CSt) (st : Nat) : CSt :=
  if env.isText s.mta ∧ s.decodeText then
    match env.decodeBody s.mta s.buf with
    | 0 => { s with fut := .response st s.mta (some s.buf) true }
    | 1 => { s with fut := .error "decode" }
    | 2 => { s with fut := .error "charset" }
    | _ => { s with fut := .error "codec" }
  else { s with fut := .response st s.mta (some s.buf) false }

/-- `connection_lost`, the future still pending -/
def resolve (env : Env) (s : CSt) (exc : Bool) : CSt :=
  if exc then { s with fut := .error "connection" }
  else if !s.headerReceived then { s with fut := .error "closedEarly" }
  else match s.status with
    | none => { s with fut := .error "internal" }     -- unreachable: status None ⇒ error already set
    | some st =>
      if 20 ≤ st ∧ st < 30 then deliver env s st
      else { s with fut := .response st s.mta none false }

/-- `connection_lost` -/
def onLost (env : Env) (s : CSt) (exc : Bool) : CSt :=
  if s.fut ≠ .pending then { s with lost := true }
  else { resolve env s exc with lost := true }

def cstep (env : Env) (s : CSt) : CEv → CSt
  | .data c => onData env s c
  | .lost e => onLost env s e

def crunFrom (env : Env) (s : CSt) (evs : List CEv) : CSt := evs.foldl (cstep env) s
def crun (env : Env) (evs : List CEv) : CSt := crunFrom env (init true) evs

/-! ## termination: a lost connection always resolves the call -/

theorem deliver_resolved (env : Env) (s : CSt) (st : Nat) : (deliver env s st).fut ≠ .pending := by
  unfold deliver
  split
  · split <;> simp
  · simp

theorem resolve_resolved (env : Env) (s : CSt) (e : Bool) : (resolve env s e).fut ≠ .pending := by
  unfold resolve
  split
  · simp
  · split
    · simp
    · split
      · simp
      · split
        · exact deliver_resolved env _ _
        · simp

/-- C13: once the connection is lost, the caller's future is resolved — for every state the protocol
    can be in and every behaviour of the codecs -/
theorem lost_resolves (env : Env) (s : CSt) (e : Bool) : (cstep env s (.lost e)).fut ≠ .pending := by
  simp only [cstep, onLost]
  split
  · assumption
  · exact resolve_resolved env s e

theorem setError_keep (s : CSt) (k : String) (h : s.fut ≠ .pending) : (setError s k).fut = s.fut := by
  unfold setError; rw [if_neg h]

theorem capCheck_keep (s : CSt) (h : s.fut ≠ .pending) : (capCheck s).fut = s.fut := by
  unfold capCheck; split
  · exact setError_keep s _ h
  · rfl

theorem tooLong_keep (s : CSt) (h : s.fut ≠ .pending) : (tooLong s).fut = s.fut := setError_keep s _ h

theorem crash_keep (s : CSt) (h : s.fut ≠ .pending) : (crash s).fut = s.fut := setError_keep s _ h

theorem parseHeader_keep (s : CSt) (l : Bytes) (h : s.fut ≠ .pending) :
    (parseHeader s l).fut = s.fut := by
  unfold parseHeader
  split
  · exact setError_keep s _ h
  · split
    · exact setError_keep s _ h
    · split
      · rfl
      · exact setError_keep _ _ h

theorem deliverHeader_keep (s : CSt) (h : s.fut ≠ .pending) : (deliverHeader s).fut = s.fut := by
  unfold deliverHeader; rw [if_neg h]

theorem afterHeader_keep (s : CSt) (h : s.fut ≠ .pending) : (afterHeader s).fut = s.fut := by
  unfold afterHeader
  split
  · rfl
  · split
    · exact capCheck_keep s h
    · exact deliverHeader_keep s h

theorem onHeader_keep (env : Env) (s : CSt) (i : Nat) (h : s.fut ≠ .pending) : (onHeader env s i).fut = s.fut := by
  unfold onHeader
  split
  · have hp := parseHeader_keep s (s.buf.take i) h
    rw [afterHeader_keep _ (by simpa [hp] using h)]
    exact hp
  · exact crash_keep s h

theorem onData_keep (env : Env) (s : CSt) (c : Bytes) (h : s.fut ≠ .pending) : (onData env s c).fut = s.fut := by
  unfold onData
  split
  · rfl
  · split
    · exact capCheck_keep { s with buf := s.buf ++ c } h
    · split
      · split
        · exact tooLong_keep { s with buf := s.buf ++ c } h
        · exact capCheck_keep { s with buf := s.buf ++ c } h
      · split
        · exact tooLong_keep { s with buf := s.buf ++ c } h
        · exact onHeader_keep env { s with buf := s.buf ++ c } _ h

/-- a resolved future is never touched again -/
theorem fut_stable (env : Env) (s : CSt) (ev : CEv) (h : s.fut ≠ .pending) : (cstep env s ev).fut = s.fut := by
  cases ev with
  | lost e => simp [cstep, onLost, h]
  | data c => exact onData_keep env s c h

theorem run_stable (env : Env) (s : CSt) (evs : List CEv) (h : s.fut ≠ .pending) :
    (evs.foldl (cstep env) s).fut = s.fut := by
  induction evs generalizing s with
  | nil => rfl
  | cons e es ih =>
    have h1 := fut_stable env s e h
    simp only [List.foldl_cons]
    rw [ih _ (by rw [h1]; exact h), h1]

/-- C13 (termination): in every history that contains a connection loss, the call has a result —
    whatever the server sent, however it was segmented, whatever the codecs do -/
theorem resolves_after_lost (env : Env) (s0 : CSt) (pre post : List CEv) (e : Bool) :
    (crunFrom env s0 (pre ++ [.lost e] ++ post)).fut ≠ .pending := by
  unfold crunFrom
  rw [List.foldl_append, List.foldl_append]
  simp only [List.foldl_cons, List.foldl_nil]
  have h := lost_resolves env (pre.foldl (cstep env) s0) e
  rw [run_stable env _ post h]; exact h

example : (crun ⟨fun _ => true, fun _ => true, fun _ _ => 2⟩
    [.data [50, 48, 32, 120, 13, 10, 104, 105], .lost false]).fut = .error "charset" := by decide

/-! ## a parsed status is in range while the call is pending; responses come from `connection_lost` -/

/-- while the call is still pending, a parsed status is in range -/
def StatusInv (s : CSt) : Prop := ∀ st, s.status = some st → s.fut = .pending → 10 ≤ st ∧ st < 70

theorem setError_status (s : CSt) (k : String) : (setError s k).status = s.status := by
  unfold setError; split <;> rfl

theorem setError_header (s : CSt) (k : String) : (setError s k).headerReceived = s.headerReceived := by
  unfold setError; split <;> rfl

theorem setError_pending (s : CSt) (k : String) : (setError s k).fut ≠ .pending := by
  unfold setError; split
  · simp
  · assumption

theorem capCheck_status (s : CSt) : (capCheck s).status = s.status := by
  unfold capCheck; split
  · exact setError_status s _
  · rfl

theorem capCheck_header (s : CSt) : (capCheck s).headerReceived = s.headerReceived := by
  unfold capCheck; split
  · exact setError_header s _
  · rfl

theorem capCheck_pending (s : CSt) (h : (capCheck s).fut = .pending) : s.fut = .pending := by
  unfold capCheck at h
  split at h
  · exact absurd h (setError_pending s _)
  · exact h

theorem parseHeader_inv (s : CSt) (l : Bytes) (hs : s.status = none) : StatusInv (parseHeader s l) := by
  unfold parseHeader
  split
  · intro st h1 _; rw [setError_status, hs] at h1; simp at h1
  · rename_i st hst
    split
    · intro st h1 _; rw [setError_status, hs] at h1; simp at h1
    · split
      · rename_i hr
        intro st' h1 _
        simp only [Option.some.injEq] at h1; subst h1; exact hr
      · intro st' _ h2
        exact absurd h2 (setError_pending _ _)

theorem deliverHeader_status (s : CSt) : (deliverHeader s).status = s.status := by
  unfold deliverHeader; split
  · split <;> rfl
  · rfl

theorem deliverHeader_header (s : CSt) : (deliverHeader s).headerReceived = s.headerReceived := by
  unfold deliverHeader; split
  · split <;> rfl
  · rfl

theorem deliverHeader_pending (s : CSt) (h : (deliverHeader s).fut = .pending) : s.fut = .pending := by
  unfold deliverHeader at h
  split at h
  · assumption
  · exact h

theorem afterHeader_status (s : CSt) : (afterHeader s).status = s.status := by
  unfold afterHeader
  split
  · rfl
  · split
    · exact capCheck_status s
    · exact deliverHeader_status s

theorem afterHeader_header (s : CSt) : (afterHeader s).headerReceived = s.headerReceived := by
  unfold afterHeader
  split
  · rfl
  · split
    · exact capCheck_header s
    · exact deliverHeader_header s

theorem afterHeader_pending (s : CSt) (h : (afterHeader s).fut = .pending) : s.fut = .pending := by
  unfold afterHeader at h
  split at h
  · exact h
  · split at h
    · exact capCheck_pending s h
    · exact deliverHeader_pending s h

/-- invariant of every step: status in range while pending; no status before the header -/
def Inv (s : CSt) : Prop := StatusInv s ∧ (s.headerReceived = false → s.status = none)

theorem onHeader_inv (env : Env) (s : CSt) (i : Nat) (hs : s.status = none) (hh : s.headerReceived = false) :
    Inv (onHeader env s i) := by
  unfold onHeader
  split
  · have hpi := parseHeader_inv s (s.buf.take i) hs
    refine ⟨fun st h1 h2 => ?_, fun hf => ?_⟩
    · rw [afterHeader_status] at h1
      have h3 := afterHeader_pending _ h2
      exact hpi st h1 h3
    · rw [afterHeader_header] at hf; simp at hf
  · refine ⟨fun st h1 h2 => ?_, fun _ => ?_⟩
    · exact absurd h2 (setError_pending _ _)
    · simp only [crash]; rw [setError_status]; exact hs

theorem tooLong_inv (s : CSt) : Inv (tooLong s) :=
  ⟨fun _ _ h2 => absurd h2 (setError_pending _ _), fun hf => by simp [tooLong] at hf⟩

theorem capCheck_inv (s : CSt) (h : Inv s) : Inv (capCheck s) := by
  refine ⟨fun st h1 h2 => ?_, fun hf => ?_⟩
  · rw [capCheck_status] at h1; exact h.1 st h1 (capCheck_pending s h2)
  · rw [capCheck_header] at hf; rw [capCheck_status]; exact h.2 hf

theorem cstep_inv (env : Env) (s : CSt) (ev : CEv) (h : Inv s) : Inv (cstep env s ev) := by
  cases ev with
  | lost e =>
    simp only [cstep, onLost]
    split
    · exact ⟨fun st h1 h2 => h.1 st h1 h2, fun hf => h.2 hf⟩
    · refine ⟨fun st h1 h2 => absurd h2 (resolve_resolved env s e), fun hf => ?_⟩
      have hr : (resolve env s e).headerReceived = s.headerReceived ∧ (resolve env s e).status = s.status := by
        unfold resolve
        split
        · exact ⟨rfl, rfl⟩
        · split
          · exact ⟨rfl, rfl⟩
          · split
            · exact ⟨rfl, rfl⟩
            · split
              · unfold deliver; split
                · split <;> exact ⟨rfl, rfl⟩
                · exact ⟨rfl, rfl⟩
              · exact ⟨rfl, rfl⟩
      simp only at hf ⊢
      rw [hr.2]; exact h.2 (by rw [← hr.1]; exact hf)
  | data c =>
    simp only [cstep, onData]
    split
    · exact h
    · split
      · rename_i hr
        refine capCheck_inv _ ⟨fun st h1 h2 => h.1 st h1 h2, fun hf => ?_⟩
        simp only at hf; rw [hf] at hr; simp at hr
      · rename_i hnr
        have hh : s.headerReceived = false := by simpa using hnr
        have hsn : s.status = none := h.2 hh
        split
        · split
          · exact tooLong_inv _
          · exact capCheck_inv _ ⟨fun st h1 _ => by simp [hsn] at h1, fun _ => hsn⟩
        · split
          · exact tooLong_inv _
          · exact onHeader_inv env _ _ hsn hh

theorem run_inv_from (env : Env) (s : CSt) (evs : List CEv) (h : Inv s) : Inv (crunFrom env s evs) := by
  unfold crunFrom
  induction evs generalizing s with
  | nil => exact h
  | cons e es ih => exact ih _ (cstep_inv env s e h)

theorem init_inv (dt : Bool) : Inv (init dt) := ⟨fun st h => by simp [init] at h, fun _ => rfl⟩

theorem run_inv (env : Env) (evs : List CEv) :
    StatusInv (crun env evs) ∧ ((crun env evs).headerReceived = false → (crun env evs).status = none) :=
  run_inv_from env _ evs (init_inv true)

/-! ### where a response comes from -/
def NoResp (f : Fut) : Prop := f = .pending ∨ ∃ k, f = .error k

theorem setError_noResp (s : CSt) (k : String) (h : NoResp s.fut) : NoResp (setError s k).fut := by
  unfold setError; split
  · exact Or.inr ⟨k, rfl⟩
  · exact h

theorem capCheck_noResp (s : CSt) (h : NoResp s.fut) : NoResp (capCheck s).fut := by
  unfold capCheck; split
  · exact setError_noResp s _ h
  · exact h

theorem parseHeader_noResp (s : CSt) (l : Bytes) (h : NoResp s.fut) : NoResp (parseHeader s l).fut := by
  unfold parseHeader
  split
  · exact setError_noResp s _ h
  · split
    · exact setError_noResp s _ h
    · split
      · exact h
      · exact setError_noResp _ _ h

/-- a response, once there, agrees with the parsed status and meta, carries a body exactly for 2x, and that body
    is the buffer (the bytes received after the header line) -/
def RespOk (s : CSt) : Prop :=
  ∀ st m b d, s.fut = .response st m b d →
    s.status = some st ∧ m = s.mta ∧ (b ≠ none ↔ (20 ≤ st ∧ st < 30)) ∧ (∀ x, b = some x → x = s.buf)

theorem respOk_of_noResp (s : CSt) (h : NoResp s.fut) : RespOk s := by
  intro st m b d hf
  rcases h with h | ⟨k, h⟩ <;> rw [h] at hf <;> cases hf

/-- `data_received` produces a response only for a non-2x header, and then without a body -/
theorem afterHeader_respOk (q : CSt) (h : NoResp q.fut) : RespOk (afterHeader q) := by
  unfold afterHeader
  split
  · exact respOk_of_noResp _ h
  · rename_i st hst
    split
    · exact respOk_of_noResp _ (capCheck_noResp q h)
    · rename_i hn2x
      rcases h with h | ⟨k, h⟩
      · intro st' m b d hf
        simp only [deliverHeader, h, if_true, hst, Fut.response.injEq] at hf
        obtain ⟨rfl, rfl, rfl, _⟩ := hf
        exact ⟨by simp [deliverHeader, h, hst], by simp [deliverHeader, h, hst], by simpa using hn2x, fun x hx => by simp at hx⟩
      · refine respOk_of_noResp _ (Or.inr ⟨k, ?_⟩)
        simp [deliverHeader, h]

theorem onData_respOk (env : Env) (s : CSt) (c : Bytes) (h : NoResp s.fut) : RespOk (onData env s c) := by
  unfold onData
  split
  · exact respOk_of_noResp _ h
  · split
    · exact respOk_of_noResp _ (capCheck_noResp _ h)
    · split
      · split
        · exact respOk_of_noResp _ (setError_noResp _ _ h)
        · exact respOk_of_noResp _ (capCheck_noResp _ h)
      · split
        · exact respOk_of_noResp _ (setError_noResp _ _ h)
        · unfold onHeader
          split
          · exact afterHeader_respOk _ (parseHeader_noResp _ _ h)
          · exact respOk_of_noResp _ (setError_noResp _ _ h)

/-- a response is produced by `data_received` only for a non-2x header (without body), and by `connection_lost`
    from the status parsed earlier (with the buffer as body exactly for 2x) -/
theorem response_origin (env : Env) (s : CSt) (ev : CEv) (hp : s.fut = .pending) : RespOk (cstep env s ev) := by
  cases ev with
  | data c => exact onData_respOk env s c (Or.inl hp)
  | lost e =>
    intro st m b d h
    have hs : (cstep env s (.lost e)).status = s.status ∧ (cstep env s (.lost e)).mta = s.mta ∧ (cstep env s (.lost e)).buf = s.buf := by
      simp only [cstep, onLost, hp, ne_eq, not_true_eq_false, if_false]
      unfold resolve
      split
      · exact ⟨rfl, rfl, rfl⟩
      · split
        · exact ⟨rfl, rfl, rfl⟩
        · split
          · exact ⟨rfl, rfl, rfl⟩
          · split
            · unfold deliver; split
              · split <;> exact ⟨rfl, rfl, rfl⟩
              · exact ⟨rfl, rfl, rfl⟩
            · exact ⟨rfl, rfl, rfl⟩
    rw [hs.1, hs.2.1, hs.2.2]
    simp only [cstep, onLost] at h
    split at h
    · rename_i hn; exact absurd hp hn
    · simp only [resolve] at h
      split at h
      · simp at h
      · split at h
        · simp at h
        · split at h
          · simp at h
          · rename_i st' hst
            split at h
            · rename_i h2x
              simp only [deliver] at h
              split at h
              · split at h
                · simp at h; obtain ⟨rfl, rfl, rfl, _⟩ := h
                  exact ⟨hst, rfl, by simp [h2x], fun x hx => by simpa using hx.symm⟩
                · simp at h
                · simp at h
                · simp at h
              · simp at h; obtain ⟨rfl, rfl, rfl, _⟩ := h
                exact ⟨hst, rfl, by simp [h2x], fun x hx => by simpa using hx.symm⟩
            · rename_i h2x
              simp at h; obtain ⟨rfl, rfl, rfl, _⟩ := h
              exact ⟨hst, rfl, by simpa using h2x, fun x hx => by simp at hx⟩
end Cl
