"""Faults of the TOFU pin store at lookup / write time (C11, C03).

`store_fault(kind, db_path)` is a context manager that makes the SQLite store used by
`nauyaca.security.tofu` fail while it is active:

  "select"  the pin lookup (`SELECT fingerprint FROM known_hosts WHERE hostname = ? AND port = ?`) raises
            sqlite3.OperationalError("database is locked") — every time while armed
  "write"   every INSERT / UPDATE / DELETE and every commit raises sqlite3.OperationalError (read-only / full medium);
            reads work
  "locked"  a REAL lock: a second connection holds BEGIN EXCLUSIVE on the database file and the store's own
            connections get a 50 ms busy timeout instead of SQLite's 5 s, so every statement fails with the
            genuine "database is locked" error
  "open"    the database file cannot be opened: every sqlite3.connect of the store raises
            sqlite3.OperationalError("unable to open database file") (no file descriptors left, directory not accessible, …)

The module object substituted for `sqlite3` inside `nauyaca.security.tofu` delegates everything else to
the real module.  Nothing is patched outside the `with` block.
"""
from __future__ import annotations

import contextlib
import sqlite3 as real
import types


class _Shim(types.ModuleType):
    def __init__(self, kind: str):
        super().__init__("sqlite3_faulty")
        self.kind = kind
        self.fired = 0
        for name in dir(real):
            if not name.startswith("__") and name != "connect":
                setattr(self, name, getattr(real, name))

    def _check(self, sql: str | None) -> None:
        s = " ".join((sql or "COMMIT").split()).upper()
        hit = False
        if self.kind == "select":
            hit = s.startswith("SELECT FINGERPRINT FROM KNOWN_HOSTS WHERE HOSTNAME = ? AND PORT = ?")
        elif self.kind == "write":
            hit = s.startswith(("INSERT", "UPDATE", "DELETE", "COMMIT"))
        if hit:
            self.fired += 1
            raise real.OperationalError("database is locked" if self.kind == "select" else "attempt to write a readonly database")

    def connect(self, path, *a, **kw):
        shim = self
        if shim.kind == "open":
            shim.fired += 1
            raise real.OperationalError("unable to open database file")
        if shim.kind == "locked":
            kw["timeout"] = 0.05
        conn = real.connect(path, *a, **kw)

        class Cur:
            def __init__(s):
                s._c = conn.cursor()

            def execute(s, sql, params=()):
                shim._check(sql)
                try:
                    return s._c.execute(sql, params)
                except real.OperationalError:
                    shim.fired += 1
                    raise

            def __getattr__(s, name):
                return getattr(s._c, name)

        class Conn:
            def cursor(s):
                return Cur()

            def commit(s):
                shim._check(None)
                try:
                    return conn.commit()
                except real.OperationalError:
                    shim.fired += 1
                    raise

            def __setattr__(s, name, value):
                setattr(conn, name, value)

            def __getattr__(s, name):
                return getattr(conn, name)

        return Conn()


@contextlib.contextmanager
def store_fault(kind: str | None, db_path=None):
    """yields the shim (its `.fired` counts the failed statements) or None when kind is empty"""
    if not kind:
        yield None
        return
    import nauyaca.security.tofu as tofu

    shim = _Shim(kind)
    locker = None
    if kind == "locked":
        locker = real.connect(str(db_path), isolation_level=None)
        locker.execute("BEGIN EXCLUSIVE")
    saved = tofu.sqlite3
    tofu.sqlite3 = shim
    try:
        yield shim
    finally:
        tofu.sqlite3 = saved
        if locker is not None:
            with contextlib.suppress(Exception):
                locker.execute("ROLLBACK")
            locker.close()
