import NauyacaVerif.Url.Basic
import NauyacaVerif.Url.Proof
import NauyacaVerif.Url.Staged
import Mathlib.Tactic.IntervalCases
namespace Url

/-! # a URL assembled from clean components parses back to exactly those components
    (core of C19 `norm_idem`, C17 `proxy_roundtrip`, C08 `reach_complete`) -/

theorem splitOnce_none {c : Char} {s : Str} (h : c ∉ s) : splitOnce c s = none := by
  unfold splitOnce
  have : findIdx (· = c) s = none := findIdx_none_iff.mpr (by
    apply List.all_eq_true.mpr; intro d hd; simp; intro hdc; subst hdc; exact h hd)
  simp [this]

theorem splitOnce_hit {c : Char} {a b : Str} (h : c ∉ a) : splitOnce c (a ++ c :: b) = some (a, b) := by
  unfold splitOnce
  have hn : findIdx (· = c) a = none := findIdx_none_iff.mpr (by
    apply List.all_eq_true.mpr; intro d hd; simp; intro hdc; subst hdc; exact h hd)
  rw [findIdx_append_none hn]
  simp [findIdx]

theorem splitTail_clean {p q : Str} (hp : p.all (fun c => c ≠ '?' ∧ c ≠ '#') = true) (hq : q.all (fun c => c ≠ '#') = true) :
    splitTail (p ++ (if q.isEmpty then [] else '?' :: q)) = (p, q, []) := by
  have hp1 : '#' ∉ p := by intro h; have := List.all_eq_true.mp hp _ h; simp at this
  have hp2 : '?' ∉ p := by intro h; have := List.all_eq_true.mp hp _ h; simp at this
  have hq1 : '#' ∉ q := by intro h; have := List.all_eq_true.mp hq _ h; simp at this
  unfold splitTail cutAt
  by_cases hqe : q.isEmpty = true
  · have : q = [] := by simpa using hqe
    subst this
    simp [splitOnce_none hp1, splitOnce_none hp2]
  · simp only [hqe, Bool.false_eq_true, ↓reduceIte]
    have h1 : '#' ∉ p ++ '?' :: q := by simp [hp1, hq1]
    rw [splitOnce_none h1]
    simp only
    rw [splitOnce_hit hp2]

end Url

namespace Url

theorem checkNetloc_plain (env : Env) {nl : Str} (hb : nl.all (fun c => c ≠ '[' ∧ c ≠ ']') = true)
    (ha : nl.all (fun c => c.toNat < 128) = true) : checkNetloc env nl = none := by
  have h1 : nl.contains '[' = false := by
    cases h : nl.contains '[' with
    | false => rfl
    | true => have := List.all_eq_true.mp hb '[' (by simpa using h); simp at this
  have h2 : nl.contains ']' = false := by
    cases h : nl.contains ']' with
    | false => rfl
    | true => have := List.all_eq_true.mp hb ']' (by simpa using h); simp at this
  unfold checkNetloc
  simp only [h1, h2, ha]
  simp

/-- a URL assembled from clean components splits back into exactly those components -/
theorem urlsplit_assemble (env : Env) {nl p q : Str} (h : Clean nl p q) :
    urlsplit env (assemble nl p q) = .ok ⟨gemini, nl, p, q, []⟩ := by
  unfold urlsplit
  rw [preprocess_assemble h, splitScheme_assemble]
  simp only
  have hq' : (if q.isEmpty then ([] : Str) else '?' :: q) = [] ∨ (if q.isEmpty then ([] : Str) else '?' :: q).head? = some '?' := by
    by_cases hqe : q.isEmpty = true
    · left; simp [hqe]
    · right; simp [hqe]
  rw [splitNetloc_clean h.nlNoDelim h.pathSlash hq']
  simp only
  rw [splitTail_clean h.pathNo h.queryNo]
  simp only
  rw [checkNetloc_plain env h.nlNoBracket h.nlAscii]

end Url

namespace Url

def digitVal (c : Char) : Nat := c.toNat - 48

theorem digitVal_digitChar (d : Nat) (h : d < 10) : digitVal (digitChar d) = d := by
  interval_cases d <;> decide

theorem parseNat_append (a : Str) (c : Char) : parseNat (a ++ [c]) = parseNat a * 10 + digitVal c := by
  simp [parseNat, List.foldl_append, digitVal]

theorem parseNat_natToStr (n : Nat) : parseNat (natToStr n) = n := by
  induction n using Nat.strongRecOn with
  | _ n ih =>
    rw [natToStr]
    split
    · rename_i h
      have := digitVal_digitChar n h
      simp [parseNat, digitVal] at this ⊢; exact this
    · rename_i h
      rw [parseNat_append, ih (n / 10) (by omega), digitVal_digitChar _ (by omega)]
      omega

theorem digitChar_props (d : Nat) (h : d < 10) :
    ('0' ≤ digitChar d ∧ digitChar d ≤ '9') ∧ isDelim (digitChar d) = false ∧ digitChar d ≠ '@' ∧ digitChar d ≠ ':' ∧
      digitChar d ≠ '[' ∧ digitChar d ≠ ']' ∧ (digitChar d).toNat < 128 ∧ isUnsafe (digitChar d) = false := by
  interval_cases d <;> decide

/-- every character of a rendered port is a plain ASCII digit -/
theorem natToStr_digits (n : Nat) : ∀ c ∈ natToStr n,
    ('0' ≤ c ∧ c ≤ '9') ∧ isDelim c = false ∧ c ≠ '@' ∧ c ≠ ':' ∧ c ≠ '[' ∧ c ≠ ']' ∧ c.toNat < 128 ∧ isUnsafe c = false := by
  induction n using Nat.strongRecOn with
  | _ n ih =>
    rw [natToStr]
    split
    · rename_i h; intro c hc; simp at hc; subst hc; exact digitChar_props n h
    · rename_i h
      intro c hc
      simp at hc
      rcases hc with hc | hc
      · exact ih (n / 10) (by omega) c hc
      · subst hc; exact digitChar_props _ (by omega)

theorem natToStr_ne_nil (n : Nat) : natToStr n ≠ [] := by
  rw [natToStr]; split <;> simp

end Url

namespace Url

/-- host text as `parse_url` reports it: lower-cased up to an optional `%zone` -/
def normHost (env : Env) (h : Str) : Str :=
  match splitOnce '%' h with
  | some (a, z) => env.lowerU a ++ ['%'] ++ z
  | none => env.lowerU h

/-- a host that can stand un-bracketed in an authority -/
structure PlainHost (env : Env) (H : Str) : Prop where
  ne : H ≠ []
  chars : ∀ c ∈ H, isDelim c = false ∧ c ≠ '@' ∧ c ≠ ':' ∧ c ≠ '[' ∧ c ≠ ']' ∧ c.toNat < 128 ∧ isUnsafe c = false
  fixed : normHost env H = H

def authorityOf (H : Str) (n : Nat) : Str := if n ≠ 1965 then H ++ [':'] ++ natToStr n else H

theorem authority_chars {env : Env} {H : Str} (hH : PlainHost env H) (n : Nat) :
    ∀ c ∈ authorityOf H n, isDelim c = false ∧ c ≠ '@' ∧ c ≠ '[' ∧ c ≠ ']' ∧ c.toNat < 128 ∧ isUnsafe c = false := by
  intro c hc
  unfold authorityOf at hc
  split at hc
  · simp at hc
    rcases hc with hc | rfl | hc
    · have := hH.chars c hc; exact ⟨this.1, this.2.1, this.2.2.2.1, this.2.2.2.2.1, this.2.2.2.2.2.1, this.2.2.2.2.2.2⟩
    · decide
    · have := natToStr_digits n c hc; exact ⟨this.2.1, this.2.2.1, this.2.2.2.2.1, this.2.2.2.2.2.1, this.2.2.2.2.2.2.1, this.2.2.2.2.2.2.2⟩
  · have := hH.chars c hc; exact ⟨this.1, this.2.1, this.2.2.2.1, this.2.2.2.2.1, this.2.2.2.2.2.1, this.2.2.2.2.2.2⟩

theorem rsplitOnce_none {c : Char} {s : Str} (h : c ∉ s) : rsplitOnce c s = none := by
  unfold rsplitOnce
  rw [splitOnce_none (by simpa using h)]

theorem hostinfo_authority {env : Env} {H : Str} (hH : PlainHost env H) (n : Nat) :
    hostinfo (authorityOf H n) = { hostRaw := H, port := if n ≠ 1965 then some (natToStr n) else none } := by
  have hat : '@' ∉ authorityOf H n := fun h => (authority_chars hH n _ h).2.1 rfl
  have hbr : '[' ∉ authorityOf H n := fun h => (authority_chars hH n _ h).2.2.1 rfl
  have hcolH : ':' ∉ H := fun h => (hH.chars _ h).2.2.1 rfl
  unfold hostinfo
  rw [rsplitOnce_none hat]
  simp only
  rw [splitOnce_none hbr]
  simp only
  unfold authorityOf
  by_cases hn : n ≠ 1965
  · simp only [hn, ↓reduceIte, List.append_assoc, List.singleton_append, ne_eq, not_false_eq_true]
    rw [splitOnce_hit hcolH]
    have := natToStr_ne_nil n
    simp [this]
  · simp only [hn, ↓reduceIte]
    rw [splitOnce_none hcolH]
    simp

theorem userinfo_authority {env : Env} {H : Str} (hH : PlainHost env H) (n : Nat) :
    userinfo (authorityOf H n) = (none, none) := by
  have hat : '@' ∉ authorityOf H n := fun h => (authority_chars hH n _ h).2.1 rfl
  unfold userinfo
  rw [rsplitOnce_none hat]

theorem hostname_authority {env : Env} {H : Str} (hH : PlainHost env H) (n : Nat) :
    hostname env (authorityOf H n) = some H := by
  unfold hostname
  rw [hostinfo_authority hH n]
  have hne : H.isEmpty = false := by cases H with | nil => exact absurd rfl hH.ne | cons _ _ => rfl
  simp only [hne, Bool.false_eq_true, ↓reduceIte]
  have := hH.fixed
  unfold normHost at this
  split <;> simp_all

theorem portOf_authority {env : Env} {H : Str} (hH : PlainHost env H) (n : Nat) (hn : n ≤ 65535) :
    portOf (authorityOf H n) = .ok (if n ≠ 1965 then some n else none) := by
  unfold portOf
  rw [hostinfo_authority hH n]
  by_cases h : n ≠ 1965
  · simp only [h, ↓reduceIte, ne_eq, not_false_eq_true]
    have hd : (natToStr n).all (fun c => decide ('0' ≤ c ∧ c ≤ '9')) = true := by
      apply List.all_eq_true.mpr; intro c hc; simpa using (natToStr_digits n c hc).1
    simp only [hd, ↓reduceIte, parseNat_natToStr, hn]
    rfl
  · simp only [h, ↓reduceIte]; rfl

end Url

namespace Url

structure PlainTail (p q : Str) : Prop where
  slash : p.head? = some '/'
  pathNo : ∀ c ∈ p, c ≠ '?' ∧ c ≠ '#' ∧ isUnsafe c = false
  queryNo : ∀ c ∈ q, c ≠ '#' ∧ isUnsafe c = false

theorem clean_of_plain {env : Env} {H p q : Str} (hH : PlainHost env H) (n : Nat) (ht : PlainTail p q) :
    Clean (authorityOf H n) p q where
  nlNoDelim := by apply List.all_eq_true.mpr; intro c hc; simp [(authority_chars hH n c hc).1]
  nlNoBracket := by
    apply List.all_eq_true.mpr; intro c hc
    have := authority_chars hH n c hc; simp [this.2.2.1, this.2.2.2.1]
  nlAscii := by apply List.all_eq_true.mpr; intro c hc; simpa using (authority_chars hH n c hc).2.2.2.2.1
  pathSlash := Or.inr ht.slash
  pathNo := by apply List.all_eq_true.mpr; intro c hc; have := ht.pathNo c hc; simp [this.1, this.2.1]
  queryNo := by apply List.all_eq_true.mpr; intro c hc; have := ht.queryNo c hc; simp [this.1]
  safe := by
    apply List.all_eq_true.mpr; intro c hc
    simp only [List.mem_append] at hc
    rcases hc with (hc | hc) | hc
    · simp [(authority_chars hH n c hc).2.2.2.2.2]
    · simp [(ht.pathNo c hc).2.2]
    · simp [(ht.queryNo c hc).2]

theorem rebracket_plain {nl H : Str} (hat : '@' ∉ nl) (hb : '[' ∉ nl) : rebracket nl H = H := by
  unfold rebracket hostPart
  rw [rsplitOnce_none hat, if_neg]
  simpa using hb

theorem unsplit_assemble {nl p q : Str} (hnl : nl ≠ []) (hp : p.head? = some '/') :
    unsplit gemini nl p q [] = assemble nl p q := by
  have h1 : nl.isEmpty = false := by cases nl with | nil => exact absurd rfl hnl | cons _ _ => rfl
  unfold unsplit assemble gemini
  simp only [h1, Bool.not_false, ↓reduceIte, hp, ne_eq, not_true_eq_false, and_false, List.isEmpty_cons,
    Bool.false_eq_true, List.isEmpty_nil, Bool.not_true]
  by_cases hq : q.isEmpty = true
  · simp [hq, gemPrefix]
  · simp [hq, gemPrefix]

/-- C19 core (un-bracketed hosts): the canonical spelling of (host, port, path, query) is accepted and
    parses to exactly these components with itself as its normal form — hence normalisation is
    idempotent and meaning-preserving on everything of this shape -/
theorem parse_canonical (env : Env) {H p q : Str} (hH : PlainHost env H) (n : Nat) (hn : n ≤ 65535)
    (ht : PlainTail p q) :
    parseUrl env (assemble (authorityOf H n) p q) =
      .ok ⟨H, n, p, q, assemble (authorityOf H n) p q⟩ := by
  have hcl := clean_of_plain hH n ht
  have hnl : authorityOf H n ≠ [] := by
    unfold authorityOf; split
    · simp
    · exact hH.ne
  unfold parseUrl
  have hne : (assemble (authorityOf H n) p q).isEmpty = false := by simp [assemble, gemPrefix]
  simp only [hne, Bool.false_eq_true, ↓reduceIte]
  rw [urlsplit_assemble env hcl]
  simp only
  unfold parseSplit
  simp only [gemini, List.isEmpty_cons, Bool.false_eq_true, ↓reduceIte, ne_eq, not_true_eq_false]
  rw [hostname_authority hH n]
  simp only
  rw [userinfo_authority hH n]
  simp only [Option.getD_none, List.length_nil, gt_iff_lt, Nat.lt_irrefl, or_self, ↓reduceIte,
    List.isEmpty_nil, Bool.not_true, Bool.false_eq_true]
  rw [portOf_authority hH n hn]
  simp only
  have hpne : p.isEmpty = false := by
    cases p with
    | nil => exact absurd ht.slash (by simp)
    | cons _ _ => rfl
  have hport : (if n ≠ 1965 then some n else none : Option Nat).getD 1965 = n := by
    by_cases h : n = 1965 <;> simp [h]
  simp only [hport, hpne, Bool.false_eq_true, ↓reduceIte]
  rw [rebracket_plain (fun h => (authority_chars hH n _ h).2.1 rfl) (fun h => (authority_chars hH n _ h).2.2.1 rfl)]
  have hauth : (if n ≠ 1965 then H ++ [':'] ++ natToStr n else H) = authorityOf H n := rfl
  rw [hauth]
  have := unsplit_assemble (q := q) hnl ht.slash
  unfold gemini at this
  rw [this]

end Url
