import NauyacaVerif.Gen.Fn.TofuVerify
import NauyacaVerif.Gen.Fn.TofuTrust
import NauyacaVerif.Gen.Fn.TofuRevoke
import NauyacaVerif.Gen.Fn.TofuRevokeHost
import NauyacaVerif.Gen.Fn.TofuClear
import NauyacaVerif.Misc.TofuSql
set_option linter.unusedSimpArgs false
/-!
The pin store of the hand-written models (`Misc.Pins` with `get` / `set` / `del`, the operations of `Misc.stepOp`) against the
TRANSLATIONS of `TOFUDatabase.verify / trust / revoke / revoke_by_hostname / clear` (regenerated from the current source on
every run), executed on the table world `Misc.Db` (one operation per SQL statement, commit / close-without-commit).
Each theorem: started on a freshly opened connection over ANY store, the method returns what the model says and leaves a
connection-independent (committed = pending) store that is the model's store.
-/
namespace NauyacaVerif.Translated
open NauyacaVerif.Gen.Fn Misc

/-- `verify` never changes a pin and returns exactly one of (True, "first_use") / (True, "") / (False, "changed") -/
theorem tofuVerify_eq (fpOf : Nat → Nat) (s : Pins) (h p c : Nat) :
    tofuVerify pinsEnv fpOf (Db.opened s) h p c = (Db.opened s, .ok (verdict s (h, p) (fpOf c))) := by
  unfold tofuVerify verdict
  cases hg : s.get (h, p) with
  | none => simp [pinsEnv, Db.opened, Db.selectFp, hg, Db.close]
  | some old =>
    by_cases he : old = fpOf c
    · simp [pinsEnv, Db.opened, Db.selectFp, hg, he, Db.close, Db.touch, Db.commit]
    · simp [pinsEnv, Db.opened, Db.selectFp, hg, he, Db.close]

theorem get_map_update (s : Pins) (k k' : Key) (f : Fp) :
    Pins.get (s.map (fun e => if e.1 == k then (e.1, f) else e)) k' = if k' = k then (s.get k).map (fun _ => f) else s.get k' := by
  induction s with
  | nil => simp [Pins.get]
  | cons e es ih =>
    simp only [Pins.get] at ih ⊢
    by_cases h1 : e.1 = k
    · by_cases h2 : k' = k
      · subst h2; simp [h1]
      · have : ¬ k = k' := fun h => h2 h.symm
        simp [h1, h2, this] at ih ⊢
        exact ih
    · by_cases h2 : e.1 = k'
      · by_cases h3 : k' = k
        · exact absurd (h2.trans h3) h1
        · simp [h1, h2, h3]
      · by_cases h3 : k' = k
        · subst h3; simp [h1] at ih ⊢; exact ih
        · simp [h1, h2, h3] at ih ⊢; exact ih

/-- `trust` commits, never fails on a freshly opened connection, and afterwards every key reads as in the model's `set` -/
theorem tofuTrust_eq (fpOf : Nat → Nat) (s : Pins) (h p c : Nat) :
    ∃ s', tofuTrust pinsEnv fpOf (Db.opened s) h p c = (Db.opened s', .ok ()) ∧ ∀ k', s'.get k' = (s.set (h, p) (fpOf c)).get k' := by
  unfold tofuTrust
  cases hg : s.get (h, p) with
  | none =>
    refine ⟨((h, p), fpOf c) :: s, by simp [pinsEnv, Db.opened, Db.selectFp, hg, Db.insert, Db.commit, Db.close], ?_⟩
    intro k'
    by_cases hk : (h, p) = k'
    · subst hk; simp [Pins.get, Pins.set]
    · rw [get_set_other s _ _ _ hk]
      have : ((h, p) == k') = false := by simpa using hk
      simp [Pins.get, this]
  | some old =>
    refine ⟨s.map (fun e => if e.1 == (h, p) then (e.1, fpOf c) else e),
      by simp [pinsEnv, Db.opened, Db.selectFp, hg, Db.updateFp, Db.commit, Db.close], ?_⟩
    intro k'
    rw [get_map_update]
    by_cases hk : k' = (h, p)
    · subst hk; simp [hg, get_set_self]
    · have : (h, p) ≠ k' := fun e => hk e.symm
      simp [hk, get_set_other s _ _ _ this]

theorem filter_len_pos_iff (s : Pins) (k : Key) : decide ((s.filter (·.1 == k)).length > 0) = (s.get k).isSome := by
  induction s with
  | nil => simp [Pins.get]
  | cons e es ih =>
    simp only [Pins.get] at ih ⊢
    by_cases h1 : e.1 = k
    · simp [h1]
    · have hb : (e.1 == k) = false := by simpa using h1
      simp only [List.filter_cons, hb, List.find?_cons]
      exact ih

/-- `revoke` commits the model's `del` and reports whether there was a pin -/
theorem tofuRevoke_eq (s : Pins) (h p : Nat) :
    tofuRevoke pinsEnv (Db.opened s) h p = (Db.opened (s.del (h, p)), .ok (s.get (h, p)).isSome) := by
  simp [tofuRevoke, pinsEnv, Db.opened, Db.delete, Db.commit, Db.close, Pins.del]
  exact filter_len_pos_iff s (h, p)

/-- `revoke_by_hostname` commits the removal of every port of the host (the model's `revokeHost`) -/
theorem tofuRevokeHost_eq (s : Pins) (h : Nat) :
    tofuRevokeHost pinsEnv (Db.opened s) h = (Db.opened (s.filter (·.1.1 != h)), .ok (s.filter (·.1.1 == h)).length) := by
  simp [tofuRevokeHost, pinsEnv, Db.opened, Db.deleteHost, Db.commit, Db.close]

/-- `clear` commits the empty store -/
theorem tofuClear_eq (s : Pins) : tofuClear pinsEnv (Db.opened s) = (Db.opened [], .ok s.length) := by
  simp [tofuClear, pinsEnv, Db.opened, Db.deleteAll, Db.commit, Db.close]

/-- non-vacuity: a store with two ports of one host -/
example : (tofuVerify pinsEnv id (Db.opened [((1, 1965), 7), ((1, 1966), 8)]) 1 1966 9).2 = .ok (false, ['c', 'h', 'a', 'n', 'g', 'e', 'd']) := by rfl
example : (tofuRevoke pinsEnv (Db.opened [((1, 1965), 7), ((1, 1966), 8)]) 1 1965).1.committed = [((1, 1966), 8)] := by rfl
end NauyacaVerif.Translated
