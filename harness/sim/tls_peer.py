"""Memory-BIO TLS peers, fake TCP transport and certificate helpers (C06, C20).

Nothing here touches /repo; the real code is imported by the callers after
`core.setup_import_path()`.  Certificates and keys only ever live in
`tempfile.mkdtemp(prefix="nv-")` directories that are removed again.
"""
from __future__ import annotations

import contextlib
import datetime
import io
import os
import shutil
import ssl
import tempfile
import warnings

warnings.filterwarnings("ignore", category=DeprecationWarning)

VERS = ["ssl3", "tls10", "tls11", "tls12", "tls13"]  # rank = index (as Misc.Ver in the Lean model)
_SSL_OF_RANK = {0: ssl.TLSVersion.SSLv3, 1: ssl.TLSVersion.TLSv1, 2: ssl.TLSVersion.TLSv1_1, 3: ssl.TLSVersion.TLSv1_2, 4: ssl.TLSVersion.TLSv1_3}
_RANK_OF_NAME = {"SSLv3": 0, "TLSv1": 1, "TLSv1.1": 2, "TLSv1.2": 3, "TLSv1.3": 4}
PERMISSIVE = "ALL:@SECLEVEL=0"


def rank_of_tlsversion(v) -> int:
    """ssl.TLSVersion (incl. MINIMUM_SUPPORTED / MAXIMUM_SUPPORTED) -> rank."""
    if v == ssl.TLSVersion.MINIMUM_SUPPORTED:
        return 0
    if v == ssl.TLSVersion.MAXIMUM_SUPPORTED:
        return 4
    return {ssl.TLSVersion.SSLv3: 0, ssl.TLSVersion.TLSv1: 1, ssl.TLSVersion.TLSv1_1: 2, ssl.TLSVersion.TLSv1_2: 3, ssl.TLSVersion.TLSv1_3: 4}[v]


def rank_of_name(name: str | None) -> int | None:
    return _RANK_OF_NAME.get(name or "")


# ----------------------------------------------------------------------------------------------
# certificates
# ----------------------------------------------------------------------------------------------
def make_cert(cn: str = "localhost", rsa: bool = False) -> tuple[bytes, bytes]:
    """Self-signed certificate (+ SAN) for the harness's own peers; EC P-256 unless rsa."""
    from cryptography import x509
    from cryptography.hazmat.primitives import hashes, serialization
    from cryptography.hazmat.primitives.asymmetric import ec
    from cryptography.hazmat.primitives.asymmetric import rsa as _rsa
    from cryptography.x509.oid import NameOID

    key = _rsa.generate_private_key(65537, 2048) if rsa else ec.generate_private_key(ec.SECP256R1())
    name = x509.Name([x509.NameAttribute(NameOID.COMMON_NAME, cn)])
    now = datetime.datetime.now(datetime.timezone.utc)
    cert = (x509.CertificateBuilder().subject_name(name).issuer_name(name).public_key(key.public_key())
            .serial_number(x509.random_serial_number()).not_valid_before(now - datetime.timedelta(days=1))
            .not_valid_after(now + datetime.timedelta(days=30))
            .add_extension(x509.SubjectAlternativeName([x509.DNSName(cn)]), critical=False)
            .add_extension(x509.BasicConstraints(ca=True, path_length=None), critical=True)
            .sign(key, hashes.SHA256()))
    return (cert.public_bytes(serialization.Encoding.PEM),
            key.private_bytes(serialization.Encoding.PEM, serialization.PrivateFormat.TraditionalOpenSSL, serialization.NoEncryption()))


@contextlib.contextmanager
def cert_files(pems: tuple[bytes, bytes] | None = None, rsa: bool = False):
    """Temp directory holding c.pem / k.pem; removed on exit.  Yields (dir, certfile, keyfile)."""
    d = tempfile.mkdtemp(prefix="nv-")
    try:
        c, k = pems or make_cert(rsa=rsa)
        cf, kf = os.path.join(d, "c.pem"), os.path.join(d, "k.pem")
        with open(cf, "wb") as f:
            f.write(c)
        with open(kf, "wb") as f:
            f.write(k)
        yield d, cf, kf
    finally:
        shutil.rmtree(d, ignore_errors=True)


@contextlib.contextmanager
def private_tmp():
    """Redirect tempfile's default directory to a fresh nv- directory (nauyaca's self-signed
    fallbacks leave their certificate files behind with delete=False) and swallow their prints."""
    d = tempfile.mkdtemp(prefix="nv-")
    old = tempfile.tempdir
    tempfile.tempdir = d
    try:
        with contextlib.redirect_stdout(io.StringIO()):
            yield d
    finally:
        tempfile.tempdir = old
        shutil.rmtree(d, ignore_errors=True)


# ----------------------------------------------------------------------------------------------
# fake TCP transport (asyncio semantics: writes on a closing transport are dropped)
# ----------------------------------------------------------------------------------------------
class FakeTCP:
    def __init__(self, peer=("127.0.0.1", 40001)):
        self.out: list[bytes] = []
        self.dropped: list[bytes] = []
        self.closed = False
        self.close_calls = 0
        self.peer = peer

    def write(self, b) -> None:
        (self.dropped if self.closed else self.out).append(bytes(b))

    def close(self) -> None:
        self.closed = True
        self.close_calls += 1

    abort = close

    def is_closing(self) -> bool:
        return self.closed

    def get_extra_info(self, name, default=None):
        return self.peer if name == "peername" else default

    def take(self) -> list[bytes]:
        o, self.out = self.out, []
        return o


def tls_records(b: bytes) -> tuple[list[bytes], bytes]:
    """Split a TLS byte stream into whole records (5-byte header); returns (records, incomplete tail)."""
    out, i = [], 0
    while i + 5 <= len(b):
        ln = int.from_bytes(b[i + 3:i + 5], "big")
        if i + 5 + ln > len(b):
            break
        out.append(b[i:i + 5 + ln])
        i += 5 + ln
    return out, b[i:]


def looks_like_tls(b: bytes) -> bool:
    """Every byte belongs to a well-formed TLS record header (type 20..23, major version 3)."""
    recs, tail = tls_records(b)
    if tail:
        return False
    return all(r[0] in (20, 21, 22, 23) and r[1] == 3 for r in recs)


# ----------------------------------------------------------------------------------------------
# contexts of the harness's own (permissive / control) peers
# ----------------------------------------------------------------------------------------------
def peer_client_ctx(lo: int | None = None, hi: int | None = None, permissive: bool = True, certkey: tuple[str, str] | None = None) -> ssl.SSLContext:
    cx = ssl.SSLContext(ssl.PROTOCOL_TLS_CLIENT)
    cx.check_hostname = False
    cx.verify_mode = ssl.CERT_NONE
    if permissive:
        cx.set_ciphers(PERMISSIVE)
    if lo is not None:
        cx.minimum_version = _SSL_OF_RANK[lo]
    if hi is not None:
        cx.maximum_version = _SSL_OF_RANK[hi]
    if certkey:
        cx.load_cert_chain(*certkey)
    return cx


def peer_server_ctx(certfile: str, keyfile: str, lo: int | None = None, hi: int | None = None, permissive: bool = True) -> ssl.SSLContext:
    cx = ssl.SSLContext(ssl.PROTOCOL_TLS_SERVER)
    cx.load_cert_chain(certfile, keyfile)
    if permissive:
        cx.set_ciphers(PERMISSIVE)
    if lo is not None:
        cx.minimum_version = _SSL_OF_RANK[lo]
    if hi is not None:
        cx.maximum_version = _SSL_OF_RANK[hi]
    return cx


# ----------------------------------------------------------------------------------------------
# handshake endpoints over memory BIOs
# ----------------------------------------------------------------------------------------------
def _errkind(e: BaseException) -> str:
    s = str(e).upper()
    for k in ("UNSUPPORTED_PROTOCOL", "PROTOCOL_VERSION", "NO_SHARED_CIPHER", "NO_PROTOCOLS_AVAILABLE", "WRONG_VERSION_NUMBER",
              "WRONG_SSL_VERSION", "VERSION_TOO_LOW", "INAPPROPRIATE_FALLBACK", "CERTIFICATE_VERIFY_FAILED", "UNKNOWN_CA", "HTTP_REQUEST",
              "HANDSHAKE_FAILURE", "INTERNAL_ERROR", "EOF"):
        if k in s.replace(" ", "_"):
            return k.lower()
    return type(e).__name__


class StdEnd:
    """ssl.SSLObject endpoint (client or server side)."""

    def __init__(self, ctx: ssl.SSLContext, server_side: bool, hostname: str | None = "localhost"):
        self.i, self.o = ssl.MemoryBIO(), ssl.MemoryBIO()
        self.obj = ctx.wrap_bio(self.i, self.o, server_side=server_side, server_hostname=None if server_side else hostname)
        self.done = False
        self.err: str | None = None

    def step(self) -> None:
        if self.done or self.err:
            return
        try:
            self.obj.do_handshake()
            self.done = True
        except ssl.SSLWantReadError:
            pass
        except (ssl.SSLError, OSError) as e:
            self.err = _errkind(e)

    def take(self) -> bytes:
        return self.o.read()

    def give(self, b: bytes) -> None:
        self.i.write(b)

    def version(self) -> int | None:
        return rank_of_name(self.obj.version()) if self.done else None


class PyoEnd:
    """Bare PyOpenSSL server connection over its memory BIOs."""

    def __init__(self, ctx):
        from OpenSSL import SSL

        self.SSL = SSL
        self.conn = SSL.Connection(ctx, None)
        self.conn.set_accept_state()
        self.done = False
        self.err: str | None = None

    def step(self) -> None:
        if self.done or self.err:
            return
        try:
            self.conn.do_handshake()
            self.done = True
        except self.SSL.WantReadError:
            pass
        except self.SSL.Error as e:
            self.err = _errkind(e)

    def take(self) -> bytes:
        out = b""
        try:
            while True:
                x = self.conn.bio_read(65536)
                if not x:
                    break
                out += x
        except self.SSL.WantReadError:
            pass
        return out

    def give(self, b: bytes) -> None:
        self.conn.bio_write(b)

    def version(self) -> int | None:
        return rank_of_name(self.conn.get_protocol_version_name()) if self.done else None


class PumpEnd:
    """The REAL TLSServerProtocol on a fake TCP transport; the inner protocol is produced by `factory`."""

    def __init__(self, pyo_ctx, factory):
        from nauyaca.server.tls_protocol import TLSServerProtocol

        self.made = 0

        def counting():
            self.made += 1
            return factory()

        self.sp = TLSServerProtocol(counting, pyo_ctx)
        self.tcp = FakeTCP()
        self.sp.connection_made(self.tcp)
        self.err: str | None = None
        self.raised: str | None = None

    @property
    def done(self) -> bool:
        return bool(self.sp.handshake_complete)

    def step(self) -> None:
        if self.tcp.closed and not self.done:
            self.err = "closed"

    def take(self) -> bytes:
        return b"".join(self.tcp.take())

    def give(self, b: bytes) -> None:
        if self.tcp.closed:
            return
        try:
            self.sp.data_received(b)
        except Exception as e:  # noqa: BLE001  (a protocol callback must not raise; recorded, not fatal)
            self.raised = type(e).__name__

    def version(self) -> int | None:
        if not self.done or self.sp.tls_conn is None:
            return None
        return rank_of_name(self.sp.tls_conn.get_protocol_version_name())

    def finish(self) -> None:
        try:
            self.sp.connection_lost(None)
        except Exception:  # noqa: BLE001
            pass


def handshake(client, server, rounds: int = 24) -> dict:
    """Run a handshake between two endpoints.  Returns {'v': rank|None, 'client_err', 'server_err'}."""
    for _ in range(rounds):
        client.step()
        x = client.take()
        if x:
            server.give(x)
        server.step()
        y = server.take()
        if y:
            client.give(y)
        if client.done and server.done:
            break
        if not x and not y and (client.err or server.err):
            break
    client.step()
    ok = client.done and server.done
    v = client.version() if ok else None
    return {"v": v, "client_err": client.err, "server_err": server.err}


# ----------------------------------------------------------------------------------------------
# a whole request/response exchange through the real PyOpenSSL pump (C06)
# ----------------------------------------------------------------------------------------------
class _Sink:
    """Incremental view of the decrypted stream: header line, body length and SHA-256."""

    def __init__(self):
        import hashlib

        self.h = hashlib.sha256()
        self.head = bytearray()
        self.header: bytes | None = None
        self.blen = 0
        self.total = 0

    def add(self, b: bytes) -> None:
        self.total += len(b)
        if self.header is None:
            self.head += b
            i = self.head.find(b"\r\n")
            if i < 0:
                if len(self.head) > 4096:   # no header line in sight: treat everything as header garbage
                    self.header = bytes(self.head)
                    self.head = bytearray()
                return
            self.header = bytes(self.head[:i + 2])
            b = bytes(self.head[i + 2:])
            self.head = bytearray()
        self.h.update(b)
        self.blen += len(b)

    def result(self) -> dict:
        hdr = self.header if self.header is not None else bytes(self.head)
        return {"header": hdr.hex(), "header_complete": self.header is not None and self.header.endswith(b"\r\n"),
                "blen": self.blen, "bsha": self.h.hexdigest(), "total": self.total}


def _split(rec: bytes, reader: str, rng, budget: dict) -> list[bytes]:
    if reader == "fast" or len(rec) < 2:
        return [rec]
    if reader == "slow":
        if budget["bytes"] > 0:
            budget["bytes"] -= len(rec)
            return [rec[i:i + 1] for i in range(len(rec))]
        return [rec[i:i + 997] for i in range(0, len(rec), 997)]
    out, i = [], 0
    while i < len(rec):
        k = 1 if rng.random() < 0.15 else rng.randint(1, 20000)
        out.append(rec[i:i + k])
        i += k
    return out


async def pump_exchange(pyo_ctx, inner_factory, request: bytes, *, reader: str = "fast", rng=None, tlsmax: int = 4,
                        cuts: int = 0, coalesce: bool = False, certkey=None, settle: int = 6) -> dict:
    """Handshake + one request through the REAL TLSServerProtocol on a fake TCP transport, the
    response decrypted record by record by an ssl.SSLObject client whose reading pattern is `reader`."""
    import asyncio
    import random as _random

    rng = rng or _random.Random(0)
    end = PumpEnd(pyo_ctx, inner_factory)
    cl = StdEnd(peer_client_ctx(3, tlsmax, permissive=False, certkey=certkey), False)
    held = b""
    for _ in range(12):
        cl.step()
        x = cl.take()
        if cl.done and coalesce and not end.done:
            held = x          # TLS 1.3: the client's Finished travels together with the request
            break
        if x:
            end.give(x)
        for w in end.tcp.take():
            cl.give(w)
        if cl.done and end.done:
            break
    if not cl.done or (not end.done and not held):
        end.finish()
        return {"error": "handshake", "client_err": cl.err, "closed": end.tcp.closed}
    version = cl.obj.version()
    cl.obj.write(request)
    data = held + cl.take()
    pts = sorted(rng.sample(range(1, len(data)), min(cuts, len(data) - 1))) if cuts and len(data) > 1 else []
    pieces = [data[a:b] for a, b in zip([0] + pts, pts + [len(data)])]
    for p in pieces:
        end.give(p)
    for _ in range(settle):
        await asyncio.sleep(0)
    W = end.tcp.take()
    tcp_sizes = [len(w) for w in W]
    sink = _Sink()
    budget = {"bytes": 40000, "reads": 60000}
    state = {"eof": "none", "after_close": 0}
    plain_sizes: list[int] = []
    rec_sizes: list[int] = []

    def drain() -> int:
        got = 0
        while True:
            if reader == "fast":
                k = 1 << 20
            elif reader == "slow":
                k = 1 if budget["reads"] > 0 else 4093
                budget["reads"] -= 1
            else:
                k = 1 if rng.random() < 0.1 else rng.randint(1, 70000)
            try:
                b = cl.obj.read(k)
            except ssl.SSLWantReadError:
                return got
            except ssl.SSLZeroReturnError:
                state["eof"] = "clean"
                return got
            except ssl.SSLError as e:
                state["eof"] = "error:" + _errkind(e)
                return got
            if not b:
                state["eof"] = "clean"
                return got
            if state["eof"] != "none":
                state["after_close"] += len(b)
            got += len(b)
            sink.add(b)

    buf = bytearray()
    W.reverse()
    while W:
        buf += W.pop()
        while len(buf) >= 5:
            n = 5 + int.from_bytes(buf[3:5], "big")
            if len(buf) < n:
                break
            rec = bytes(buf[:n])
            del buf[:n]
            if state["eof"] != "none":
                state["after_close"] += len(rec)
                continue
            for piece in _split(rec, reader, rng, budget):
                cl.give(piece)
                if reader == "bursty" and rng.random() < 0.3:
                    pass
            got = drain()
            plain_sizes.append(got)
            rec_sizes.append(len(rec))
    tail = len(buf)
    if buf and state["eof"] == "none":
        cl.give(bytes(buf))
        drain()
    if state["eof"] == "none":
        drain()
    # per-record overhead and close-notify size, as observed
    data_recs = [(r, p) for r, p in zip(rec_sizes, plain_sizes) if p > 0]
    ovhs = sorted({r - p for r, p in data_recs})
    cn = rec_sizes[-1] if rec_sizes and plain_sizes[-1] == 0 and state["eof"] == "clean" else 0
    # leading records without plaintext are post-handshake messages (session tickets) when the request was coalesced
    lead = 0
    while lead < len(plain_sizes) and plain_sizes[lead] == 0 and lead < len(plain_sizes) - 1:
        lead += 1
    # ... and were flushed to TCP before the response: take their writes off the front of the list
    lead_bytes = sum(rec_sizes[:lead])
    k = acc = 0
    while k < len(tcp_sizes) and acc < lead_bytes:
        acc += tcp_sizes[k]
        k += 1
    if acc == lead_bytes:
        tcp_sizes = tcp_sizes[k:]
    res = sink.result()
    res.update({"version": version, "eof": state["eof"], "after_close": state["after_close"], "tail": tail,
                "records": [p for p in plain_sizes[lead:] if p > 0], "tcp": tcp_sizes, "lead_records": lead,
                "ovh": ovhs, "cn": cn, "closed": end.tcp.closed, "close_calls": end.tcp.close_calls,
                "dropped": sum(len(x) for x in end.tcp.dropped), "made": end.made, "raised": end.raised})
    end.finish()
    return res


# ----------------------------------------------------------------------------------------------
# how GeminiServerProtocol hands a response to its transport (measured, for Gen/Tls.lean)
# ----------------------------------------------------------------------------------------------
def measure_write_chunk() -> int:
    """Size of the pieces in which `_send_response` writes a body to a transport that never pauses:
    0 = the body is written in one piece.  Measured on the real protocol with a recording transport."""
    import asyncio

    from nauyaca.protocol.response import GeminiResponse
    from nauyaca.server.protocol import GeminiServerProtocol

    sizes_seen = []
    for n in (1, 70001, 300007):
        body = b"x" * n
        tcp = FakeTCP()

        async def go():
            p = GeminiServerProtocol(lambda req: GeminiResponse(20, "a/b", body), None)
            p.connection_made(tcp)
            p.data_received(b"gemini://localhost/\r\n")
            await asyncio.sleep(0)
            p.connection_lost(None)

        asyncio.run(go())
        w = [len(x) for x in tcp.out]
        if sum(w[1:]) != n or not tcp.closed:
            raise RuntimeError(f"unexpected write pattern for a {n}-byte body: {w[:6]}")
        sizes_seen.append(w[1:])
    if all(len(w) == 1 for w in sizes_seen):
        return 0
    c = sizes_seen[-1][0]
    for w in sizes_seen:
        total = sum(w)
        want = [c] * (total // c) + ([total % c] if total % c else [])
        if w != want:
            raise RuntimeError(f"body writes are not uniform pieces: {w[:6]}")
    return c
