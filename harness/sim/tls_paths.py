"""Every way nauyaca constructs a TLS context (C20), each built by calling the REAL function.

`build(pid)` returns `(kind, role, ctx)` with kind in {"std", "pyo"} and role in
{"server", "client"}.  Ids 0..10 are the direct construction functions, 11..14 capture what the
real `start_server(...)` hands to `loop.create_server` (wiring capture: no port is bound), so the
backend choice and the glue between configuration and context are exercised too.
"""
from __future__ import annotations

import asyncio
import os
import shutil
import ssl
import tempfile
from pathlib import Path

from . import tls_peer

PATHS: list[tuple[int, str, str]] = [
    (0, "std_supplied", "security.tls.create_server_context(cert, key)"),
    (1, "std_supplied_cc", "security.tls.create_server_context(cert, key, request_client_cert=True)"),
    (2, "std_selfsigned", "server.server._create_self_signed_context()"),
    (3, "std_selfsigned_cc", "server.server._create_self_signed_context(request_client_cert=True)"),
    (4, "pyo_supplied", "security.pyopenssl_tls.create_pyopenssl_server_context(cert, key)"),
    (5, "pyo_supplied_cc", "security.pyopenssl_tls.create_pyopenssl_server_context(cert, key, request_client_cert=True)"),
    (6, "pyo_selfsigned", "server.server._create_self_signed_pyopenssl_context()"),
    (7, "client_tofu", "client.session.GeminiClient(trust_on_first_use=True).ssl_context"),
    (8, "client_ca", "client.session.GeminiClient(verify_ssl=True, trust_on_first_use=False).ssl_context"),
    (9, "client_plain", "client.session.GeminiClient(verify_ssl=False, trust_on_first_use=False).ssl_context"),
    (10, "client_tofu_cert", "client.session.GeminiClient(trust_on_first_use=True, client_cert=, client_key=).ssl_context"),
    (11, "wired_std_supplied", "start_server(certfile, keyfile) -> ssl= argument of create_server"),
    (12, "wired_std_auto", "start_server(no certificate) -> ssl= argument of create_server"),
    (13, "wired_pyo_supplied", "start_server(certfile, keyfile, require_client_cert=True) -> TLSServerProtocol.ssl_context"),
    (14, "wired_pyo_auto", "start_server(no certificate, certificate_auth rule requiring a certificate) -> TLSServerProtocol.ssl_context"),
]
NAME = {p[0]: p[1] for p in PATHS}
EXPECT_KIND = {0: "std", 1: "std", 2: "std", 3: "std", 4: "pyo", 5: "pyo", 6: "pyo", 7: "std", 8: "std", 9: "std", 10: "std",
               11: "std", 12: "std", 13: "pyo", 14: "pyo"}
ROLE = {i: ("client" if 7 <= i <= 10 else "server") for i in NAME}


class _DummyServer:
    async def __aenter__(self):
        return self

    async def __aexit__(self, *a):
        return False

    async def serve_forever(self):
        return None

    def close(self):
        pass

    async def wait_closed(self):
        return None


class CaptureLoop(asyncio.SelectorEventLoop):
    """`create_server` records the protocol factory and the ssl= argument instead of binding."""

    def __init__(self):
        super().__init__()
        self.captured: list[dict] = []

    async def create_server(self, protocol_factory, host=None, port=None, *, ssl=None, **kw):  # type: ignore[override]
        self.captured.append({"factory": protocol_factory, "host": host, "port": port, "ssl": ssl, "kw": kw})
        return _DummyServer()


def capture_start_server(**cfg_kw):
    """Run the real start_server on a CaptureLoop.  Returns the capture dict."""
    import structlog
    from nauyaca.server.config import ServerConfig
    from nauyaca.server.server import start_server

    start_kw = cfg_kw.pop("_start_kw", {})
    root = tempfile.mkdtemp(prefix="nv-")
    loop = CaptureLoop()
    try:
        with tls_peer.private_tmp():
            cfg = ServerConfig(host="127.0.0.1", port=1965, document_root=Path(root), **cfg_kw)
            loop.run_until_complete(start_server(cfg, enable_rate_limiting=False, log_level="CRITICAL", log_file=Path(os.devnull), **start_kw))
    finally:
        loop.close()
        shutil.rmtree(root, ignore_errors=True)
        __import__('harness.core', fromlist=['core']).configure_harness_logging()      # put the harness logging configuration back
    if len(loop.captured) != 1:
        raise RuntimeError(f"start_server called create_server {len(loop.captured)} times")
    return loop.captured[0]


def _ctx_of_capture(cap):
    if cap["ssl"] is not None:
        return "std", cap["ssl"]
    proto = cap["factory"]()
    ctx = getattr(proto, "ssl_context", None)
    if ctx is None:
        # no TLS at all on this listener: report as such (the caller turns it into a finding)
        return "none", None
    return "pyo", ctx


def build(pid: int):
    """Build the context of construction path `pid` with the real code.  Returns (kind, role, ctx)."""
    from nauyaca.security.certificates import generate_self_signed_cert

    role = ROLE[pid]
    if pid in (0, 1, 4, 5, 11, 13):
        pems = generate_self_signed_cert("localhost")
        with tls_peer.cert_files(pems) as (_d, cf, kf):
            if pid in (0, 1):
                from nauyaca.security.tls import create_server_context

                return "std", role, create_server_context(cf, kf, request_client_cert=(pid == 1))
            if pid in (4, 5):
                from nauyaca.security.pyopenssl_tls import create_pyopenssl_server_context

                return "pyo", role, create_pyopenssl_server_context(cf, kf, request_client_cert=(pid == 5))
            cap = capture_start_server(certfile=cf, keyfile=kf, require_client_cert=(pid == 13))
            kind, ctx = _ctx_of_capture(cap)
            return kind, role, ctx
    if pid in (2, 3, 6):
        from nauyaca.server import server as S

        with tls_peer.private_tmp():
            if pid == 6:
                return "pyo", role, S._create_self_signed_pyopenssl_context()
            return "std", role, S._create_self_signed_context(request_client_cert=(pid == 3))
    if pid in (12, 14):
        kw = {}
        if pid == 14:
            from nauyaca.server.middleware import CertificateAuthConfig, CertificateAuthPathRule

            kw["_start_kw"] = {"certificate_auth_config": CertificateAuthConfig(path_rules=[CertificateAuthPathRule(prefix="/private/", require_cert=True)])}
        kind, ctx = _ctx_of_capture(capture_start_server(**kw))
        return kind, role, ctx
    if pid in (7, 8, 9, 10):
        from nauyaca.client.session import GeminiClient

        d = tempfile.mkdtemp(prefix="nv-")
        try:
            kw = {"tofu_db_path": Path(d) / "tofu.db"}
            if pid == 7:
                kw.update(verify_ssl=False, trust_on_first_use=True)
            elif pid == 8:
                kw.update(verify_ssl=True, trust_on_first_use=False)
            elif pid == 9:
                kw.update(verify_ssl=False, trust_on_first_use=False)
            else:
                c, k = tls_peer.make_cert("client")
                (Path(d) / "cc.pem").write_bytes(c)
                (Path(d) / "ck.pem").write_bytes(k)
                kw.update(verify_ssl=False, trust_on_first_use=True, client_cert=Path(d) / "cc.pem", client_key=Path(d) / "ck.pem")
            cl = GeminiClient(**kw)
            ctx = cl.ssl_context
            db = getattr(cl, "tofu_db", None)
            if db is not None and hasattr(db, "close"):
                try:
                    db.close()
                except Exception:  # noqa: BLE001
                    pass
            return "std", role, ctx
        finally:
            shutil.rmtree(d, ignore_errors=True)
    raise KeyError(pid)


def lower_security_level(kind: str, ctx) -> None:
    """Take OpenSSL's security level out of the picture (it is system configuration, not nauyaca's):
    afterwards the protocol-version setting of the context is the only barrier against old versions."""
    if kind == "std":
        ctx.set_ciphers(tls_peer.PERMISSIVE)
    else:
        ctx.set_cipher_list(tls_peer.PERMISSIVE.encode())


def control(kind: str, role: str, certfile: str, keyfile: str):
    """A context of the same kind and role WITHOUT nauyaca's minimum version (TLS 1.0 enabled,
    security level 0): shows that the old versions are negotiable in this OpenSSL build."""
    if kind == "pyo":
        from OpenSSL import SSL, crypto

        c = SSL.Context(SSL.TLS_SERVER_METHOD)
        c.set_min_proto_version(SSL.TLS1_VERSION)
        c.use_certificate_file(certfile, crypto.FILETYPE_PEM)
        c.use_privatekey_file(keyfile, crypto.FILETYPE_PEM)
        c.set_cipher_list(tls_peer.PERMISSIVE.encode())
        return c
    if role == "server":
        return tls_peer.peer_server_ctx(certfile, keyfile, lo=1, hi=None, permissive=True)
    c = ssl.create_default_context()
    c.check_hostname = False
    c.verify_mode = ssl.CERT_NONE
    c.minimum_version = ssl.TLSVersion.TLSv1
    c.set_ciphers(tls_peer.PERMISSIVE)
    return c
