import NauyacaVerif.Misc.Tofu
import NauyacaVerif.Cl.Redirect

namespace Misc

/-! ## Histories of client calls and trust-store operations (C03, C11)

A history is an arbitrary list of operations.  Every connection made by any operation — a single
`get`, an `upload`/`delete`, every hop of a redirect chain — is one call of `connect`; the run
produces the flat log of connection records in the order they happened. -/

/-- one connection: whom we talk to, what the peer presents, what we would write, what it would answer -/
structure Hop where
  k : Key
  p : Presented
  payload : List Nat
  response : Nat
deriving Repr

/-- record of one connection attempt -/
structure Rec where
  before : Pins
  k : Key
  p : Presented
  out : Outcome
  after : Pins
  acts : List Act
deriving Repr

def mkRec (s : Pins) (h : Hop) : Rec :=
  { before := s, k := h.k, p := h.p, out := (connect s h.k h.p h.payload h.response).2.1,
    after := (connect s h.k h.p h.payload h.response).1, acts := (connect s h.k h.p h.payload h.response).2.2 }

def isAccepted : Outcome → Bool
  | .accepted _ => true
  | _ => false

/-- a redirect chain: hop `i+1` is attempted only when hop `i` was accepted (and answered 3x) -/
def runChain (s : Pins) : List Hop → Pins × List Rec
  | [] => (s, [])
  | h :: hs =>
    if isAccepted (mkRec s h).out then ((runChain (mkRec s h).after hs).1, mkRec s h :: (runChain (mkRec s h).after hs).2)
    else ((mkRec s h).after, [mkRec s h])

/-- `import_toml`, one entry: new key → insert; same fingerprint → skip; different → `on_conflict` -/
def importEntry (update : Bool) (s : Pins) (e : Key × Fp) : Pins :=
  match s.get e.1 with
  | none => s.set e.1 e.2
  | some old => if old = e.2 then s else if update then s.set e.1 e.2 else s

def importAll (update : Bool) (s : Pins) (es : List (Key × Fp)) : Pins := es.foldl (importEntry update) s

inductive Op where
  | fetch (h : Hop)                    -- `GeminiClient.get(..., follow_redirects=False)`
  | upload (h : Hop)                   -- `GeminiClient.upload` / `delete`
  | chain (hops : List Hop)            -- `GeminiClient.get` following redirects
  | trust (k : Key) (f : Fp)
  | revoke (k : Key)
  | revokeHost (host : Nat)
  | clear
  | importToml (replace update : Bool) (entries : List (Key × Fp))
deriving Repr

def stepOp (s : Pins) : Op → Pins × List Rec
  | .fetch h => runChain s [h]
  | .upload h => runChain s [h]
  | .chain hs => runChain s hs
  | .trust k f => (s.set k f, [])
  | .revoke k => (s.del k, [])
  | .revokeHost h => (s.filter (·.1.1 != h), [])
  | .clear => ([], [])
  | .importToml repl upd es => (importAll upd (if repl then [] else s) es, [])

/-- run a history: final store and the flat log of all connection records -/
def runOps (s : Pins) : List Op → Pins × List Rec
  | [] => (s, [])
  | o :: os => ((runOps (stepOp s o).1 os).1, (stepOp s o).2 ++ (runOps (stepOp s o).1 os).2)

/-- per-step view for the driver: store after each step and that step's records -/
def runSteps (s : Pins) : List Op → List (Pins × List Rec)
  | [] => []
  | o :: os => stepOp s o :: runSteps (stepOp s o).1 os

/-- the property statement for one connection record -/
def RecOK (r : Rec) : Prop :=
  match r.p with
  | .unreadable => r.out = .refused ∧ r.after = r.before ∧ noSend r.acts = true
  | .cert fp =>
    match r.before.get r.k with
    | none => (∃ x, r.out = .accepted x) ∧ r.after.get r.k = some fp ∧ (∀ k', r.k ≠ k' → r.after.get k' = r.before.get k')
    | some old =>
      if old = fp then (∃ x, r.out = .accepted x) ∧ r.after = r.before
      else r.out = .changed old fp ∧ r.after = r.before ∧ noSend r.acts = true

theorem mkRec_ok (s : Pins) (h : Hop) : RecOK (mkRec s h) := by
  obtain ⟨k, p, pl, resp⟩ := h
  unfold RecOK mkRec
  cases p with
  | unreadable => exact ⟨rfl, rfl, rfl⟩
  | cert fp =>
    simp only
    cases hg : s.get k with
    | none =>
      simp only
      refine ⟨⟨resp, (connect_first_use s k fp pl resp hg).1⟩, (connect_first_use s k fp pl resp hg).2, ?_⟩
      intro k' hk
      exact connect_frame s k k' (.cert fp) pl resp hk
    | some old =>
      simp only
      by_cases he : old = fp
      · subst he
        simp only [↓reduceIte]
        exact ⟨⟨resp, (connect_same s k old pl resp hg).1⟩, (connect_same s k old pl resp hg).2⟩
      · simp only [he, ↓reduceIte]
        have h1 := connect_changed s k old fp pl resp hg he
        refine ⟨h1.1, h1.2, ?_⟩
        exact (send_after_verify s k (.cert fp) pl resp none).2 (by rw [h1.1]; intro x hx; cases hx)

/-- every record in a log was produced by `connect` from the store of that moment -/
def FromConnect (r : Rec) : Prop := ∃ s h, r = mkRec s h

theorem runChain_from (s : Pins) (hs : List Hop) : ∀ r ∈ (runChain s hs).2, FromConnect r := by
  induction hs generalizing s with
  | nil => intro r hr; simp [runChain] at hr
  | cons h t ih =>
    intro r hr
    simp only [runChain] at hr
    split at hr
    · simp only [List.mem_cons] at hr
      rcases hr with rfl | hr
      · exact ⟨s, h, rfl⟩
      · exact ih _ r hr
    · simp only [List.mem_singleton] at hr
      subst hr; exact ⟨s, h, rfl⟩

theorem stepOp_from (s : Pins) (o : Op) : ∀ r ∈ (stepOp s o).2, FromConnect r := by
  cases o with
  | fetch h => exact runChain_from s [h]
  | upload h => exact runChain_from s [h]
  | chain hs => exact runChain_from s hs
  | trust k f => intro r hr; simp [stepOp] at hr
  | revoke k => intro r hr; simp [stepOp] at hr
  | revokeHost h => intro r hr; simp [stepOp] at hr
  | clear => intro r hr; simp [stepOp] at hr
  | importToml a b c => intro r hr; simp [stepOp] at hr

theorem runOps_from (s : Pins) (ops : List Op) : ∀ r ∈ (runOps s ops).2, FromConnect r := by
  induction ops generalizing s with
  | nil => intro r hr; simp [runOps] at hr
  | cons o os ih =>
    intro r hr
    simp only [runOps, List.mem_append] at hr
    rcases hr with hr | hr
    · exact stepOp_from s o r hr
    · exact ih _ r hr

/-- C03 over histories: every connection of every history satisfies the property statement -/
theorem history_sound (s : Pins) (ops : List Op) : ∀ r ∈ (runOps s ops).2, RecOK r := by
  intro r hr
  obtain ⟨s', h, rfl⟩ := runOps_from s ops r hr
  exact mkRec_ok s' h

/-- C03 over histories: an accepted connection to a pinned key presented the pin -/
theorem recOK_pinned (r : Rec) (h : RecOK r) (x : Nat) (hacc : r.out = .accepted x) (pin : Fp)
    (hpin : r.before.get r.k = some pin) : r.p = .cert pin := by
  unfold RecOK at h
  cases hp : r.p with
  | unreadable => simp only [hp] at h; rw [h.1] at hacc; cases hacc
  | cert fp =>
    simp only [hp, hpin] at h
    by_cases he : pin = fp
    · rw [he]
    · simp only [he, ↓reduceIte] at h; rw [h.1] at hacc; cases hacc

/-! ### the records of one operation are chained: each starts from the store the previous one left -/
def Linked : Pins → List Rec → Pins → Prop
  | s, [], s' => s = s'
  | s, r :: rs, s' => r.before = s ∧ Linked r.after rs s'

theorem runChain_linked (s : Pins) (hs : List Hop) : Linked s (runChain s hs).2 (runChain s hs).1 := by
  induction hs generalizing s with
  | nil => rfl
  | cons h t ih =>
    simp only [runChain]
    split
    · exact ⟨rfl, ih _⟩
    · exact ⟨rfl, rfl⟩

/-- in a chain every record but the last was accepted: a failed hop ends the chain -/
theorem runChain_stops (s : Pins) (hs : List Hop) (i : Nat) (r : Rec)
    (hi : (runChain s hs).2[i]? = some r) (hlast : i + 1 < (runChain s hs).2.length) : isAccepted r.out = true := by
  induction hs generalizing s i with
  | nil => simp [runChain] at hi
  | cons h t ih =>
    simp only [runChain] at hi hlast
    split at hi
    · rename_i hacc
      simp only [hacc, ↓reduceIte] at hlast
      cases i with
      | zero => simp at hi; subst hi; exact hacc
      | succ n =>
        simp only [List.getElem?_cons_succ] at hi
        exact ih _ n hi (by simpa using hlast)
    · rename_i hacc
      simp only [hacc] at hlast
      simp at hlast

/-! ### frame: keys not named by an operation keep their pins -/
def touches : Op → Key → Prop
  | .fetch h, k => h.k = k
  | .upload h, k => h.k = k
  | .chain hs, k => ∃ h ∈ hs, h.k = k
  | .trust k0 _, k => k0 = k
  | .revoke k0, k => k0 = k
  | .revokeHost h, k => k.1 = h
  | .clear, _ => True
  | .importToml repl _ es, k => repl = true ∨ ∃ e ∈ es, e.1 = k

theorem mkRec_frame (s : Pins) (h : Hop) (k : Key) (hk : h.k ≠ k) : (mkRec s h).after.get k = s.get k :=
  connect_frame s h.k k h.p h.payload h.response hk

theorem runChain_frame (s : Pins) (hs : List Hop) (k : Key) (hk : ∀ h ∈ hs, h.k ≠ k) :
    (runChain s hs).1.get k = s.get k := by
  induction hs generalizing s with
  | nil => rfl
  | cons h t ih =>
    simp only [runChain]
    have h1 := mkRec_frame s h k (hk h (by simp))
    split
    · rw [ih _ (fun x hx => hk x (by simp [hx]))]; exact h1
    · exact h1

theorem importEntry_frame (u : Bool) (s : Pins) (e : Key × Fp) (k : Key) (hk : e.1 ≠ k) :
    (importEntry u s e).get k = s.get k := by
  unfold importEntry
  split
  · exact get_set_other s e.1 k e.2 hk
  · split
    · rfl
    · split
      · exact get_set_other s e.1 k e.2 hk
      · rfl

theorem importAll_frame (u : Bool) (s : Pins) (es : List (Key × Fp)) (k : Key) (hk : ∀ e ∈ es, e.1 ≠ k) :
    (importAll u s es).get k = s.get k := by
  unfold importAll
  induction es generalizing s with
  | nil => rfl
  | cons e t ih =>
    simp only [List.foldl_cons]
    rw [ih _ (fun x hx => hk x (by simp [hx]))]
    exact importEntry_frame u s e k (hk e (by simp))

/-- C03 frame for every operation of a history -/
theorem stepOp_frame (s : Pins) (o : Op) (k : Key) (h : ¬ touches o k) : (stepOp s o).1.get k = s.get k := by
  cases o with
  | fetch hp =>
    exact runChain_frame s [hp] k (by intro x hx; simp at hx; subst hx; exact h)
  | upload hp =>
    exact runChain_frame s [hp] k (by intro x hx; simp at hx; subst hx; exact h)
  | chain hs =>
    exact runChain_frame s hs k (fun x hx hxk => h ⟨x, hx, hxk⟩)
  | trust k0 f => exact get_set_other s k0 k f h
  | revoke k0 => exact get_del_other s k0 k h
  | revokeHost host =>
    simp only [stepOp]
    apply get_filter_keep
    intro e he
    have : e.1.1 ≠ host := by rw [he]; exact h
    simpa using this
  | clear => exact absurd trivial h
  | importToml repl upd es =>
    simp only [touches, not_or] at h
    have hr : repl = false := by cases repl <;> simp_all
    subst hr
    simp only [stepOp, Bool.false_eq_true, ↓reduceIte]
    exact importAll_frame upd s es k (fun e he hek => h.2 ⟨e, he, hek⟩)

/-! ### import: what it does to the key it names -/
theorem importEntry_new (u : Bool) (s : Pins) (k : Key) (f : Fp) (h : s.get k = none) :
    (importEntry u s (k, f)).get k = some f := by
  simp only [importEntry, h]; exact get_set_self s k f

theorem importEntry_conflict_skip (s : Pins) (k : Key) (f old : Fp) (h : s.get k = some old) :
    importEntry false s (k, f) = s := by
  simp only [importEntry, h]
  split <;> simp

/-! ### TOFU off -/
/-- with TOFU disabled no connection reads or writes the store and every certificate is accepted -/
theorem tofu_off (s : Pins) (k : Key) (p : Presented) (pl : List Nat) (r : Nat) :
    (connectOff s k p pl r).1 = s ∧ (connectOff s k p pl r).2.1 = .accepted r ∧
    peerReceived (connectOff s k p pl r).2.2 = pl ∧
    (∀ k' b, Act.verify k' b ∉ (connectOff s k p pl r).2.2) ∧ (∀ k' f, Act.trust k' f ∉ (connectOff s k p pl r).2.2) := by
  refine ⟨rfl, rfl, ?_, ?_, ?_⟩
  · simp only [connectOff, List.cons_append, List.nil_append, peerReceived]
    rw [peerReceived_sends]; simp [peerReceived]
  · intro k' b; simp [connectOff, sends]
  · intro k' f; simp [connectOff, sends]

/-! ### C11 over histories: the flat effect trace -/
def traceOf (rs : List Rec) : List Act := rs.flatMap (·.acts)

theorem mkRec_guarded (s : Pins) (h : Hop) (v : Option Key) : guarded v (mkRec s h).acts = true :=
  (send_after_verify s h.k h.p h.payload h.response v).1

/-- a trace that is guarded from every start state can be put behind any guarded trace -/
theorem guarded_append (a b : List Act) (v : Option Key) (ha : guarded v a = true) (hb : ∀ w, guarded w b = true) :
    guarded v (a ++ b) = true := by
  induction a generalizing v with
  | nil => exact hb v
  | cons x xs ih =>
    cases x with
    | connect k => simp only [List.cons_append, guarded] at ha ⊢; exact ih _ ha
    | verify k ok => simp only [List.cons_append, guarded] at ha ⊢; exact ih _ ha
    | trust k f => simp only [List.cons_append, guarded] at ha ⊢; exact ih _ ha
    | send k c =>
      simp only [List.cons_append, guarded, Bool.and_eq_true] at ha ⊢
      exact ⟨ha.1, ih _ ha.2⟩
    | await => simp only [List.cons_append, guarded] at ha ⊢; exact ih _ ha
    | close => simp only [List.cons_append, guarded] at ha ⊢; exact ih _ ha

theorem trace_guarded (rs : List Rec) (h : ∀ r ∈ rs, FromConnect r) : ∀ v, guarded v (traceOf rs) = true := by
  induction rs with
  | nil => intro v; rfl
  | cons r t ih =>
    intro v
    simp only [traceOf, List.flatMap_cons]
    obtain ⟨s, hp, rfl⟩ := h r (by simp)
    exact guarded_append _ _ v (mkRec_guarded s hp v) (ih (fun x hx => h x (by simp [hx])))

/-- C11 over histories (single calls, uploads, redirect chains, any store operations in between):
    in the concatenated effect trace every `send` follows a successful `verify` on its own connection -/
theorem history_guarded (s : Pins) (ops : List Op) (v : Option Key) :
    guarded v (traceOf (runOps s ops).2) = true :=
  trace_guarded _ (runOps_from s ops) v

/-- C11: a connection that was not accepted delivered nothing to the peer -/
theorem rec_fail_silent (r : Rec) (h : FromConnect r) (hna : isAccepted r.out = false) : peerReceived r.acts = [] := by
  obtain ⟨s, hp, rfl⟩ := h
  apply noSend_peer
  apply (send_after_verify s hp.k hp.p hp.payload hp.response none).2
  intro x hx
  simp only [mkRec] at hna
  rw [hx] at hna
  simp [isAccepted] at hna

/-- C11: an accepted connection delivered exactly its payload -/
theorem rec_ok_payload (s : Pins) (hp : Hop) (hacc : isAccepted (mkRec s hp).out = true) :
    peerReceived (mkRec s hp).acts = hp.payload := by
  simp only [mkRec] at hacc ⊢
  cases hc : (connect s hp.k hp.p hp.payload hp.response).2.1 with
  | accepted x => exact accepted_payload s hp.k hp.p hp.payload hp.response x hc
  | changed a b => rw [hc] at hacc; simp [isAccepted] at hacc
  | refused => rw [hc] at hacc; simp [isAccepted] at hacc

/-! ### redirect following with a store: M-Redirect threaded through `connect`

`followT` is `Cl.follow` (`_get_with_redirects`) in which fetching a URL means: look up who serves it
(`srv`), make ONE `connect` against the current store, and use the answer only if that was accepted.
Every hop therefore goes through `connect` by construction; the theorems say so. -/
structure Site where
  hop : Hop
  resp : Cl.Resp

def followT (srv : Cl.Url → Option Site) (max : Nat) : Nat → Pins → Cl.Url → List Cl.Url → Pins × Cl.Result × List Rec
  | 0, s, _, _ => (s, .tooMany, [])
  | fuel + 1, s, url, chain =>
    if chain.contains url then (s, .loop, [])
    else if chain.length > max then (s, .tooMany, [])
    else match srv url with
      | none => (s, .fetchErr, [])                 -- no TLS peer at all: no connection record
      | some site =>
        if isAccepted (mkRec s site.hop).out then
          match site.resp with
          | .final st => ((mkRec s site.hop).after, .ok (.final st), [mkRec s site.hop])
          | .redirect st tgt =>
            if tgt.isEmpty then ((mkRec s site.hop).after, .missing, [mkRec s site.hop])
            else if !Cl.gem.isPrefixOf tgt then ((mkRec s site.hop).after, .ok (.redirect st tgt), [mkRec s site.hop])
            else
              ((followT srv max fuel (mkRec s site.hop).after tgt (chain ++ [url])).1,
               (followT srv max fuel (mkRec s site.hop).after tgt (chain ++ [url])).2.1,
               mkRec s site.hop :: (followT srv max fuel (mkRec s site.hop).after tgt (chain ++ [url])).2.2)
        else ((mkRec s site.hop).after, .fetchErr, [mkRec s site.hop])

theorem followT_from (srv : Cl.Url → Option Site) (max fuel : Nat) (s : Pins) (url : Cl.Url) (chain : List Cl.Url) :
    ∀ r ∈ (followT srv max fuel s url chain).2.2, FromConnect r := by
  induction fuel generalizing s url chain with
  | zero => intro r hr; simp [followT] at hr
  | succ n ih =>
    intro r hr
    simp only [followT] at hr
    split at hr
    · simp at hr
    · split at hr
      · simp at hr
      · split at hr
        · simp at hr
        · rename_i site _
          split at hr
          · split at hr
            · simp at hr; subst hr; exact ⟨s, site.hop, rfl⟩
            · split at hr
              · simp at hr; subst hr; exact ⟨s, site.hop, rfl⟩
              · split at hr
                · simp at hr; subst hr; exact ⟨s, site.hop, rfl⟩
                · simp only [List.mem_cons] at hr
                  rcases hr with rfl | hr
                  · exact ⟨s, site.hop, rfl⟩
                  · exact ih _ _ _ r hr
          · simp at hr; subst hr; exact ⟨s, site.hop, rfl⟩

/-- C03 `redirect_every_hop`: every connection made while following redirects is checked like any other -/
theorem followT_checked (srv : Cl.Url → Option Site) (max fuel : Nat) (s : Pins) (url : Cl.Url) (chain : List Cl.Url) :
    ∀ r ∈ (followT srv max fuel s url chain).2.2, RecOK r := by
  intro r hr
  obtain ⟨s', h, rfl⟩ := followT_from srv max fuel s url chain r hr
  exact mkRec_ok s' h

/-- C11 lifted through M-Redirect: the effect trace of a followed fetch is guarded hop by hop -/
theorem followT_guarded (srv : Cl.Url → Option Site) (max fuel : Nat) (s : Pins) (url : Cl.Url) (chain : List Cl.Url)
    (v : Option Key) : guarded v (traceOf (followT srv max fuel s url chain).2.2) = true :=
  trace_guarded _ (followT_from srv max fuel s url chain) v

/-- a response (final or non-gemini redirect) is returned only if the last connection was accepted -/
theorem followT_ok_last (srv : Cl.Url → Option Site) (max fuel : Nat) (s : Pins) (url : Cl.Url) (chain : List Cl.Url)
    (resp : Cl.Resp) (h : (followT srv max fuel s url chain).2.1 = .ok resp) :
    ∃ r, (followT srv max fuel s url chain).2.2.getLast? = some r ∧ isAccepted r.out = true := by
  induction fuel generalizing s url chain with
  | zero => simp [followT] at h
  | succ n ih =>
    by_cases hc : url ∈ chain
    · simp [followT, hc] at h
    · by_cases hl : max < chain.length
      · simp [followT, hc, hl] at h
      · cases hs : srv url with
        | none => simp [followT, hc, hl, hs] at h
        | some site =>
          by_cases hacc : isAccepted (mkRec s site.hop).out = true
          · cases hresp : site.resp with
            | final st =>
              refine ⟨mkRec s site.hop, ?_, hacc⟩
              simp [followT, hc, hl, hs, hacc, hresp]
            | redirect st tgt =>
              by_cases he : tgt = []
              · simp [followT, hc, hl, hs, hacc, hresp, he] at h
              · cases hg : Cl.gem.isPrefixOf tgt with
                | false =>
                  refine ⟨mkRec s site.hop, ?_, hacc⟩
                  simp [followT, hc, hl, hs, hacc, hresp, he, hg]
                | true =>
                  have h' : (followT srv max n (mkRec s site.hop).after tgt (chain ++ [url])).2.1 = .ok resp := by
                    simpa [followT, hc, hl, hs, hacc, hresp, he, hg] using h
                  obtain ⟨r, hr1, hr2⟩ := ih _ _ _ h'
                  refine ⟨r, ?_, hr2⟩
                  simp [followT, hc, hl, hs, hacc, hresp, he, hg, List.getLast?_cons, hr1]
          · simp [followT, hc, hl, hs, hacc] at h
end Misc
