"""C18  The reverse proxy relays responses verbatim and contains upstream faults

Correspondence: a scripted TLS upstream on loopback (byte-level scripts: send / sleep / close / reset /
hold), the real `ProxyHandler` with its real `GeminiClient` behind the real `GeminiServerProtocol` on a
fake downstream transport; what the downstream client receives is compared byte for byte with
`Srv.render (Srv.proxyRespond …)` of the Lean model (driver op `relay`) and judged by a direct oracle.
 * family `relay`   — one request at a time, real TLS upstream, wall-clock timeouts of 0.3-2 s;
 * family `wired`   — the deployment as wired from a TOML file (`ServerConfig.get_location_router()`: several proxy
   locations, possibly for one upstream, own or default timeouts) behind the real `GeminiServerProtocol`, several
   requests per deployment (overlapping or not), scripted network on a virtual clock (`sim/proxy_world.py`): slow
   upstreams and location timeouts around and above 30 s, answer times checked exactly;
 * family `overlap` — real TLS again: several requests in flight through one `ProxyHandler`, bodies sent in pieces.
 * family `backlog` — the deployment of `wired`, several downstream connections in one process, downstream clients that
   read late, in steps, or drop the connection while the server is held up by flow control (`sim/proxy_flow.py`);
   each case in a child process of its own.
"""
from __future__ import annotations

import asyncio
import hashlib
import logging
import random
import re
import time

from .. import core
from ..core import Family, cps

ID = "C18"
READY = True
LEAN_TARGETS = ["NauyacaVerif.Props.C18"]
THEOREMS = [f"NauyacaVerif.C18.{t}" for t in (
    "proxy_relay", "proxy_faults", "proxy_fault_kinds", "proxy_one_wellformed", "proxy_no_follow", "proxy_single_connection",
    "maxMeta_tie", "decodeText_tie", "followRedirects_tie", "tofu_tie")]
EXTRACT = ["maxMeta", "maxBody", "maxHeader"]
ASSUMPTIONS = [
    "source-shape facts of server/proxy.py (follow_redirects=False, decode_text=False, trust_on_first_use=False, the status named by each except clause) are read with ast on every run into Gen/ProxyGen.lean; proxy_faults / proxy_no_follow are stated over them",
    "proxy_relay assumes the codec contract for the meta: UTF-8 decode followed by encode is the identity on valid UTF-8",
    "which except clause a given upstream behaviour ends in (Srv.Fault.cls) is the client's classification (C13); here it is checked against the real client by the scripted upstream, not proved",
    "a TCP FIN in the middle of a 2x body is indistinguishable from the end of the body (Gemini has no length field): the bytes received so far are the response",
    "'malformed' is judged by the oracle as: no CRLF, header longer than 2+1+1024 bytes, status not two ASCII digits in 10-69, meta not UTF-8 or containing a bare CR/LF, missing separator for a status below 40; a 4x-6x header without the separator may be relayed (with status/meta/body unchanged) or answered with 43",
    "family wired: only the network is simulated (loop.create_connection replaced; connections with asyncio's transport semantics: close() is followed by connection_lost(None), nothing is delivered after close, "
    "a raising data_received is a fatal error), time is the event loop's virtual clock; connects complete at once, so an answer is due when the upstream's response is complete or, for a stalling upstream, "
    "exactly one location timeout after the request (2 ms tolerance); the documented default timeout of a location is 30 s; upstream events within 40 ms of the timeout's expiry are not generated; "
    "the model is compared on one request of each case (`focus`), the oracle judges all of them",
    "family overlap (real TLS, wall clock): the location timeout is 4 s, scripts last at most 0.8 s, faults are resets and closes only (no stalls), so no verdict depends on scheduling",
    "family backlog: as family wired, but a downstream connection takes `room` bytes without the client reading and buffers the rest; a buffer above the protocol's high-water mark is signalled by pause_writing "
    "during that write, resume_writing follows when the client has read it down to the low-water mark, close() flushes before connection_lost, a dropped connection discards the buffer (asyncio's transport contract); "
    "every client that stays reads everything in the end and is judged on all the bytes it received (no time limit on reading); a client that dropped out is judged on the bytes it had received: they are the "
    "beginning of its own response; each case runs in a forked child process, so no case depends on what earlier cases left in the interpreter",
    "timing: every scripted upstream accepts the TCP connection at once, so the fetch — and with it the answer — is due one location timeout after the request; the oracle allows 0.45 s of scheduling margin, repeats a late case twice and reports it only when all three attempts are late; no answer within timeout + 2.5 s is a hang",
]
LEVEL_TEXT = "partial"
LEVEL_NOTE = ("proved over the models: the server side writes exactly the bytes of a well-formed upstream response (any status, media type, charset label; body as bytes), "
              "every failure class of the fetch becomes one well-formed 43, a 3x is returned after exactly one connection; "
              "tested, not proved: the mapping from real upstream behaviour (TLS, sockets, timers, the client's header parser and caps) to those classes")
TECHNIQUE = "Lean 4 proofs (relay_verbatim, proxy_faults, proxy_no_follow over M-Render and the extracted except-clause table) + differential testing against a scripted loopback TLS upstream with fault injection, byte comparison downstream; whole-deployment runs (TOML config -> router -> server protocol -> proxy -> scripted network) on a virtual clock with overlapping requests, slow upstreams and per-location timeouts"

logging.disable(logging.CRITICAL)

CAP = 10 * 1024 * 1024
REQ = "gemini://front.example/x?q"
METAS_2X = ["text/gemini", "text/plain", "text/plain; charset=utf-8", "text/plain; charset=latin-1", "text/plain;charset=ISO-8859-1", "text/gemini; charset=utf-16",
            "text/plain; charset=shift_jis", "text/plain; charset=x-unknown-9", 'text/plain; charset="utf-8"', "text/gemini; lang=de; charset=cp1252", "", " ", "application/octet-stream",
            "image/png", "TEXT/PLAIN; CHARSET=LATIN-1", "text/plain; charset=", "text/x" + "y" * 1017, "text/" + "é" * 509 + "z", "text/plain\t; x=\x00\x1b", "text/plain  ", " text/plain",
            "text/plain; charset=utf-8; charset=latin-1", "message/rfc822", "x"]
TEXTS = ["héllo wörld\n", "日本語のテキスト\n", "# Title\r\n=> gemini://a/ b\r\n", "", "a", "﻿bom", "emoji \U0001f600\n"]


def body_variants(rng):
    t = rng.choice(TEXTS)
    r = rng.random()
    if r < 0.2:
        return t.encode("utf-8")
    if r < 0.35:
        return t.encode("latin-1", "replace")
    if r < 0.45:
        return t.encode("utf-16")
    if r < 0.55:
        return t.encode("shift_jis", "replace")
    if r < 0.6:
        return t.encode("cp1252", "replace")
    if r < 0.8:
        return bytes(rng.randrange(256) for _ in range(rng.choice([1, 2, 17, 255, 1024])))
    if r < 0.85:
        return b""
    if r < 0.9:
        return b"\xff\xfe\x00\r\n\r\n\x80"
    return b"20 text/plain\r\nnested header\r\n"


def send(b: bytes):
    return ["send", b.hex()]


MARGIN = 0.45   # scheduling allowance on top of the location timeout, seconds of wall clock
WIDE = ["é", "ñ", "日", "語", "\U0001f600", "ß", "Ω", "\u20ac"]


def meta_of_bytes(ch: str, target: int, pad_first: bool) -> str:
    """a meta of exactly `target` UTF-8 bytes made of the character `ch` and ASCII padding"""
    w = len(ch.encode("utf-8"))
    k, r = divmod(target, w)
    return ("a" * r + ch * k) if pad_first else (ch * k + "a" * r)


def trickle(data: bytes, gap: float, step: int = 1):
    acts = []
    for i in range(0, len(data), step):
        acts.append(send(data[i:i + step]))
        acts.append(["sleep", gap])
    return acts


def timeline(actions):
    """[(time, bytes sent at that time)], time the script ends, how it ends"""
    t, out = 0.0, []
    for a in actions:
        if a[0] == "send":
            out.append((t, bytes.fromhex(a[1])))
        elif a[0] == "sendn":
            out.append((t, bytes([a[1]]) * a[2]))
        elif a[0] == "sleep":
            t += a[1]
        elif a[0] in ("close", "reset", "hold"):
            return out, t, a[0]
    return out, t, "close"


def resp_actions(rng, header: bytes, body: bytes):
    """header + body cut into a few writes, sometimes with pauses, then close"""
    data = header + body
    acts = []
    if len(data) <= 4096 and rng.random() < 0.5:
        cuts = sorted(rng.sample(range(1, len(data)), min(len(data) - 1, rng.choice([1, 2, 3])))) if len(data) > 1 else []
        prev = 0
        for c in cuts + [len(data)]:
            acts.append(send(data[prev:c]))
            if rng.random() < 0.4:
                acts.append(["sleep", 0.01])
            prev = c
    else:
        acts.append(send(data))
    acts.append(["close"])
    return acts


# ------------------------------------------------------------------------------------------------
# specification side: what the upstream's byte stream means (written from the property text)
# ------------------------------------------------------------------------------------------------
def stream_of(actions) -> tuple[bytes | None, str]:
    """bytes the script sends before it ends, and how it ends (close | reset | hold); None for streams too long to materialise"""
    out = bytearray()
    for a in actions:
        if a[0] == "send":
            out += bytes.fromhex(a[1])
        elif a[0] == "sendn":
            out += bytes([a[1]]) * a[2]
        elif a[0] in ("close", "reset", "hold"):
            return bytes(out), a[0]
    return bytes(out), "close"


def classify_stream(data: bytes):
    """('well', status, meta_bytes, body) | ('grey', status, b'', body) | ('bad', reason)"""
    i = data.find(b"\r\n")
    if i < 0:
        return ("bad", "no-crlf")
    if i > 2 + 1 + 1024:
        return ("bad", "header-too-long")
    line, rest = data[:i], data[i + 2:]
    m = re.fullmatch(rb"([0-9]{2})(?: (.*))?", line, re.S)
    if not m:
        if re.match(rb"\s*[+-]?[0-9_\s]+", line) or line[:1].isdigit() is False:
            return ("bad", "status-spelling")
        return ("bad", "status-spelling")
    st = int(m.group(1))
    if not 10 <= st <= 69:
        return ("bad", "status-range")
    meta = m.group(2)
    if meta is None:
        if st < 40:
            return ("bad", "missing-space")
        return ("grey", st, b"", b"")
    if b"\r" in meta or b"\n" in meta:
        return ("bad", "meta-bare-cr-lf")
    try:
        meta.decode("utf-8")
    except UnicodeDecodeError:
        return ("bad", "bad-utf8")
    body = rest if 20 <= st <= 29 else b""
    if len(body) > CAP:
        return ("bad", "body-over-cap")
    return ("well", st, meta, body)


def parse_down(data: bytes):
    """(status, meta, body) of a well-formed downstream response, else None"""
    i = data.find(b"\r\n")
    if i < 0:
        return None
    line, body = data[:i], data[i + 2:]
    m = re.fullmatch(rb"([1-6][0-9]) ([^\r\n]{0,1024})", line, re.S)
    if not m:
        return None
    st = int(m.group(1))
    if body and not 20 <= st <= 29:
        return None
    return st, m.group(2), body


def digest(b: bytes):
    if len(b) <= 2048:
        return {"hex": b.hex()}
    return {"len": len(b), "sha1": hashlib.sha1(b).hexdigest(), "head": b[:48].hex()}


class Relay(Family):
    realtime = True     # runs on the wall clock (sockets, threads): a failure is re-run once before it counts (core.run_family)
    name = "relay"
    quick_n = 1200
    thorough_n = 20000
    parallel = False

    def setup(self):
        from ..sim import url_upstream as U

        if getattr(self, "_ready", False):
            return
        self.U = U
        self.loop = U.quiet_loop()
        run = self.loop.run_until_complete
        self.up = run(U.Upstream().start())
        self.decoy = run(U.Upstream().start())
        self.plain = run(U.PlainGarbage().start())
        self.mute = run(U.Upstream(tls=False).start())  # accepts TCP, never answers the TLS hello
        self._handlers: dict = {}
        self._ready = True

    # ---- generator ------------------------------------------------------------------------------
    def gen(self, rng: random.Random, n: int):
        out = []

        def case(kind, actions, **kw):
            c = {"kind": kind, "actions": actions, "timeout": 2.0}
            c.update(kw)
            out.append(c)

        # every status 10-69 with a meta of its kind
        for st in range(10, 70):
            meta = {1: "Enter a value, please", 2: rng.choice(METAS_2X[:8]), 3: "gemini://127.0.0.1:$D/moved?x", 4: "slow down", 5: "Not found", 6: "certificate needed"}[st // 10]
            body = b"body for " + str(st).encode() if 20 <= st <= 29 else (b"" if rng.random() < 0.7 else b"ignored body")
            case("resp", resp_actions(rng, f"{st} {meta}\r\n".encode(), body))
        # the defect witnesses and boundary metas
        case("resp", [send(b"20 text/plain; charset=latin-1\r\n\xe9t\xe9\n"), ["close"]])
        case("resp", [send(b"20 text/gemini; charset=utf-16\r\n" + "héllo".encode("utf-16")), ["close"]])
        case("resp", [send(b"20 text/plain; charset=x-unknown-9\r\n\x80\x81"), ["close"]])
        case("resp", [send(b"20 text/plain\r\n\xff\xfe not utf-8"), ["close"]])
        for mlen in (1023, 1024, 1025, 1026, 2000):
            case("resp", [send(b"20 " + b"m" * mlen + b"\r\nB"), ["close"]])
        case("resp", [send(b"20 " + "é".encode() * 512 + b"\r\nB"), ["close"]])
        case("resp", [send(b"44 " + "é".encode() * 511 + b"zz\r\n"), ["close"]])
        # malformed headers
        for h in (b"+20 text/plain", b" 20 text/plain", b"\t20 x", b"2_0 x", "٢٠ x".encode(), b"020 x", b"2 x", b"200 x", b"20\ttext/plain", b"20", b"30", b"11", b"51", b"69", b"40",
                  b"20 text/plain\rfoo", b"51 not\nfound", b"20 a\r", b"09 x", b"70 x", b"99 x", b"00 x", b"-1 x", b"2O x", b"", b" ", b"20 text/\xff", b"\xff\xfe", b"HTTP/1.1 200 OK",
                  b"20 " + b"a" * 1100, b"x" * 3000):
            case("resp", [send(h + b"\r\nbody"), ["close"]])
        case("resp", [send(b"20 text/plain"), ["close"]])            # close mid-header
        case("resp", [send(b"2"), ["close"]])
        case("resp", [["close"]])                                     # close before header
        case("resp", [send(b"x" * 1500), ["close"]])                  # no CRLF at all, long
        case("resp", [send(b"20 text/plain\r"), ["sleep", 0.02], send(b"\nsplit crlf"), ["close"]])
        # faults
        case("fault", [], fault="refused")
        case("fault", [], fault="tlsFailure")
        case("fault", [], fault="stallConnect", timeout=0.3)
        case("fault", [["hold"]], fault="stallHeader", timeout=0.3)
        case("fault", [send(b"20 text/pl"), ["hold"]], fault="stallHeader", timeout=0.3)
        case("fault", [send(b"20 text/plain\r\npartial"), ["hold"]], fault="stallBody", timeout=0.3)
        case("fault", [send(b"20 text/plain\r\n"), ["sleep", 0.7], send(b"late"), ["close"]], fault="stallBody", timeout=0.3)
        case("fault", [send(b"20 text/plain\r\nabc"), ["sleep", 0.05], ["reset"]], fault="reset")
        case("fault", [["reset"]], fault="reset")
        case("fault", [send(b"20 te"), ["sleep", 0.05], ["reset"]], fault="reset")
        # multi-byte metas around the 1024-BYTE limit (fewer than 1024 characters), in one read and split
        k = 0
        for ch in ("é", "ñ", "日", "\U0001f600"):
            for target in range(1020, 1032):
                for pad_first in (False, True):
                    st = (20, 31, 10, 51, 44, 62)[k % 6]
                    hdr = f"{st} {meta_of_bytes(ch, target, pad_first)}\r\n".encode("utf-8")
                    body = b"BODY" if st == 20 else b""
                    if k % 3 == 0:
                        cut = (len(hdr) - 3, 700, 1025, 4)[k % 4]
                        case("resp", [send(hdr[:cut]), ["sleep", 0.01], send(hdr[cut:] + body), ["close"]])
                    else:
                        case("resp", [send(hdr + body), ["close"]])
                    k += 1
        for meta in ("ñ" * 700, "日" * 342, "日" * 341 + "a", "\U0001f600" * 257, "é" * 1024, "gemini://h/" + "é" * 507, "gemini://h/" + "é" * 506):
            for st in (20, 31, 10):
                case("resp", [send(f"{st} {meta}\r\n".encode("utf-8") + (b"B" if st == 20 else b"")), ["close"]])
        # upstreams that stall AFTER having sent something, and upstreams that trickle: 43 is due one timeout after the request
        T = 0.5
        hdr = b"20 text/plain; charset=utf-8\r\n"
        case("fault", [send(b"2"), ["hold"]], fault="stallHeader", timeout=T)
        case("fault", [send(b"20 text/plain; char"), ["hold"]], fault="stallHeader", timeout=T)
        case("fault", [send(hdr), ["hold"]], fault="stallBody", timeout=T)
        case("fault", [send(hdr + b"some body"), ["hold"]], fault="stallBody", timeout=T)
        case("fault", [send(b"20 te"), ["sleep", 0.3], send(b"xt/plain\r\nab"), ["hold"]], fault="stallBody", timeout=T)
        case("fault", [send(hdr), ["sleep", 0.2], send(b"a"), ["sleep", 0.2], send(b"b"), ["hold"]], fault="stallBody", timeout=T)
        case("timed", trickle(hdr, 0.15) + [send(b"late body"), ["close"]], timeout=T)
        case("timed", [send(hdr)] + trickle(b"drip drip drip", 0.2) + [["close"]], timeout=T)
        case("timed", [send(hdr)] + trickle(b"x" * 40, 0.1, 2) + [["hold"]], timeout=T)
        case("timed", [send(b"31 gemini://127.0.0.1:$D/")] + trickle(b"aaaaaaaaaaaa", 0.25) + [send(b"\r\n"), ["close"]], timeout=T)
        case("timed", [send(hdr)] + trickle(b"fast", 0.04) + [["close"]], timeout=T)      # finishes well inside the timeout: relayed
        # redirects are relayed, never followed
        for st, tgt in ((30, "gemini://127.0.0.1:$D/"), (31, "gemini://127.0.0.1:$D/x?y"), (30, "/relative"), (31, ""), (39, "gemini://127.0.0.1:$U/loop"), (30, "http://127.0.0.1:$D/")):
            case("redirect", [send(f"{st} {tgt}\r\n".encode()), ["close"]])
        # sizes up to and beyond the cap
        for size in (16383, 16384, 16385, 65536, 300000):
            case("resp", [send(b"20 application/octet-stream\r\n"), ["sendn", 0xAB, size], ["close"]])
        case("resp", [send(b"20 application/octet-stream\r\n"), ["sendn", 0x5A, CAP], ["close"]], big=True)
        case("fault", [send(b"20 application/octet-stream\r\n"), ["sendn", 0x5A, CAP + 1], ["close"]], fault="bodyTooLarge", big=True)
        case("fault", [send(b"20 text/plain; charset=utf-16\r\n"), ["sendn", 0x41, CAP + 4096], ["hold"]], fault="bodyTooLarge", big=True)
        # downstream client that leaves early
        case("leave", [["sleep", 0.15], send(b"20 text/plain\r\nlate"), ["close"]], leave_after=0.03, timeout=0.5)
        case("leave", [["hold"]], leave_after=0.03, timeout=0.3)
        # bad upstream configuration: every request is answered 43
        case("fault", [], fault="badUpstreamUrl")
        cnt = 0
        for c in self.share(out):  # the whole enumeration, never cut (harness/README "Sharding pitfall")
            cnt += 1
            yield c
        for _ in range(max(0, n - cnt)):
            r = rng.random()
            if r < 0.015:
                # stall or trickle at a random stage, short location timeout
                T = rng.choice([0.4, 0.5, 0.6])
                data = f"{rng.choice([20, 20, 21])} {rng.choice(METAS_2X[:6])}\r\n".encode() + body_variants(rng) + b"0123456789"
                cut = rng.randrange(0, len(data))
                if rng.random() < 0.5:
                    acts = ([send(data[:cut])] if cut else []) + ([["sleep", rng.choice([0.1, 0.25])], send(data[cut:cut + 1])] if rng.random() < 0.5 else []) + [["hold"]]
                    yield {"kind": "fault", "fault": "stallBody" if b"\r\n" in data[:cut] else "stallHeader", "actions": acts, "timeout": T}
                else:
                    gap = rng.choice([0.12, 0.2, 0.3])
                    yield {"kind": "timed", "actions": ([send(data[:cut])] if cut else []) + trickle(data[cut:cut + 30], gap) + [["close"]], "timeout": T}
                continue
            if r < 0.07:
                # multi-byte meta around the byte limit
                st = rng.choice([20, 31, 10, 51, 60])
                meta = meta_of_bytes(rng.choice(WIDE), rng.randrange(1016, 1036), rng.random() < 0.5)
                hdr = f"{st} {meta}\r\n".encode("utf-8")
                body = body_variants(rng) if st == 20 else b""
                if rng.random() < 0.5:
                    cut = rng.randrange(1, len(hdr))
                    yield {"kind": "resp", "actions": [send(hdr[:cut]), ["sleep", 0.01], send(hdr[cut:] + body), ["close"]], "timeout": 2.0}
                else:
                    yield {"kind": "resp", "actions": [send(hdr + body), ["close"]], "timeout": 2.0}
                continue
            if r < 0.62:
                st = rng.choice([20, 20, 20, 21, 29, 10, 11, 30, 31, 40, 44, 51, 59, 60, 62, rng.randrange(10, 70)])
                meta = rng.choice(METAS_2X) if 20 <= st <= 29 else rng.choice(["", "x", "some text; charset=latin-1", "é" * rng.randrange(0, 200), "gemini://h/", "a" * rng.choice([1022, 1023, 1024])])
                body = body_variants(rng) if (20 <= st <= 29 or rng.random() < 0.2) else b""
                yield {"kind": "resp", "actions": resp_actions(rng, f"{st} {meta}\r\n".encode("utf-8"), body), "timeout": 2.0}
            elif r < 0.8:
                # mutated header bytes
                h = bytearray(f"{rng.choice([20, 31, 51])} {rng.choice(METAS_2X[:6])}".encode())
                for _ in range(rng.choice([1, 1, 2])):
                    k = rng.random()
                    i = rng.randrange(len(h) + 1)
                    ch = rng.choice(b"\r\n \t+-_0129\x00\xff\x80;=")
                    if k < 0.4:
                        h.insert(i, ch)
                    elif k < 0.7 and h:
                        del h[min(i, len(h) - 1)]
                    elif h:
                        h[min(i, len(h) - 1)] = ch
                yield {"kind": "resp", "actions": [send(bytes(h) + b"\r\n" + body_variants(rng)), ["close"]], "timeout": 2.0}
            elif r < 0.9:
                data = f"{rng.choice([20, 20, 51])} text/plain; charset=latin-1\r\n".encode() + body_variants(rng) + b"tail"
                cut = rng.randrange(0, len(data) + 1)
                end = rng.choice([["close"], ["reset"]])
                acts = ([send(data[:cut])] if cut else []) + ([["sleep", 0.03]] if end[0] == "reset" else []) + [end]
                yield {"kind": "cut", "actions": acts, "timeout": 2.0}
            else:
                st = rng.choice([30, 31, 32, 39])
                tgt = rng.choice(["gemini://127.0.0.1:$D/", "gemini://127.0.0.1:$D/" + "p" * 50, "gemini://127.0.0.1:$U/again", "//127.0.0.1:$D/", "titan://127.0.0.1:$D/x;size=0"])
                yield {"kind": "redirect", "actions": resp_actions(rng, f"{st} {tgt}\r\n".encode(), b""), "timeout": 2.0}

    # ---- implementation --------------------------------------------------------------------------
    def _subst_actions(self, actions):
        out = []
        for a in actions:
            if a[0] == "send":
                b = bytes.fromhex(a[1]).replace(b"$D", str(self.decoy.port).encode()).replace(b"$U", str(self.up.port).encode())
                out.append(["send", b.hex()])
            else:
                out.append(a)
        return out

    def impl(self, case):
        obs, down = self._run_once(case)
        # a late answer is a verdict only when it is reproducible: scheduling noise does not repeat
        tries = 0
        while obs["late"] and obs["closed"] and tries < 2:   # (no answer at all within timeout + 2.5 s is not noise)
            tries += 1
            o2, d2 = self._run_once(case)
            if not o2["late"]:
                obs, down = o2, d2
        self._last_down = down  # for the oracle (bodies too large for the observation)
        self._last_case = case
        return obs

    def _run_once(self, case):
        from nauyaca.server.proxy import ProxyHandler

        U = self.U
        acts = self._subst_actions(case["actions"])
        for s in (self.up, self.decoy, self.plain, self.mute):
            s.reset({"actions": [["close"]]})
        self.up.reset({"actions": acts})
        self.decoy.reset({"actions": [["send", b"20 text/plain\r\nDECOY".hex()], ["close"]]})
        self.mute.reset({"actions": [["hold"]], "read": False})
        fault = case.get("fault")
        port = self.up.port
        upstream = None
        if fault == "refused":
            port = U.closed_port()  # bound and released just now, so that nobody else listens there
        elif fault == "tlsFailure":
            port = self.plain.port
        elif fault == "stallConnect":
            port = self.mute.port
        elif fault == "badUpstreamUrl":
            upstream = "gemini://127.0.0.1:99999"
        hkey = (upstream or f"gemini://127.0.0.1:{port}", case["timeout"])
        handler = self._handlers.get(hkey)
        if handler is None:  # one handler object serves many requests, as in a running server
            handler = self._handlers[hkey] = ProxyHandler(hkey[0], prefix="/", timeout=case["timeout"])
        # the fetch is bounded by the location timeout (the loopback connect is immediate): anything later is late,
        # nothing at all within timeout + 2.5 s is a hang
        wait = case["timeout"] + 2.5 if "leave_after" not in case else case["timeout"] + 0.3

        async def go():
            t0 = time.monotonic()
            r = await U.downstream_request(handler.handle, (REQ + "\r\n").encode(), wait, case.get("leave_after"))
            el = time.monotonic() - t0
            self.up.release()
            await self.up.quiesce()
            await self.decoy.quiesce()
            return r, el

        r, el = self.loop.run_until_complete(go())
        down = b"".join(bytes.fromhex(w) for w in r["writes"])
        obs = {"down": digest(down), "nwrites": len(r["writes"]), "dropped": len(r["dropped"]), "closed": r["closed"], "left": r["client_left"],
               "up_conns": self.up.connections, "decoy_conns": self.decoy.connections,
               "up_lines": [bytes.fromhex(e["line"]).decode("utf-8", "replace").replace(str(self.up.port), "$U") for e in self.up.log],
               "late": "leave_after" not in case and el > case["timeout"] + MARGIN}
        return obs, down

    # ---- model -----------------------------------------------------------------------------------
    def _spec(self, case):
        """expected class according to the upstream script: ('relay', status, meta, body) | ('fail', fault kind) | ('either', …)"""
        acts = self._subst_actions(case["actions"]) if getattr(self, "_ready", False) else case["actions"]
        if case["kind"] == "fault":
            return ("fail", case["fault"])
        if case["kind"] == "leave":
            return ("leave",)
        T = case["timeout"]
        tl, t_end, end = timeline(acts)
        if end == "hold" or t_end >= 1.4 * T:
            # the response is not complete one timeout after the request: 43, unless a complete non-2x header
            # arrived early (the client hangs up right after such a header)
            early = classify_stream(b"".join(b for t, b in tl if t <= 0.6 * T))
            if early[0] == "well" and not 20 <= early[1] <= 29:
                return ("relay", early[1], early[2], b"")
            mid = classify_stream(b"".join(b for t, b in tl if t < 1.4 * T))
            if mid[0] in ("well", "grey") and not 20 <= mid[1] <= 29:
                return ("relay-or-fail", mid[1], mid[2] if mid[0] == "well" else b"", b"")
            return ("fail", "stallBody" if any(b"\r\n" in b for t, b in tl if t <= T) else "stallHeader")
        data = b"".join(b for t, b in tl)
        cls = classify_stream(data)
        if t_end > 0.6 * T and cls[0] == "well" and 20 <= cls[1] <= 29:
            return ("relay-or-fail", cls[1], cls[2], cls[3])   # ends close to the deadline: either outcome
        if end == "reset":
            # a reset before the response is complete is a fault; after a complete non-2x header the client has already hung up
            if cls[0] == "well" and not 20 <= cls[1] <= 29:
                return ("relay-or-fail", cls[1], cls[2], b"")
            return ("fail", "reset")
        if cls[0] == "well":
            return ("relay", cls[1], cls[2], cls[3])
        if cls[0] == "grey":
            return ("relay-or-fail", cls[1], b"", b"")
        reason = cls[1]
        kind = {"no-crlf": "closedMidHeader" if len(data) <= 1028 else "headerTooLong", "header-too-long": "headerTooLong", "status-spelling": "statusSpelling",
                "status-range": "statusOutOfRange", "missing-space": "missingSeparator", "meta-bare-cr-lf": "metaControl", "bad-utf8": "headerNotUtf8",
                "body-over-cap": "bodyTooLarge"}[reason]
        if reason == "no-crlf" and not data:
            kind = "closedBeforeHeader"
        return ("fail", kind, reason)

    def model(self, case):
        sp = self._spec(case)
        if sp[0] == "relay":
            _, st, meta, body = sp
            if len(body) > 70000:
                return None
            return f"relay resp {st} {cps(meta.decode('utf-8'))} b:{core.hexb(body)}".replace("b:-", "n")
        if sp[0] == "fail":
            return f"relay fault {sp[1]} -"
        return None

    def expect(self, case, out):
        assert out.startswith("ok "), out
        h, b = out[3:].split(" ")
        return {"header": "" if h == "-" else h, "body": "" if b == "-" else b, "fail": self._spec(case)[0] == "fail"}

    def same(self, expected, obs):
        d = obs["down"]
        if "hex" not in d:
            return True
        down = d["hex"]
        if expected["fail"]:
            # the message text after the fixed prefix is the exception's own; compare the modelled prefix
            h = bytes.fromhex(expected["header"])
            prefix = h[:-2]
            return bytes.fromhex(down).startswith(prefix) and bytes.fromhex(down).endswith(b"\r\n") and bytes.fromhex(down).count(b"\r\n") == 1
        return down == expected["header"] + expected["body"]

    # ---- direct oracle ---------------------------------------------------------------------------
    def oracle(self, case, obs):
        down = self._last_down if getattr(self, "_last_case", None) is case else (bytes.fromhex(obs["down"]["hex"]) if "hex" in obs["down"] else None)
        sp = self._spec(case)
        if obs["dropped"] and not obs["left"]:
            return ("not-one-response", f"{obs['dropped']} write(s) after the connection was closed")
        if sp[0] == "leave":
            if down and parse_down(down) is None:
                return ("not-one-response", f"ill-formed bytes written to a client that left: {down[:60]!r}")
            return None
        if down is None:
            return None
        if not obs["closed"] or not down:
            return ("no-response", f"downstream client got {len(down)} bytes and closed={obs['closed']} within timeout {case['timeout']} s + 2.5 s ({case['kind']}, {sp[:2]})")
        pd = parse_down(down)
        if pd is None:
            return ("not-one-response", f"downstream bytes are not one well-formed response: {down[:80]!r}")
        st, meta, body = pd
        if obs["decoy_conns"]:
            return ("redirect-followed", f"the proxy connected to the redirect target ({obs['decoy_conns']} connection(s)); downstream got {down[:60]!r}")
        if obs["up_conns"] > 1:
            return ("redirect-followed" if case["kind"] == "redirect" else "many-connections", f"{obs['up_conns']} upstream connections for one request")
        if obs["late"]:
            return ("late-response", f"the answer {down[:40]!r} arrived later than the location timeout {case['timeout']} s + {MARGIN} s after the request (three attempts)")
        if sp[0] == "fail":
            if st != 43:
                if len(sp) > 2:
                    return (f"malformed-relayed:{sp[2]}", f"malformed upstream response ({sp[2]}) was answered {down[:70]!r} instead of 43")
                return (f"fault-not-43:{sp[1]}", f"upstream fault {sp[1]} was answered {down[:70]!r} instead of 43")
            return None
        want_st, want_meta, want_body = sp[1], sp[2], sp[3]
        if sp[0] == "relay-or-fail" and st == 43:
            return None
        if st == 43 and want_st != 43:
            return ("well-formed-answered-43", f"well-formed upstream response {want_st} {want_meta[:40]!r} (+{len(want_body)} body bytes) was answered {down[:80]!r}")
        if st != want_st:
            return ("relay-altered:status", f"upstream status {want_st}, downstream {st}")
        if meta != want_meta:
            return ("relay-altered:meta", f"upstream meta {want_meta[:60]!r}, downstream {meta[:60]!r}")
        if body != want_body:
            return ("relay-altered:body", f"status {st} meta {meta[:50]!r}: upstream body {want_body[:24]!r}… ({len(want_body)} bytes), downstream {body[:24]!r}… ({len(body)} bytes)")
        return None

    def key(self, case, obs):
        sp = self._spec(case)
        if sp[0] == "fail":
            return f"fail:{sp[1]}"
        if sp[0] == "leave":
            return "client-left"
        st = sp[1]
        size = len(sp[3])
        meta = sp[2].decode("utf-8", "replace").lower()
        cs = "charset" if "charset=" in meta and "utf-8" not in meta else "text" if meta.startswith("text/") or meta.strip() == "" else "binary"
        sz = "0" if size == 0 else "<=4k" if size <= 4096 else "<=64k" if size <= 65536 else "<cap" if size < CAP else "cap"
        return f"{sp[0]}:{st // 10}x:{cs if 20 <= st <= 29 else 'meta' + ('1k' if len(sp[2]) >= 1000 else '')}:{sz}" + (":redirect" if case["kind"] == "redirect" else "")


# ------------------------------------------------------------------------------------------------
# family `wired`: the deployment as it is wired from a configuration file, on a virtual clock
# ------------------------------------------------------------------------------------------------
DEFAULT_TIMEOUT = 30.0     # documented default of a proxy location's `timeout`
EPS = 0.002                # virtual seconds
W_UPSTREAMS = ["gemini://up0.example:7000", "gemini://up0.example:7000/", "gemini://up1.example", "gemini://up1.example/base"]
W_TIMEOUTS = [0.5, 1.0, 2.0, 4.0, 10.0, 29.0, None, 30.0, 31.0, 45.0, 60.0, 120.0]
REASON_KIND = {"no-crlf": "closedMidHeader", "header-too-long": "headerTooLong", "status-spelling": "statusSpelling", "status-range": "statusOutOfRange",
               "missing-space": "missingSeparator", "meta-bare-cr-lf": "metaControl", "bad-utf8": "headerNotUtf8", "body-over-cap": "bodyTooLarge"}


def hx(t: float, b: bytes):
    return [round(t, 4), "h", b.hex()]


def fill(t: float, byte: int, count: int):
    return [round(t, 4), "n", byte, count]


def w_plan(rng, T: float):
    """an upstream behaviour placed relative to the timeout T of the location that will serve it"""
    r = rng.random()
    st = rng.choice([20, 20, 20, 20, 21, 31, 30, 51, 10, 44, 62])
    if 20 <= st <= 29:
        meta = rng.choice(METAS_2X[:8] + ["application/octet-stream"])
    else:
        meta = {1: "Enter a value", 3: rng.choice(["gemini://decoy.example:7070/moved", "gemini://up0.example:7000/other", "/relative"]), 4: "slow down", 5: "Not found", 6: "certificate needed"}[st // 10]
    header = f"{st} {meta}\r\n".encode()
    size = rng.choice([0, 5, 40, 700, 5000, 20000, 70000, 262144]) if 20 <= st <= 29 else 0
    # when the response is complete (or when the script ends)
    inside = [0.0, 0.01 * T, 0.2 * T, 0.5 * T, 0.8 * T, 0.95 * T] + [x for x in (28.0, 29.5, 30.5, 33.0, 40.0, 44.0, 59.0, 100.0) if x < T - 0.04]
    beyond = [1.05 * T, 1.5 * T, 3 * T] + [x for x in (30.5, 33.0, 40.0) if x > T + 0.04]
    if r < 0.6:
        te, end = rng.choice(inside), "close"           # complete and in time
    elif r < 0.72:
        te, end = rng.choice(beyond), "close"           # complete, but later than the location's timeout
    elif r < 0.88:
        te, end = rng.choice(inside), "hold"            # stalls after what it sent up to te
    else:
        te, end = rng.choice(inside), "reset"
    def clear_of_T(t):
        """no event at the very instant the timeout expires (either order of the two timers would be correct)"""
        return round(t if abs(t - T) >= 0.04 else max(0.0, t - 0.07), 4)

    te = clear_of_T(te)
    # the bytes: header and body in a few pieces at times up to te
    npieces = rng.choice([1, 2, 2, 3, 4])
    times = sorted(min(te, clear_of_T(rng.choice([0.0, 0.1, 0.3, 0.5, 0.7, 0.9, 1.0]) * te)) for _ in range(npieces))
    if end == "close" and rng.random() < 0.6:
        times[-1] = te
    if rng.random() < 0.05:
        # a malformed header
        bad = rng.choice([b"20", b"2x text/plain\r\nB", b"99 x\r\n", b"20 a\rb\r\nB", b"20 text/\xff\r\nB", b"20text/plain\r\nB", b" 20 text/plain\r\nB", b"7\r\n", b"20 " + b"m" * 1025 + b"\r\nB", b"x" * 1500])
        return {"ev": [hx(times[0], bad)], "end": [end, te]}
    ev = []
    hcut = rng.randrange(1, len(header)) if rng.random() < 0.2 and npieces > 1 else len(header)
    if end in ("hold", "reset") and rng.random() < 0.3:
        # the script ends inside the header
        ev.append(hx(times[0], header[:hcut if hcut < len(header) else rng.randrange(0, len(header))]))
        return {"ev": [e for e in ev if e[2]], "end": [end, te]}
    if size <= 2048:
        body = bytes(rng.randrange(256) for _ in range(size)) if rng.random() < 0.5 else (rng.choice(TEXTS).encode() * (size // 8 + 1))[:size]
        data = header + body
        cuts = sorted({hcut} | {rng.randrange(len(header), len(data) + 1) for _ in range(npieces - 1)})
        cuts = [c for c in cuts if 0 < c < len(data)][: npieces - 1]
        prev = 0
        for k, c in enumerate(cuts + [len(data)]):
            ev.append(hx(times[min(k, npieces - 1)], data[prev:c]))
            prev = c
    else:
        ev.append(hx(times[0], header[:hcut]))
        if hcut < len(header):
            ev.append(hx(times[min(1, npieces - 1)], header[hcut:]))
        rest, k = size, 0
        per = -(-size // npieces)
        first = 1 if hcut < len(header) else 0     # the body follows the header
        while rest > 0:
            n = min(per, rest)
            ev.append(fill(times[min(k + first, npieces - 1)], 0x41 + k, n))
            rest -= n
            k += 1
    return {"ev": [e for e in ev if e[1] == "n" or e[2]], "end": [end, te]}


def w_loc_of(locs, path):
    for l in locs:
        if path.startswith(l["prefix"]):
            return l
    return None


def w_spec(loc, plan):
    """what the property demands for one request, given the upstream's behaviour and the location's timeout:
    ('relay' | 'relay-or-fail', status, meta, body, due) | ('fail', kind, reason | None, due)   (`due`: seconds after the request)"""
    from ..sim.proxy_world import plan_stream

    T = loc["timeout"] if loc["timeout"] is not None else DEFAULT_TIMEOUT
    host = loc["upstream"].split("//", 1)[1]
    if host.startswith("refused"):
        return ("fail", "refused", None, 0.0)
    if host.startswith("mute"):
        return ("fail", "stallConnect", None, T)
    evs, end, te = plan_stream(plan)
    acc, hdr_t = b"", None
    for t, b in evs:
        acc += b
        if hdr_t is None and b"\r\n" in acc:
            hdr_t = t
            upto = acc
        if hdr_t is None and len(acc) > 2 + 1 + 1024 + 1 and t < T:
            return ("fail", "headerTooLong", "header-too-long", t)   # oversized whatever follows
    if hdr_t is not None and hdr_t < T:
        early = classify_stream(upto)
        if early[0] == "well" and not 20 <= early[1] <= 29:
            return ("relay", early[1], early[2], b"", hdr_t)        # the fetch ends with the header of a response without body
        if early[0] == "grey":
            return ("relay-or-fail", early[1], b"", b"", hdr_t)
        if early[0] == "bad" and early[1] != "body-over-cap":
            return ("fail", REASON_KIND[early[1]], early[1], hdr_t)
    if end == "hold" or te > T:
        return ("fail", "stallBody" if hdr_t is not None and hdr_t < T else "stallHeader", None, T)
    if end == "reset":
        return ("fail", "reset", None, te)
    cls = classify_stream(acc)
    if cls[0] == "well":
        return ("relay", cls[1], cls[2], cls[3], te)
    if cls[0] == "grey":
        return ("relay-or-fail", cls[1], b"", b"", te)
    kind = REASON_KIND[cls[1]]
    if cls[1] == "no-crlf" and not acc:
        kind = "closedBeforeHeader"
    return ("fail", kind, cls[1], te)


class Wired(Family):
    """Requests enter through the real GeminiServerProtocol, are routed by the Router that ServerConfig builds from a TOML
    file (several proxy locations, possibly for the same upstream, each with its own timeout or the default one) and are
    fetched by the real ProxyHandler/GeminiClient from a scripted network; one deployment serves all requests of a case,
    which may overlap.  The clock is virtual, so slow upstreams and timeouts of 30 s and more are ordinary cases."""
    name = "wired"
    quick_n = 560
    thorough_n = 12000

    def setup(self):
        if getattr(self, "_ready", False):
            return
        import os
        import tempfile

        # document_root of the configuration file: one empty directory shared by all runs (never written to, never removed)
        self._docroot = os.path.join(tempfile.gettempdir(), "nv-c18-docroot")
        os.makedirs(self._docroot, exist_ok=True)
        self._ready = True

    # ---- generator ------------------------------------------------------------------------------
    def gen(self, rng: random.Random, n: int):
        up0, up1 = W_UPSTREAMS[0], W_UPSTREAMS[2]
        page = b"20 text/gemini\r\n# a small page\n"
        bin_head = b"20 application/octet-stream\r\n"

        def loc(prefix, upstream, timeout, strip=False):
            return {"prefix": prefix, "upstream": upstream, "timeout": timeout, "strip": strip}

        def req(i, path, plan, at=0.0, lead=0.0, leave=None):
            return {"at": at, "lead": lead, "line": f"gemini://front.example{path}?r{i}", "plan": plan, "leave": leave}

        def whole(data, t):
            return {"ev": [hx(t, data)], "end": ["close", t]}

        halves = {"ev": [hx(0.0, bin_head), fill(0.0, 0x41, 131072), fill(0.6, 0x42, 131072)], "end": ["close", 0.6]}
        det = [
            # overlapping fetches through one location: the first to start ends while the second is in the middle of its body, and the other way round
            {"locs": [loc("/", up0, 5.0)], "reqs": [req(0, "/page", whole(page, 0.4)), req(1, "/file", halves, at=0.2)]},
            {"locs": [loc("/", up0, 5.0)], "reqs": [req(0, "/file", halves), req(1, "/page", whole(page, 0.1), at=0.2)]},
            {"locs": [loc("/", up0, 5.0)], "reqs": [req(0, "/a", {"ev": [hx(0.0, b"20 text/plain\r\nab"), hx(0.3, b"cd")], "end": ["close", 0.3]}),
                                                    req(1, "/b", {"ev": [hx(0.0, b"20 text/plain\r\nAB"), hx(0.2, b"CD"), hx(0.5, b"EF")], "end": ["close", 0.5]}, at=0.1),
                                                    req(2, "/c", whole(b"51 Not found\r\n", 0.05), at=0.15)]},
            # slow upstreams, location timeouts around and above 30 s (and the default one)
            {"locs": [loc("/", up0, 45.0)], "reqs": [req(0, "/slow", whole(page, 40.0))]},
            {"locs": [loc("/", up0, None)], "reqs": [req(0, "/stall", {"ev": [], "end": ["hold", 0.0]})]},
            {"locs": [loc("/", up0, None)], "reqs": [req(0, "/slow", whole(page, 29.5))]},
            {"locs": [loc("/", up0, 31.0)], "reqs": [req(0, "/slow", whole(page, 30.5))]},
            {"locs": [loc("/", up0, 120.0)], "reqs": [req(0, "/slow", {"ev": [hx(1.0, bin_head), fill(50.0, 0x41, 5000), fill(100.0, 0x42, 5000)], "end": ["close", 100.0]})]},
            {"locs": [loc("/", up0, 45.0)], "reqs": [req(0, "/slow", whole(page, 10.0), lead=25.0)]},
            {"locs": [loc("/", up0, 60.0)], "reqs": [req(0, "/stall", {"ev": [hx(0.0, b"20 text/plain\r\npart")], "end": ["hold", 0.0]}, lead=10.0)]},
            {"locs": [loc("/", "gemini://mute.example", 45.0)], "reqs": [req(0, "/x", whole(page, 0.0))]},
            # several locations proxied to the same upstream, each with its own timeout
            {"locs": [loc("/a/", up0, 0.5), loc("/b/", up0, 4.0)], "reqs": [req(0, "/b/x", whole(page, 1.5))]},
            {"locs": [loc("/a/", up0, 0.5), loc("/b/", up0, 4.0)], "reqs": [req(0, "/a/x", {"ev": [], "end": ["hold", 0.0]})]},
            {"locs": [loc("/search/", up0, 4.0), loc("/", up0 + "/", 0.5)], "reqs": [req(0, "/x", {"ev": [hx(0.1, b"20 text/plain\r\n")], "end": ["hold", 0.0]}), req(1, "/search/q", whole(page, 1.5), at=0.1)]},
            {"locs": [loc("/a/", up0, None), loc("/b/", up0, 2.0), loc("/c/", up1, 1.0)], "reqs": [req(0, "/b/x", {"ev": [], "end": ["hold", 0.0]}), req(1, "/c/x", whole(page, 1.5)), req(2, "/a/x", whole(page, 12.0))]},
            {"locs": [loc("/r/", "gemini://refused.example:7004", 2.0), loc("/", up0, 2.0)], "reqs": [req(0, "/r/x", whole(page, 0.0)), req(1, "/x", whole(page, 0.1))]},
            # a client that leaves while others are served
            {"locs": [loc("/", up0, 3.0)], "reqs": [req(0, "/a", whole(page, 1.0), leave=0.2), req(1, "/b", whole(page, 1.5), at=0.1)]},
        ]
        cnt = 0
        for c in self.share(det):
            cnt += 1
            yield dict(c, focus=0)
        for _ in range(max(0, n - cnt)):
            nl = rng.choice([1, 1, 2, 2, 3])
            prefixes = rng.sample(["/a/", "/b/", "/search/", "/api"], nl - 1) + ["/"] if rng.random() < 0.5 else rng.sample(["/a/", "/b/", "/search/", "/api"], nl)
            shared = rng.random() < 0.65
            base = rng.choice(W_UPSTREAMS)
            locs = []
            for pre in prefixes:
                u = rng.choice([base, base, base.rstrip("/"), base.rstrip("/") + "/"]) if shared else rng.choice(W_UPSTREAMS)
                if rng.random() < 0.04:
                    u = rng.choice(["gemini://mute.example:7003", "gemini://refused.example:7004"])
                locs.append(loc(pre, u, rng.choice(W_TIMEOUTS), rng.random() < 0.3))
            nr = rng.choice([1, 2, 2, 3, 4])
            reqs = []
            sameloc = rng.random() < 0.5
            l0 = rng.choice(locs)
            for i in range(nr):
                l = l0 if sameloc else rng.choice(locs)
                T = l["timeout"] if l["timeout"] is not None else DEFAULT_TIMEOUT
                path = l["prefix"] + rng.choice(["", "x", "page", "file.bin", "x/y"])
                at = round(rng.choice([0.0, 0.0, 0.05, 0.1, 0.2, 0.3]) * T, 4) if rng.random() < 0.7 else rng.choice([0.0, 1.0, 3.0, 31.0])
                lead = rng.choice([0.0, 0.0, 0.0, 0.0, 1.0, 10.0, 25.0, 29.5])
                leave = round(rng.choice([0.01, 0.3, 0.9]) * T, 4) if rng.random() < 0.05 else None
                reqs.append(req(i, path, w_plan(rng, T), at=at, lead=lead, leave=leave))
            yield {"locs": locs, "reqs": reqs, "focus": rng.randrange(nr)}

    # ---- implementation --------------------------------------------------------------------------
    def impl(self, case):
        from ..sim import proxy_world as W

        reqs = []
        for r in case["reqs"]:
            l = w_loc_of(case["locs"], up_path(r["line"]))
            T = DEFAULT_TIMEOUT if l is None or l["timeout"] is None else l["timeout"]
            reqs.append(dict(r, wait=T + 2.5))
        out = W.run_world(case["locs"], reqs, self._docroot)
        return {"focus": case.get("focus", 0),
                "results": [{"down": wdigest(x["down"]), "nwrites": x["nwrites"], "dropped": x["dropped"], "closed": x["closed"], "left": x["left"], "answered_at": x["answered_at"]}
                            for x in out["results"]],
                "conns": [[c["host"], c["port"], c["line"].decode("utf-8", "replace"), c["at"]] for c in out["conns"]]}

    # ---- model: the request `focus` of the case ----------------------------------------------------
    def _focus_spec(self, case):
        r = case["reqs"][case.get("focus", 0)]
        l = w_loc_of(case["locs"], up_path(r["line"]))
        return None if l is None or r.get("leave") is not None else w_spec(l, r["plan"])

    def model(self, case):
        sp = self._focus_spec(case)
        if sp is None:
            return None
        if sp[0] == "relay":
            _, st, meta, body, _ = sp
            if len(body) > 70000:
                return None
            return f"relay resp {st} {cps(meta.decode('utf-8'))} b:{core.hexb(body)}".replace("b:-", "n")
        if sp[0] == "fail":
            return f"relay fault {sp[1]} -"
        return None

    def expect(self, case, out):
        assert out.startswith("ok "), out
        h, b = out[3:].split(" ")
        return {"header": "" if h == "-" else h, "body": "" if b == "-" else b, "fail": self._focus_spec(case)[0] == "fail"}

    def same(self, expected, obs):
        d = obs["results"][obs["focus"]]["down"]   # (the case is not passed to `same`: the observation carries the index)
        if "hex" not in d:
            return True
        down = bytes.fromhex(d["hex"])
        if expected["fail"]:
            prefix = bytes.fromhex(expected["header"])[:-2]
            return down.startswith(prefix) and down.endswith(b"\r\n") and down.count(b"\r\n") == 1
        return down.hex() == expected["header"] + expected["body"]

    # ---- direct oracle ---------------------------------------------------------------------------
    def oracle(self, case, obs):
        locs = case["locs"]
        ups = set()
        for l in locs:
            h = l["upstream"].split("//", 1)[1].split("/", 1)[0]
            host, _, port = h.partition(":")
            ups.add((host.lower(), int(port) if port else 1965))
        scene = "locations " + ", ".join(f"{l['prefix']}->{l['upstream']} timeout {'default (30 s)' if l['timeout'] is None else str(l['timeout']) + ' s'}" for l in locs)
        flight = "; ".join(f"r{i} {up_path(r['line'])} at {r['at'] + r['lead']:g} s" for i, r in enumerate(case["reqs"]))
        for c in obs["conns"]:
            if (str(c[0]).lower(), c[1]) not in ups:
                return ("redirect-followed", f"the proxy opened a connection to {c[0]}:{c[1]} ({c[2]!r}), which is not a configured upstream; {scene}")
        for i, (r, res) in enumerate(zip(case["reqs"], obs["results"])):
            path = up_path(r["line"])
            l = w_loc_of(locs, path)
            if l is None:
                continue
            T = l["timeout"] if l["timeout"] is not None else DEFAULT_TIMEOUT
            sp = w_spec(l, r["plan"])
            who = f"request r{i} {path!r} via location {l['prefix']!r} (timeout {'default 30' if l['timeout'] is None else l['timeout']} s)"
            d = res["down"]
            if res["dropped"] and not res["left"]:
                return ("not-one-response", f"{who}: {res['dropped']} write(s) after the connection was closed")
            if r.get("leave") is not None:
                if "hex" in d and d["hex"] and parse_down(bytes.fromhex(d["hex"])) is None:
                    return ("not-one-response", f"{who}: ill-formed bytes written to a client that left")
                continue
            empty = ("hex" in d and not d["hex"])
            if not res["closed"] or empty:
                return ("no-response", f"{who}: no complete answer within timeout + 2.5 s; {scene}; in flight: {flight}")
            if sum(1 for c in obs["conns"] if c[2].rstrip("\r\n").endswith(f"?r{i}")) > 1:
                return ("many-connections", f"{who}: more than one upstream connection for one request")
            head = bytes.fromhex(d["hex"] if "hex" in d else d["head"])
            if "hex" in d:
                pd = parse_down(head)
                if pd is None:
                    return ("not-one-response", f"{who}: downstream bytes are not one well-formed response: {head[:80]!r}")
                st, meta, body = pd
                got = None
            else:
                m = re.match(rb"([1-6][0-9]) ([^\r\n]{0,1024})\r\n", head, re.S)
                if not m:
                    return ("not-one-response", f"{who}: downstream bytes are not one well-formed response: {head[:48]!r}")
                st, meta, body, got = int(m.group(1)), m.group(2), None, d
            at = res["answered_at"]
            due = sp[-1]
            if sp[0] == "fail":
                if st != 43:
                    what = f"malformed upstream response ({sp[2]})" if sp[2] else f"upstream fault {sp[1]}"
                    return (f"malformed-relayed:{sp[2]}" if sp[2] else f"fault-not-43:{sp[1]}",
                            f"{who}: {what} was answered {head[:60]!r} at {at} s instead of 43; {scene}; in flight: {flight}")
                if at is not None and at > due + EPS:
                    return ("late-response", f"{who}: the upstream fault {sp[1]} is due to be answered {due:g} s after the request, the answer {head[:40]!r} came after {at} s; {scene}; in flight: {flight}")
                continue
            want_st, want_meta, want_body = sp[1], sp[2], sp[3]
            desc = f"the upstream's complete well-formed response {want_st} {want_meta[:40]!r} (+{len(want_body)} body bytes, complete {due:g} s after the request)"
            if st == 43 and sp[0] == "relay-or-fail":
                continue
            if st == 43 and want_st != 43:
                return ("well-formed-answered-43", f"{who}: {desc} was answered {head[:60]!r} at {at} s; {scene}; in flight: {flight}")
            if st != want_st:
                return ("relay-altered:status", f"{who}: {desc} was answered {head[:60]!r} at {at} s; {scene}; in flight: {flight}")
            if meta != want_meta:
                return ("relay-altered:meta", f"{who}: upstream meta {want_meta[:60]!r}, downstream {meta[:60]!r}")
            if got is None:
                if body != want_body:
                    return ("relay-altered:body", f"{who}: {desc}: downstream got {len(body)} body bytes {body[:24]!r}…; {scene}; in flight: {flight}")
            else:
                want = wdigest(f"{want_st} ".encode() + want_meta + b"\r\n" + want_body)
                if want != got:
                    return ("relay-altered:body", f"{who}: {desc}: downstream got {got['len']} bytes in all, expected {want.get('len')}; {scene}; in flight: {flight}")
            if at is not None and at > due + EPS:
                return ("late-response", f"{who}: {desc} reached the client only after {at} s")
        return None

    def key(self, case, obs):
        r = case["reqs"][case.get("focus", 0)]
        l = w_loc_of(case["locs"], up_path(r["line"]))
        if l is None:
            return "default"
        T = l["timeout"] if l["timeout"] is not None else DEFAULT_TIMEOUT
        sp = w_spec(l, r["plan"])
        ups = {x["upstream"].rstrip("/") for x in case["locs"]}
        tcls = "default" if l["timeout"] is None else "<30" if T < 30 else ">=30"
        spans = [(x["at"] + x["lead"], x["at"] + x["lead"] + min(w_spec(w_loc_of(case["locs"], up_path(x["line"])), x["plan"])[-1], 1e9)) for x in case["reqs"] if w_loc_of(case["locs"], up_path(x["line"]))]
        overlap = any(a[0] < b[1] and b[0] < a[1] for i, a in enumerate(spans) for b in spans[i + 1:])
        kind = sp[0] if sp[0] != "fail" else "fail:" + sp[1]
        return (f"{'shared-upstream' if len(ups) < len(case['locs']) else 'own-upstream'}:T{tcls}:{kind}"
                f":{'slow' if sp[-1] >= 30 else 'fast'}:{'overlap' if overlap else 'apart'}{':left' if r.get('leave') is not None else ''}")


class Overlap(Family):
    """Real TLS on loopback: several downstream requests in flight at once through ONE ProxyHandler (one location of a
    running server), each with its own upstream behaviour - bodies of up to 256 KiB sent in pieces with pauses, so that
    one fetch ends while another is in the middle of its body.  Every client must get its own upstream response
    verbatim; an upstream fault of one request (reset, close inside the header) is a 43 for that request only."""
    realtime = True     # runs on the wall clock (sockets, threads): a failure is re-run once before it counts (core.run_family)
    name = "overlap"
    quick_n = 28
    thorough_n = 600
    parallel = False
    TIMEOUT = 4.0

    def setup(self):
        from ..sim import proxy_world as W
        from ..sim import url_upstream as U

        if getattr(self, "_ready", False):
            return
        self.U = U
        self.loop = U.quiet_loop()
        self.up = self.loop.run_until_complete(W.keyed_upstream().start())
        self._ready = True

    def gen(self, rng: random.Random, n: int):
        page = [send(b"20 text/gemini\r\n# a small page\n"), ["close"]]
        det = [
            {"reqs": [{"at": 0.0, "actions": [["sleep", 0.2]] + page},
                      {"at": 0.1, "actions": [send(b"20 application/octet-stream\r\n"), ["sendn", 0x41, 131072], ["sleep", 0.3], ["sendn", 0x42, 131072], ["close"]]}]},
            {"reqs": [{"at": 0.0, "actions": [send(b"20 application/octet-stream\r\n"), ["sendn", 0x41, 70000], ["sleep", 0.25], ["sendn", 0x42, 70000], ["close"]]},
                      {"at": 0.08, "actions": [["sleep", 0.05]] + page}]},
            {"reqs": [{"at": 0.0, "actions": [send(b"20 text/plain\r\nab"), ["sleep", 0.15], send(b"cd"), ["close"]]},
                      {"at": 0.05, "actions": [send(b"20 text/plain\r\nAB"), ["sleep", 0.05], send(b"CD"), ["sleep", 0.2], send(b"EF"), ["close"]]},
                      {"at": 0.1, "actions": [send(b"51 Not found\r\n"), ["close"]]}]},
            {"reqs": [{"at": 0.0, "actions": [send(b"20 text/plain\r\npartial"), ["sleep", 0.1], ["reset"]]},
                      {"at": 0.02, "actions": [send(b"20 text/plain\r\n"), ["sleep", 0.2], send(b"whole"), ["close"]]}]},
        ]
        cnt = 0
        for c in self.share(det):
            cnt += 1
            yield c
        for _ in range(max(0, n - cnt)):
            reqs = []
            for i in range(rng.choice([2, 2, 3, 4])):
                r = rng.random()
                st = rng.choice([20, 20, 20, 21, 31, 51, 10])
                meta = rng.choice(METAS_2X[:8]) if 20 <= st <= 29 else {1: "Enter", 3: "gemini://elsewhere.example/x", 5: "Not found"}[st // 10]
                header = f"{st} {meta}\r\n".encode()
                acts = []
                if rng.random() < 0.5:
                    acts.append(["sleep", rng.choice([0.02, 0.05, 0.1, 0.15])])
                if r < 0.08:
                    acts += [send(header[:rng.randrange(1, len(header))]), ["sleep", rng.choice([0.02, 0.1])], rng.choice([["close"], ["reset"]])]
                elif r < 0.16 and 20 <= st <= 29:
                    acts += [send(header + b"partial body"), ["sleep", rng.choice([0.02, 0.1, 0.2])], ["reset"]]
                else:
                    acts.append(send(header))
                    if 20 <= st <= 29:
                        size = rng.choice([0, 10, 3000, 20000, 70000, 262144])
                        pieces = rng.choice([1, 2, 2, 3])
                        for k in range(pieces):
                            if size:
                                acts.append(["sendn", 0x41 + k, size // pieces])
                            if k < pieces - 1:
                                acts.append(["sleep", rng.choice([0.02, 0.04, 0.08, 0.15])])
                    acts.append(["close"])
                reqs.append({"at": round(rng.choice([0.0, 0.0, 0.02, 0.05, 0.1, 0.2]) + 0.001 * i, 3), "actions": acts})
            yield {"reqs": reqs}

    def impl(self, case):
        from nauyaca.server.proxy import ProxyHandler

        U = self.U
        self.up.reset()
        self.up.scripts = [r["actions"] for r in case["reqs"]]
        handler = ProxyHandler(f"gemini://127.0.0.1:{self.up.port}", prefix="/", timeout=self.TIMEOUT)   # a fresh deployment per case

        async def one(i, r):
            if r["at"]:
                await asyncio.sleep(r["at"])
            return await U.downstream_request(handler.handle, f"gemini://front.example/p{i}?r{i}\r\n".encode(), self.TIMEOUT + 2.5)

        async def go():
            rs = await asyncio.gather(*[one(i, r) for i, r in enumerate(case["reqs"])])
            self.up.release()
            await self.up.quiesce()
            return rs

        rs = self.loop.run_until_complete(go())
        results = []
        for r in rs:
            down = b"".join(bytes.fromhex(w) for w in r["writes"])
            results.append({"down": wdigest(down), "nwrites": len(r["writes"]), "dropped": len(r["dropped"]), "closed": r["closed"]})
        return {"results": results, "up_conns": self.up.connections,
                "up_lines": sorted(bytes.fromhex(e["line"]).decode("utf-8", "replace").replace(str(self.up.port), "$U") for e in self.up.log)}

    def oracle(self, case, obs):
        n = len(case["reqs"])
        flight = "; ".join(f"r{i} from {r['at']} s" for i, r in enumerate(case["reqs"]))
        if obs["up_conns"] > n:
            return ("many-connections", f"{obs['up_conns']} upstream connections for {n} requests")
        for i, (r, res) in enumerate(zip(case["reqs"], obs["results"])):
            data, end = stream_of(r["actions"])
            cls = classify_stream(data)
            who = f"request r{i} of {n} overlapping requests through one location ({flight})"
            d = res["down"]
            if res["dropped"]:
                return ("not-one-response", f"{who}: {res['dropped']} write(s) after the connection was closed")
            if not res["closed"] or ("hex" in d and not d["hex"]):
                return ("no-response", f"{who}: no complete answer within {self.TIMEOUT} s + 2.5 s")
            head = bytes.fromhex(d["hex"] if "hex" in d else d["head"])
            m = re.match(rb"([1-6][0-9]) ([^\r\n]{0,1024})\r\n", head, re.S)
            if not m or ("hex" in d and parse_down(head) is None):
                return ("not-one-response", f"{who}: downstream bytes are not one well-formed response: {head[:60]!r}")
            st = int(m.group(1))
            faulty = end == "reset" and not (cls[0] == "well" and not 20 <= cls[1] <= 29)
            if faulty or cls[0] == "bad":
                if st != 43:
                    return ("fault-not-43:" + ("reset" if faulty else cls[1]), f"{who}: the upstream fault was answered {head[:60]!r} instead of 43")
                continue
            if cls[0] == "grey" and st == 43:
                continue
            want = f"{cls[1]} ".encode() + cls[2] + b"\r\n" + cls[3]
            if st == 43 and cls[1] != 43:
                return ("well-formed-answered-43", f"{who}: the upstream's complete well-formed response {want[:40]!r} ({len(want)} bytes) was answered {head[:70]!r}")
            if wdigest(want) != d:
                got = len(bytes.fromhex(d["hex"])) if "hex" in d else d["len"]
                sig = "relay-altered:status" if st != cls[1] else "relay-altered:meta" if m.group(2) != cls[2] else "relay-altered:body"
                return (sig, f"{who}: the upstream sent {len(want)} bytes {want[:40]!r}… (a complete well-formed response), the client received {got} bytes {head[:40]!r}…")
        return None

    def key(self, case, obs):
        sizes = [len(stream_of(r["actions"])[0]) for r in case["reqs"]]
        faults = sum(1 for r in case["reqs"] if stream_of(r["actions"])[1] == "reset")
        big = sum(1 for s in sizes if s > 16384)
        return f"n={len(case['reqs'])}:big={min(big, 2)}:faults={min(faults, 2)}"


# ------------------------------------------------------------------------------------------------
# family `backlog`: downstream clients that read at their own pace (flow control), or give up, next to others
# ------------------------------------------------------------------------------------------------
B_ROOMS = [0, 1, 17, 1024, 4096, 16384, 65536, 100000]


def b_client(rng, kind: str):
    """how a downstream client takes its response (see sim/proxy_flow.py); times are seconds after its request"""
    if kind == "eager":
        return {"room": None, "reads": [], "drop": None}
    room = rng.choice(B_ROOMS)
    if kind == "late":        # takes `room` bytes, nothing for a while, then everything
        return {"room": room, "reads": [[rng.choice([0.7, 1.3, 2.6, 4.1, 9.3]), None]], "drop": None}
    if kind == "paced":       # reads in steps, then everything
        t, reads = rng.choice([0.0, 0.3, 1.1]), []
        step = rng.choice([1, 100, 4096, 30000, 65536, 70000, 200000])
        gap = rng.choice([0.11, 0.23, 0.57])
        for _ in range(rng.choice([1, 2, 5, 12, 30])):
            t = round(t + gap, 4)
            reads.append([t, step])
        reads.append([round(t + gap, 4), None])
        return {"room": room, "reads": reads, "drop": None}
    # drop: takes `room` bytes, perhaps a little more, then drops the connection
    td = rng.choice([0.0, 0.05, 0.45, 0.9, 1.7, 3.3])
    reads = [[round(td * 0.5, 4), rng.choice([1, 1000, 65536])]] if td and rng.random() < 0.4 else []
    return {"room": room, "reads": reads, "drop": td}


def b_plan(rng, i: int, T: float):
    """the upstream's behaviour for request i: mostly complete responses well inside the timeout, many of them with
    bodies of several write pieces; the fill byte names the request, so that every byte tells whose response it is"""
    r = rng.random()
    if r < 0.2:
        return w_plan(rng, T)      # everything `wired` knows: faults, stalls, malformed headers, late answers
    te = rng.choice([0.0, 0.0, 0.07, 0.21, 0.43])
    if r < 0.65:
        size = rng.choice([66000, 70000, 131072, 200000, 300000, 700000, 1500000])
        header = f"20 {rng.choice(['application/octet-stream', 'text/plain; charset=latin-1', 'image/png', 'text/gemini'])}\r\n".encode()
        k = rng.choice([1, 1, 2, 3])
        ev = [hx(0.0, header)] + [fill(round(te * (j + 1) / k, 4), 0x41 + i, size // k + (size % k if j == k - 1 else 0)) for j in range(k)]
        return {"ev": ev, "end": [rng.choice(["close", "close", "close", "close", "reset"]), te]}
    st = rng.choice([20, 20, 20, 21, 31, 51, 10, 44, 62])
    meta = rng.choice(METAS_2X[:8]) if 20 <= st <= 29 else {1: "Enter a value", 3: "gemini://decoy.example:7070/moved", 4: "slow down", 5: "Not found", 6: "certificate needed"}[st // 10]
    body = f"# page of request {i}\n".encode() * rng.choice([1, 3, 60]) if 20 <= st <= 29 else b""
    return {"ev": [hx(te, f"{st} {meta}\r\n".encode() + body)], "end": ["close", te]}


def b_show(cl) -> str:
    if cl.get("room") is None and not cl.get("reads") and cl.get("drop") is None:
        return "reads at once"
    s = f"takes {cl.get('room')} bytes"
    if cl.get("reads"):
        rd = cl["reads"]
        s += f", reads {'the rest' if rd[0][1] is None else str(rd[0][1]) + ' more'} at {rd[0][0]:g} s" + (f" … (the rest at {rd[-1][0]:g} s)" if len(rd) > 1 and rd[-1][1] is None else "")
    if cl.get("drop") is not None:
        s += f", drops the connection at {cl['drop']:g} s"
    return s


class Backlog(Wired):
    """The deployment of `wired` (TOML file -> router -> real GeminiServerProtocol -> real ProxyHandler/GeminiClient ->
    scripted network, virtual clock), several downstream connections to it in one process, and downstream clients
    that take their response at their own pace: the server's writes run into flow control (pause_writing), a client
    reads late or in steps, or drops the connection with most of a large relayed body still unsent, while other
    clients are served before, during and after.  Every client that stays must receive exactly the one well-formed
    response its own upstream exchange produced; a client that drops out has received the beginning of that response
    and nothing else."""
    name = "backlog"
    quick_n = 240
    thorough_n = 5000

    # ---- generator ------------------------------------------------------------------------------
    def gen(self, rng: random.Random, n: int):
        up0, up1 = W_UPSTREAMS[0], W_UPSTREAMS[2]
        page = b"20 text/gemini\r\n# a small page\n=> /big the big one\n"
        bin_head = b"20 application/octet-stream\r\n"
        eager = {"room": None, "reads": [], "drop": None}

        def loc(prefix, upstream, timeout, strip=False):
            return {"prefix": prefix, "upstream": upstream, "timeout": timeout, "strip": strip}

        def req(i, path, plan, client, at=0.0):
            return {"at": at, "lead": 0.0, "line": f"gemini://front.example{path}?r{i}", "plan": plan, "leave": None, "client": client}

        def whole(data, t=0.0):
            return {"ev": [hx(t, data)], "end": ["close", t]}

        def big(i, size, t=0.0):
            return {"ev": [hx(0.0, bin_head), fill(t, 0x41 + i, size)], "end": ["close", t]}

        stall = {"ev": [hx(0.0, b"20 text/plain\r\npart")], "end": ["hold", 0.0]}
        det = [
            # a client gives up in the middle of a large relayed body; others are served before and after
            {"locs": [loc("/", up0, 10.0)], "reqs": [req(0, "/small", whole(page), eager), req(1, "/big", big(1, 9 * 1024 * 1024), {"room": 4096, "reads": [], "drop": 1.0}, at=1.0),
                                                     req(2, "/small", whole(page), eager, at=3.0)]},
            {"locs": [loc("/", up0, 10.0)], "reqs": [req(0, "/big", big(0, 300000), {"room": 1024, "reads": [[0.2, 1000]], "drop": 0.5}), req(1, "/gone", whole(b"51 Not found\r\n"), eager, at=1.0)]},
            {"locs": [loc("/a/", up0, 2.0), loc("/b/", up1, 4.0)], "reqs": [req(0, "/a/big", big(0, 200000), {"room": 0, "reads": [], "drop": 0.3}), req(1, "/b/stall", stall, eager, at=0.5),
                                                                             req(2, "/a/page", whole(page, 0.1), eager, at=0.6)]},
            {"locs": [loc("/", up0, 5.0)], "reqs": [req(0, "/big", big(0, 700000), {"room": 65536, "reads": [], "drop": 0.4}), req(1, "/big2", big(1, 700000), {"room": 65536, "reads": [], "drop": 0.6}, at=0.1),
                                                    req(2, "/big3", big(2, 131072), eager, at=1.0)]},
            {"locs": [loc("/r/", "gemini://refused.example:7004", 2.0), loc("/", up0, 2.0)], "reqs": [req(0, "/big", big(0, 200000), {"room": 17, "reads": [], "drop": 0.2}), req(1, "/r/x", whole(page), eager, at=0.5)]},
            # two downloads at once, one of the readers slow: the slow one is held up while the other is answered
            {"locs": [loc("/", up0, 5.0)], "reqs": [req(0, "/big", big(0, 300000), {"room": 4096, "reads": [[2.0, None]], "drop": None}), req(1, "/big2", big(1, 300000), eager, at=1.0)]},
            {"locs": [loc("/", up0, 5.0)], "reqs": [req(0, "/big", big(0, 300000), {"room": 4096, "reads": [[2.0, None]], "drop": None}), req(1, "/page", whole(page), eager, at=1.0)]},
            {"locs": [loc("/", up0, 5.0)], "reqs": [req(0, "/big", big(0, 1500000, 0.3), {"room": 16384, "reads": [[round(0.5 + 0.25 * k, 4), 200000] for k in range(5)] + [[3.0, None]], "drop": None}),
                                                    req(1, "/page", whole(page, 0.1), eager, at=0.7), req(2, "/big2", big(2, 200000), {"room": 100000, "reads": [[1.5, None]], "drop": None}, at=0.9),
                                                    req(3, "/page", whole(b"31 gemini://decoy.example:7070/moved\r\n"), eager, at=1.2)]},
            {"locs": [loc("/", up0, 5.0)], "reqs": [req(0, "/big", big(0, 200000), {"room": 1, "reads": [[1.0, None]], "drop": None}), req(1, "/big2", big(1, 200000), {"room": 1, "reads": [[1.5, None]], "drop": None}, at=0.2)]},
            # a slow reader alone: the whole body arrives however late it is read (and a timeout of the location is no limit for reading)
            {"locs": [loc("/", up0, 0.5)], "reqs": [req(0, "/big", big(0, 700000), {"room": 4096, "reads": [[9.3, None]], "drop": None})]},
            {"locs": [loc("/", up0, 2.0)], "reqs": [req(0, "/big", big(0, 200000), {"room": 0, "reads": [[round(0.1 * k, 4), 4096] for k in range(1, 30)] + [[3.0, None]], "drop": None})]},
            # an upstream fault answered to a slow reader, next to a dropper
            {"locs": [loc("/", up0, 2.0)], "reqs": [req(0, "/big", big(0, 131072), {"room": 1024, "reads": [], "drop": 0.1}), req(1, "/stall", stall, {"room": 0, "reads": [[4.1, None]], "drop": None}, at=0.05)]},
        ]
        cnt = 0
        for c in self.share(det):
            cnt += 1
            yield dict(c, focus=len(c["reqs"]) - 1)
        for _ in range(max(0, n - cnt)):
            nl = rng.choice([1, 1, 2])
            prefixes = ["/"] if nl == 1 else [rng.choice(["/a/", "/b/", "/search/"]), "/"]
            locs = [loc(p, rng.choice([up0, up0, up1, up0 + "/"]), rng.choice([2.0, 5.0, 10.0, None])) for p in prefixes]
            if rng.random() < 0.04:
                locs[0]["upstream"] = "gemini://refused.example:7004"
            nr = rng.choice([2, 2, 3, 3, 4, 5])
            shape = rng.random()
            reqs, t = [], 0.0
            for i in range(nr):
                l = rng.choice(locs)
                T = l["timeout"] if l["timeout"] is not None else DEFAULT_TIMEOUT
                if shape < 0.45:      # one after the other: mostly droppers, then somebody who reads
                    kind = rng.choice(["drop", "drop", "drop", "eager", "late"]) if i < nr - 1 else rng.choice(["eager", "eager", "paced"])
                    at = round(t, 3)
                    t += rng.choice([0.0, 0.3, 1.0, 2.5, 6.0])
                else:                 # all at about the same time
                    kind = rng.choice(["eager", "eager", "late", "late", "paced", "paced", "drop"])
                    at = round(rng.choice([0.0, 0.0, 0.1, 0.4, 0.8, 1.5]) + 0.003 * i, 3)
                path = l["prefix"] + rng.choice(["", "x", "page", "file.bin", "x/y"])
                reqs.append(req(i, path, b_plan(rng, i, T), b_client(rng, kind), at=at))
            stay = [i for i, r in enumerate(reqs) if r["client"]["drop"] is None]
            yield {"locs": locs, "reqs": reqs, "focus": rng.choice(stay) if stay else 0}

    # ---- implementation --------------------------------------------------------------------------
    def impl(self, case):
        # every case in a child process of its own: whatever a deployment leaves behind in the interpreter does not reach the
        # next case, so a reported case fails on its own (in a fresh process), whatever ran before it
        from ..sim import proxy_flow as F

        return F.isolated(self._impl_here, case)

    def _impl_here(self, case):
        from ..sim import proxy_flow as F

        reqs = []
        for r in case["reqs"]:
            l = w_loc_of(case["locs"], up_path(r["line"]))
            T = DEFAULT_TIMEOUT if l is None or l["timeout"] is None else l["timeout"]
            cl = r["client"]
            last = max([0.0] + [x[0] for x in cl.get("reads") or []] + ([cl["drop"]] if cl.get("drop") is not None else []))
            reqs.append(dict(r, wait=T + last + 2.5))
        out = F.run_flow_world(case["locs"], reqs, self._docroot)
        return {"focus": case.get("focus", 0),
                "results": [{"down": wdigest(x["down"]), "nwrites": x["nwrites"], "dropped": x["dropped"], "closed": x["closed"], "left": x["left"], "pauses": x["pauses"],
                             "unsent": x["unsent"], "answered_at": x["answered_at"]} for x in out["results"]],
                "conns": [[c["host"], c["port"], c["line"].decode("utf-8", "replace"), c["at"]] for c in out["conns"]]}

    # ---- model: the request `focus` of the case (a client that stays) -------------------------------
    def _focus_spec(self, case):
        r = case["reqs"][case.get("focus", 0)]
        l = w_loc_of(case["locs"], up_path(r["line"]))
        return None if l is None or r["client"].get("drop") is not None else w_spec(l, r["plan"])

    # ---- direct oracle ---------------------------------------------------------------------------
    def oracle(self, case, obs):
        locs = case["locs"]
        ups = set()
        for l in locs:
            h = l["upstream"].split("//", 1)[1].split("/", 1)[0]
            host, _, port = h.partition(":")
            ups.add((host.lower(), int(port) if port else 1965))
        flight = "; ".join(f"r{i} {up_path(r['line'])} at {r['at']:g} s {b_show(r['client'])}" for i, r in enumerate(case["reqs"]))
        ctx = f" [one server, {len(case['reqs'])} downstream connections: {flight}]"
        for c in obs["conns"]:
            if (str(c[0]).lower(), c[1]) not in ups:
                return ("redirect-followed", f"the proxy opened a connection to {c[0]}:{c[1]} ({c[2]!r}), which is not a configured upstream{ctx}")
        for i, (r, res) in enumerate(zip(case["reqs"], obs["results"])):
            path = up_path(r["line"])
            l = w_loc_of(locs, path)
            if l is None:
                continue
            sp = w_spec(l, r["plan"])
            cl = r["client"]
            who = f"request r{i} {path!r} (client {b_show(cl)})"
            d = res["down"]
            n = len(d["hex"]) // 2 if "hex" in d else d["len"]
            head = bytes.fromhex(d["hex"] if "hex" in d else d["head"])
            want = None if sp[0] == "fail" else f"{sp[1]} ".encode() + sp[2] + b"\r\n" + sp[3]
            wdesc = "a 43 (upstream fault " + str(sp[1]) + ")" if want is None else f"the upstream's response {want[:40]!r} ({len(want)} bytes)"
            if sum(1 for c in obs["conns"] if c[2].rstrip("\r\n").endswith(f"?r{i}")) > 1:
                return ("many-connections", f"{who}: more than one upstream connection for one request{ctx}")
            if res["left"]:
                # the client dropped the connection before the server had finished: what it has received is the beginning
                # of its own response (the upstream's bytes, or a 43) and nothing else
                own = want is not None and wdigest(want[:n]) == d
                f43 = sp[0] != "relay" and n <= 2 + 1 + 1024 + 2 and (b"43 ".startswith(head) if n < 3 else head.startswith(b"43 ")) \
                    and (head.count(b"\r\n") == 0 or (head.count(b"\r\n") == 1 and head.endswith(b"\r\n"))) and b"\n" not in head.replace(b"\r\n", b"")
                if not (own or f43):
                    return ("foreign-bytes:client-left", f"{who} had received {n} bytes {head[:24]!r}… when it dropped the connection: that is not the beginning of {wdesc}{ctx}")
                continue
            if res["dropped"]:
                return ("not-one-response", f"{who}: {res['dropped']} write(s) after the connection was closed{ctx}")
            if not res["closed"] or n == 0:
                return ("no-response", f"{who}: no complete answer ({n} bytes received, {res['unsent']} accepted and unsent, connection {'closed' if res['closed'] else 'open'}) "
                                       f"2.5 s after the timeout and the client's last read; due: {wdesc}{ctx}")
            m = re.match(rb"([1-6][0-9]) ([^\r\n]{0,1024})\r\n", head, re.S)
            if not m or ("hex" in d and parse_down(head) is None):
                return ("not-one-response", f"{who} received {n} bytes that are not one well-formed response: {head[:24]!r}…; due: {wdesc}{ctx}")
            st = int(m.group(1))
            if sp[0] == "fail":
                if st != 43:
                    return (f"malformed-relayed:{sp[2]}" if sp[2] else f"fault-not-43:{sp[1]}", f"{who}: {wdesc} was due, the client received {n} bytes {head[:60]!r}{ctx}")
                continue
            if st == 43 and sp[0] == "relay-or-fail":
                continue
            if st == 43 and sp[1] != 43:
                return ("well-formed-answered-43", f"{who}: {wdesc} was answered {head[:60]!r}{ctx}")
            if wdigest(want) != d:
                sig = "relay-altered:status" if st != sp[1] else "relay-altered:meta" if m.group(2) != sp[2] else "relay-altered:body"
                return (sig, f"{who} received {n} bytes {head[:24]!r}…, not {wdesc}{ctx}")
        return None

    def shrink(self, case, bad):
        """fewest requests (renumbered) that still fail in the same way"""
        cur = case
        i = len(cur["reqs"]) - 1
        while i >= 0 and len(cur["reqs"]) > 1:
            reqs = [dict(r, line=re.sub(r"\?r[0-9]+$", f"?r{k}", r["line"])) for k, r in enumerate(x for j, x in enumerate(cur["reqs"]) if j != i)]
            cand = dict(cur, reqs=reqs, focus=min(cur.get("focus", 0), len(reqs) - 1))
            try:
                if bad(cand):
                    cur = cand
            except Exception:  # noqa: BLE001
                pass
            i -= 1
        return cur

    def key(self, case, obs):
        r = case["reqs"][case.get("focus", 0)]
        l = w_loc_of(case["locs"], up_path(r["line"]))
        sp = w_spec(l, r["plan"]) if l is not None else ("none",)
        kind = sp[0] if sp[0] != "fail" else "fail:" + str(sp[1])
        drops = sum(1 for x in obs["results"] if x["left"])
        held = sum(1 for x in obs["results"] if x["pauses"])
        unsent_lost = sum(1 for x in obs["results"] if x["left"] and x["pauses"])
        return f"n={len(case['reqs'])}:held={min(held, 3)}:left={min(drops, 2)}:left-while-held={min(unsent_lost, 2)}:focus={kind}"


def wdigest(b: bytes):
    if len(b) <= 2048:
        return {"hex": b.hex()}
    return {"len": len(b), "sha1": hashlib.sha1(b).hexdigest(), "head": b[:1100].hex()}


def up_path(line: str) -> str:
    """path of a request line gemini://host/path?query"""
    rest = line.split("//", 1)[1]
    p = "/" + rest.split("/", 1)[1] if "/" in rest else "/"
    return p.split("?", 1)[0]


FAMILIES = [Relay(), Wired(), Overlap(), Backlog()]


def extract_extra():
    from ..sim import url_gen

    url_gen.write_proxy_gen()

