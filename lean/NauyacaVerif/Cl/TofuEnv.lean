/-!
The effects of the post-connection half of `GeminiClient._get_single` (client/session.py) as operations on a world
`W` threaded through the TRANSLATED code (`Gen/Fn/GetSingleTail.lean`).  `C` = certificates, `R` = responses.
Every operation that can raise returns an `Except`; the translation propagates the error to the enclosing `try`,
whose `finally` then closes the transport.
-/
namespace Cl

/-- exceptions leaving `_get_single` after the connection is up -/
inductive CErr where
  | unreadable                                   -- ConnectionError("Peer certificate of … could not be read")
  | timeout                                      -- TimeoutError("Request timeout: …")
  | store                                        -- the pin store raised (sqlite3.Error)
  | assertion                                    -- AssertionError
  | changed (old : Option Nat) (new : Nat)       -- CertificateChangedError(host, port, old fingerprint | "unknown", new fingerprint)
deriving Repr, DecidableEq

structure TofuEnv (W C R : Type) where
  peerCert : W → W × Option C                                        -- protocol.get_peer_certificate()
  verify : W → Nat → Nat → C → W × Except CErr (Bool × List Char)    -- tofu_db.verify(host, port, cert)
  hostInfo : W → Nat → Nat → W × Except CErr (Option Nat)            -- tofu_db.get_host_info(host, port) (its "fingerprint")
  fp : C → Nat                                                       -- get_certificate_fingerprint(cert)
  trust : W → Nat → Nat → C → W × Except CErr Unit                   -- tofu_db.trust(host, port, cert)
  sendRequest : W → W                                                -- protocol.send_request()
  awaitResponse : W → W × Except CErr R                              -- await wait_for(response_future, timeout)
  close : W → W                                                      -- transport.close()

end Cl
