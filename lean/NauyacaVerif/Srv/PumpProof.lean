import NauyacaVerif.Srv.Pump
import NauyacaVerif.Srv.ConnMore

/-! Lifting the connection invariants through the PyOpenSSL pump model (M-TlsPump): the inner protocol only ever
    evolves by `Srv.step`, exists only after the handshake, and the handshake timer is armed until then. -/
namespace Srv

/-- everything we need of a pump state -/
structure PInv (cfg : Cfg) (p : PSt) : Prop where
  innerInv : ∀ i, p.inner = some i → Inv cfg i ∧ TimeInv i ∧ ReqInv cfg i ∧ DoneInv i
  innerAfterHs : p.inner.isSome → p.hsDone = true
  armed : p.hsDone = false → p.lost = false → p.tcpClosed = false → p.hsTimer = true

theorem feed_inv (cfg : Cfg) (cs : List Bytes) (i : St) (h : Inv cfg i ∧ TimeInv i ∧ ReqInv cfg i ∧ DoneInv i) :
    let j := cs.foldl (fun s c => step cfg s (.data c)) i
    Inv cfg j ∧ TimeInv j ∧ ReqInv cfg j ∧ DoneInv j := by
  induction cs generalizing i with
  | nil => simpa using h
  | cons c cs ih =>
    simp only [List.foldl_cons]
    exact ih _ ⟨step_inv cfg i _ h.1, step_timeInv cfg i _ h.1 h.2.1, step_reqInv cfg i _ h.1 h.2.2.1, step_doneInv cfg i _ h.2.2.2⟩

theorem init_all (cfg : Cfg) : Inv cfg {} ∧ TimeInv {} ∧ ReqInv cfg {} ∧ DoneInv {} :=
  ⟨inv_init cfg, by intro _; simp [requestTimeout8], by intro h; simp [St.calls] at h, by intro h; simp at h⟩

theorem step_all (cfg : Cfg) (i : St) (e : Ev) (h : Inv cfg i ∧ TimeInv i ∧ ReqInv cfg i ∧ DoneInv i) :
    Inv cfg (step cfg i e) ∧ TimeInv (step cfg i e) ∧ ReqInv cfg (step cfg i e) ∧ DoneInv (step cfg i e) :=
  ⟨step_inv cfg i _ h.1, step_timeInv cfg i _ h.1 h.2.1, step_reqInv cfg i _ h.1 h.2.2.1, step_doneInv cfg i _ h.2.2.2⟩

theorem syncClosed_pinv {cfg : Cfg} {p : PSt} (h : PInv cfg p) : PInv cfg (syncClosed p) := by
  unfold syncClosed
  split
  · split
    · exact ⟨h.innerInv, h.innerAfterHs, by intro _ _ hc; simp at hc⟩
    · exact h
  · exact h

theorem appLoop_pinv (cfg : Cfg) (items : List Item) (p : PSt) (h : PInv cfg p) (hd : p.hsDone = true) :
    PInv cfg (appLoop cfg p items) := by
  induction items generalizing p with
  | nil => simpa [appLoop] using h
  | cons it rest ih =>
    cases it with
    | app d =>
      simp only [appLoop]
      refine ih _ ?_ ?_
      · split
        · rename_i i hi
          refine syncClosed_pinv ⟨?_, by intro _; exact hd, by intro hh; simp [hd] at hh⟩
          intro j hj
          simp only [Option.some.injEq] at hj
          subst hj
          exact feed_inv cfg _ i (h.innerInv i hi)
        · exact h
      · split
        · unfold syncClosed; simp only; split <;> (try split) <;> simpa using hd
        · exact hd
    | closeNotify =>
      simp only [appLoop]
      refine ⟨?_, by intro _; exact hd, by intro hh; simp [hd] at hh⟩
      intro j hj
      cases hi : p.inner with
      | none => simp [hi] at hj
      | some i => simp [hi] at hj; subst hj; exact step_all cfg i _ (h.innerInv i hi)
    | hs => simp only [appLoop]; exact ⟨h.innerInv, h.innerAfterHs, by intro hh; simp [hd] at hh⟩
    | hsFinal => simp only [appLoop]; exact ⟨h.innerInv, h.innerAfterHs, by intro hh; simp [hd] at hh⟩
    | bad => simp only [appLoop]; exact ⟨h.innerInv, h.innerAfterHs, by intro hh; simp [hd] at hh⟩

theorem go_pinv (cfg : Cfg) (items : List Item) (p : PSt) (h : PInv cfg p) (hd : p.hsDone = false) (hn : p.inner = none) :
    PInv cfg (pumpRead.go cfg p items) := by
  induction items generalizing p with
  | nil => simpa [pumpRead.go] using h
  | cons it rest ih =>
    cases it with
    | hs => simp only [pumpRead.go]; exact ih p h hd hn
    | hsFinal =>
      simp only [pumpRead.go]
      refine appLoop_pinv cfg rest _ ⟨?_, by intro _; rfl, by intro hh; simp at hh⟩ rfl
      intro j hj
      simp only [Option.some.injEq] at hj
      subst hj
      exact init_all cfg
    | app d => simp only [pumpRead.go]; exact ⟨by intro j hj; simp [hn] at hj, by intro hh; simp [hn] at hh, by intro _ _ hc; simp at hc⟩
    | closeNotify => simp only [pumpRead.go]; exact ⟨by intro j hj; simp [hn] at hj, by intro hh; simp [hn] at hh, by intro _ _ hc; simp at hc⟩
    | bad => simp only [pumpRead.go]; exact ⟨by intro j hj; simp [hn] at hj, by intro hh; simp [hn] at hh, by intro _ _ hc; simp at hc⟩

theorem pumpStep_pinv (cfg : Cfg) (p : PSt) (e : PEv) (h : PInv cfg p) : PInv cfg (pumpStep cfg p e) := by
  cases e with
  | read items =>
    simp only [pumpStep, pumpRead]
    split
    · exact h
    · split
      · rename_i hd; exact appLoop_pinv cfg items p h hd
      · rename_i hd
        have hd' : p.hsDone = false := by simpa using hd
        have hn : p.inner = none := by
          cases hi : p.inner with
          | none => rfl
          | some i => have := h.innerAfterHs (by simp [hi]); simp [hd'] at this
        exact go_pinv cfg items p h hd' hn
  | hsTimeout =>
    simp only [pumpStep]
    split
    · exact ⟨h.innerInv, h.innerAfterHs, by intro _ _ hc; simp at hc⟩
    · exact h
  | innerEv ev =>
    simp only [pumpStep]
    refine syncClosed_pinv ⟨?_, ?_, ?_⟩
    · intro j hj
      cases hi : p.inner with
      | none => simp [hi] at hj
      | some i => simp [hi] at hj; subst hj; exact step_all cfg i _ (h.innerInv i hi)
    · intro hh
      cases hi : p.inner with
      | none => simp [hi] at hh
      | some i => exact h.innerAfterHs (by simp [hi])
    · exact h.armed
  | tcpLost =>
    simp only [pumpStep]
    refine ⟨?_, ?_, by intro _ hc; simp at hc⟩
    · intro j hj
      cases hi : p.inner with
      | none => simp [hi] at hj
      | some i => simp [hi] at hj; subst hj; exact step_all cfg i _ (h.innerInv i hi)
    · intro hh
      cases hi : p.inner with
      | none => simp [hi] at hh
      | some i => exact h.innerAfterHs (by simp [hi])

theorem pumpRun_pinv (cfg : Cfg) (evs : List PEv) : PInv cfg (pumpRun cfg evs) := by
  unfold pumpRun
  have : ∀ p, PInv cfg p → PInv cfg (evs.foldl (pumpStep cfg) p) := by
    induction evs with
    | nil => intro p h; simpa using h
    | cons e es ih => intro p h; exact ih _ (pumpStep_pinv cfg p e h)
  exact this _ ⟨by intro i hi; simp at hi, by intro h; simp at h, by intro _ _ _; rfl⟩

/-- C20: anything the TLS engine rejects before the handshake has completed (plaintext, garbage) closes the
    connection without ever creating the inner protocol — no handler, no response bytes -/
theorem no_plaintext (cfg : Cfg) (rest : List Item) :
    (pumpRun cfg [.read (.bad :: rest)]).inner = none ∧ (pumpRun cfg [.read (.bad :: rest)]).tcpClosed = true := by
  simp [pumpRun, pumpStep, pumpRead, pumpRead.go]

/-- the plaintext a peer can ever decrypt is empty as long as no inner protocol exists -/
theorem no_inner_no_output (p : PSt) (h : p.inner = none) : plainOut p = [] := by simp [plainOut, h]
end Srv
