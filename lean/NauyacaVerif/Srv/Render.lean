namespace Srv
abbrev Bytes := List Nat   -- byte values; everything the model produces is < 256
abbrev PyStr := List Nat   -- Python code points, lone surrogates allowed

def isSurrogate (c : Nat) : Bool := 0xD800 ≤ c && c ≤ 0xDFFF

/-- UTF-8 encoding of one scalar value (caller guarantees non-surrogate, ≤ 0x10FFFF) -/
def utf8 (c : Nat) : Bytes :=
  if c < 0x80 then [c]
  else if c < 0x800 then [(0xC0 + c / 64), (0x80 + c % 64)]
  else if c < 0x10000 then [(0xE0 + c / 4096), (0x80 + c / 64 % 64), (0x80 + c % 64)]
  else [(0xF0 + c / 262144), (0x80 + c / 4096 % 64), (0x80 + c / 64 % 64), (0x80 + c % 64)]

/-- `str.encode("utf-8")`: fails on a lone surrogate -/
def encodeStrict : PyStr → Option Bytes
  | [] => some []
  | c :: cs => if isSurrogate c then none else (encodeStrict cs).map (utf8 c ++ ·)

/-- per-code-point pieces of `str.encode("utf-8", "replace")` -/
def encodeReplace (s : PyStr) : List Bytes := s.map (fun c => if isSurrogate c || c > 0x10FFFF then [63] else utf8 c)

/-- longest prefix of whole pieces whose total size fits the limit
    (`b[:limit].decode("utf-8","ignore").encode("utf-8")`) -/
def takeWhole : Nat → List Bytes → Bytes
  | _, [] => []
  | limit, p :: ps => if p.length ≤ limit then p ++ takeWhole (limit - p.length) ps else []

inductive Body where
  | none
  | str (s : PyStr)
  | bytes (b : Bytes)
deriving Repr, DecidableEq

structure Resp where
  status : Int
  mta : PyStr
  body : Body
deriving Repr, DecidableEq

def maxMeta : Nat := 1024
def strOf (s : String) : PyStr := s.toList.map Char.toNat
def metaInvalidStatus : PyStr := strOf "Server error: handler returned an invalid status"
def metaBadBody : PyStr := strOf "Server error: response body is not valid text"

def scrub (m : PyStr) : PyStr := m.map (fun c => if c = 13 ∨ c = 10 then 32 else c)

def digits2 (n : Nat) : Bytes := [(48 + n / 10), (48 + n % 10)]

/-- stage 1: an invalid status turns the whole response into a fixed 40 -/
def normStatus (r : Resp) : Nat × PyStr × Body :=
  if 10 ≤ r.status ∧ r.status ≤ 69 then (r.status.toNat, r.mta, r.body) else (40, metaInvalidStatus, Body.none)

/-- stage 2: the body is encoded before anything is written; only 2x keeps one -/
def encodeBody (status : Nat) (mta : PyStr) (body : Body) : Nat × PyStr × Bytes :=
  if 20 ≤ status ∧ status ≤ 29 then
    match body with
    | .none => (status, mta, [])
    | .bytes b => (status, mta, b)
    | .str s => match encodeStrict s with
      | some b => (status, mta, b)
      | none => (40, metaBadBody, [])
  else (status, mta, [])

/-- stage 3: the header line -/
def header (st : Nat) (m : PyStr) : Bytes :=
  digits2 st ++ [32] ++ takeWhole maxMeta (encodeReplace (scrub m)) ++ [13, 10]

/-- `_encode_response` : (header, body) -/
def render (r : Resp) : Bytes × Bytes :=
  let n := normStatus r
  let e := encodeBody n.1 n.2.1 n.2.2
  (header e.1 e.2.1, e.2.2)
end Srv
