import NauyacaVerif.Srv.Render
import NauyacaVerif.Cl.Redirect
import NauyacaVerif.Gen.ProxyGen
namespace Srv

/-! # C18: upstream faults are contained (`proxy_faults`) and redirects are relayed (`proxy_no_follow`)

`ProxyHandler._handle_async` awaits one `self._client.get(url, follow_redirects=False)` inside
`try`, with three handlers: `TimeoutError`, `ConnectionError`, `Exception`.  Whatever the upstream
fetch raises therefore falls into one of three classes; each class is answered with the status the
handler's `GeminiResponse(status=…)` names, read from the current source into `Gen.proxyStatus*`. -/

/-- which `except` clause of `_handle_async` catches the failure -/
inductive FailClass where
  | timeout      -- `TimeoutError`: connect or response not complete within the location timeout
  | connection   -- `ConnectionError`: refused / unreachable / TLS failure (`OSError` re-raised by `_get_single`),
                 --   reset, closed before a complete header
  | other        -- everything else: invalid upstream URL, malformed or over-long header, status out of
                 --   range, undecodable header, body over the cap
deriving Repr, DecidableEq

/-- the upstream fault kinds of the property statement, and the clause each ends in (checked by correspondence) -/
inductive Fault where
  | refused | tlsFailure | closedBeforeHeader | closedMidHeader | reset
  | stallConnect | stallHeader | stallBody
  | garbageHeader | statusSpelling | missingSeparator | metaControl | headerTooLong | statusOutOfRange | headerNotUtf8
  | bodyTooLarge | badUpstreamUrl
deriving Repr, DecidableEq

def Fault.cls : Fault → FailClass
  | .refused | .tlsFailure | .closedBeforeHeader | .closedMidHeader | .reset => .connection
  | .stallConnect | .stallHeader | .stallBody => .timeout
  | .garbageHeader | .statusSpelling | .missingSeparator | .metaControl | .headerTooLong | .statusOutOfRange | .headerNotUtf8
  | .bodyTooLarge | .badUpstreamUrl => .other

/-- outcome of the single upstream fetch -/
inductive Fetch where
  | resp (r : Resp)
  | fail (k : FailClass) (msg : PyStr)    -- `msg` = `str(e)`, arbitrary

def metaTimeout : PyStr := strOf "Upstream timeout"
def metaConnPrefix : PyStr := strOf "Upstream connection failed: "
def metaOtherPrefix : PyStr := strOf "Proxy error: "

/-- `_handle_async` after the URL is built: the upstream's response as it is, or the handler's error response -/
def proxyRespond : Fetch → Resp
  | .resp r => r
  | .fail .timeout _ => ⟨NauyacaVerif.Gen.proxyStatusTimeout, metaTimeout, .none⟩
  | .fail .connection msg => ⟨NauyacaVerif.Gen.proxyStatusConnection, metaConnPrefix ++ msg, .none⟩
  | .fail .other msg => ⟨NauyacaVerif.Gen.proxyStatusOther, metaOtherPrefix ++ msg, .none⟩

/-- `GeminiClient.get(url, follow_redirects)`: the redirect-following path or a single fetch -/
def clientGet (fetch : Cl.Url → Option Cl.Resp) (followRedirects : Bool) (max : Nat) (u : Cl.Url) : Cl.Result × List Cl.Url :=
  if followRedirects then Cl.get fetch max u
  else match fetch u with
    | none => (.fetchErr, [u])
    | some r => (.ok r, [u])

/-- the proxy's fetch: `follow_redirects` as written in the current source -/
def proxyGet (fetch : Cl.Url → Option Cl.Resp) (max : Nat) (u : Cl.Url) : Cl.Result × List Cl.Url :=
  clientGet fetch NauyacaVerif.Gen.proxyFollowRedirects max u

end Srv
