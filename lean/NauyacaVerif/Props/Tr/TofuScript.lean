import NauyacaVerif.Gen.Fn.TofuVerify
import NauyacaVerif.Gen.Fn.TofuTrust
import NauyacaVerif.Gen.Fn.TofuRevoke
import NauyacaVerif.Gen.Fn.TofuRevokeHost
import NauyacaVerif.Gen.Fn.TofuClear
import NauyacaVerif.Misc.TofuTxnRec
import NauyacaVerif.Misc.TofuTxnProof
set_option linter.unusedSimpArgs false
/-!
C12: the hand-written statement scripts of `TofuTxn.script` (over which crash atomicity is proved) against the TRANSLATIONS
of `TOFUDatabase.trust / verify / revoke / revoke_by_hostname / clear` run in the statement recorder: for every store and
every argument the translated method issues exactly the script's statements, in order, on one connection, and what it
leaves durable is what running the script leaves.
-/
namespace NauyacaVerif.Translated
open NauyacaVerif.Gen.Fn TofuTxn

theorem tofuTrust_script (s : Store) (h : Host) (p fp now : Nat) :
    [(tofuTrust (recEnv now) id (Rec.opened s) h p fp).1.log] = trustScript h p fp now s ∧
    (tofuTrust (recEnv now) id (Rec.opened s) h p fp).1.db.durable = run s (trustScript h p fp now s) := by
  unfold tofuTrust trustScript
  cases hl : lookup s h p with
  | none => simp [recEnv, Rec.opened, Rec.exec, execStmt, effect, hl, run, runTxn]
  | some r => simp [recEnv, Rec.opened, Rec.exec, execStmt, effect, hl, run, runTxn]

theorem tofuVerify_script (s : Store) (h : Host) (p fp now : Nat) :
    [(tofuVerify (recEnv now) id (Rec.opened s) h p fp).1.log] = verifyScript h p fp now s ∧
    (tofuVerify (recEnv now) id (Rec.opened s) h p fp).1.db.durable = run s (verifyScript h p fp now s) := by
  unfold tofuVerify verifyScript
  cases hl : lookup s h p with
  | none => simp [recEnv, Rec.opened, Rec.exec, execStmt, effect, hl, run, runTxn]
  | some r =>
    by_cases he : r.fp = fp
    · simp [recEnv, Rec.opened, Rec.exec, execStmt, effect, hl, he, run, runTxn]
    · simp [recEnv, Rec.opened, Rec.exec, execStmt, effect, hl, he, run, runTxn]

theorem tofuRevoke_script (s : Store) (h : Host) (p : Nat) (now : Nat) :
    [(tofuRevoke (recEnv now) (Rec.opened s) h p).1.log] = script (.revoke h p) s ∧
    (tofuRevoke (recEnv now) (Rec.opened s) h p).1.db.durable = run s (script (.revoke h p) s) := by
  simp [tofuRevoke, script, recEnv, Rec.opened, Rec.exec, execStmt, effect, run, runTxn]

theorem tofuRevokeHost_script (s : Store) (h : Host) (now : Nat) :
    [(tofuRevokeHost (recEnv now) (Rec.opened s) h).1.log] = script (.revokeHost h) s ∧
    (tofuRevokeHost (recEnv now) (Rec.opened s) h).1.db.durable = run s (script (.revokeHost h) s) := by
  simp [tofuRevokeHost, script, recEnv, Rec.opened, Rec.exec, execStmt, effect, run, runTxn]

theorem tofuClear_script (s : Store) (now : Nat) :
    [(tofuClear (recEnv now) (Rec.opened s)).1.log] = script .clear s ∧
    (tofuClear (recEnv now) (Rec.opened s)).1.db.durable = run s (script .clear s) := by
  simp [tofuClear, script, recEnv, Rec.opened, Rec.exec, execStmt, effect, run, runTxn]

/-- C12 on the translated code: kill the process (or raise) after ANY number `k` of the statements the translated `trust`
    issues — what is durable is the store as before or the store after the complete operation, never anything else -/
theorem tofuTrust_crash (s : Store) (h : Host) (p fp now k : Nat) :
    crashAt k [(tofuTrust (recEnv now) id (Rec.opened s) h p fp).1.log] s = s ∨
    crashAt k [(tofuTrust (recEnv now) id (Rec.opened s) h p fp).1.log] s = apply (.trust h p fp now) s := by
  rw [(tofuTrust_script s h p fp now).1]
  exact TofuTxn.crash_atomic (.trust h p fp now) s k

theorem tofuVerify_crash (s : Store) (h : Host) (p fp now k : Nat) :
    crashAt k [(tofuVerify (recEnv now) id (Rec.opened s) h p fp).1.log] s = s ∨
    crashAt k [(tofuVerify (recEnv now) id (Rec.opened s) h p fp).1.log] s = apply (.verify h p fp now) s := by
  rw [(tofuVerify_script s h p fp now).1]
  exact TofuTxn.crash_atomic (.verify h p fp now) s k

theorem tofuRevoke_crash (s : Store) (h : Host) (p now k : Nat) :
    crashAt k [(tofuRevoke (recEnv now) (Rec.opened s) h p).1.log] s = s ∨
    crashAt k [(tofuRevoke (recEnv now) (Rec.opened s) h p).1.log] s = apply (.revoke h p) s := by
  rw [(tofuRevoke_script s h p now).1]
  exact TofuTxn.crash_atomic (.revoke h p) s k

theorem tofuRevokeHost_crash (s : Store) (h : Host) (now k : Nat) :
    crashAt k [(tofuRevokeHost (recEnv now) (Rec.opened s) h).1.log] s = s ∨
    crashAt k [(tofuRevokeHost (recEnv now) (Rec.opened s) h).1.log] s = apply (.revokeHost h) s := by
  rw [(tofuRevokeHost_script s h now).1]
  exact TofuTxn.crash_atomic (.revokeHost h) s k

theorem tofuClear_crash (s : Store) (now k : Nat) :
    crashAt k [(tofuClear (recEnv now) (Rec.opened s)).1.log] s = s ∨
    crashAt k [(tofuClear (recEnv now) (Rec.opened s)).1.log] s = apply .clear s := by
  rw [(tofuClear_script s now).1]
  exact TofuTxn.crash_atomic .clear s k

/-- non-vacuity: `trust` of a new host on a one-row store issues SELECT, INSERT, COMMIT -/
example : (tofuTrust (recEnv 5) id (Rec.opened [⟨[1], 1965, 7, 0, 0⟩]) [2] 1965 9).1.log =
    [.select [2] 1965, .insert ⟨[2], 1965, 9, 5, 5⟩, .commit] := by rfl
end NauyacaVerif.Translated
