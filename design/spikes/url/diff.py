import random, subprocess, sys, ipaddress, re, unicodedata
import nauyaca.protocol
from nauyaca.utils.url import parse_url
import urllib.parse as up
rnd=random.Random(int(sys.argv[1]) if len(sys.argv)>1 else 1)
ALPH="abcXYZ019+-._~:/?#[]@!$&'()*,;=% \t\n\r\\é℀"
def gen():
    r=rnd.random()
    if r<0.5:
        scheme=rnd.choice(["gemini","GEMINI","Gemini","http","titan","gem ini","","1gemini","gemini+x"])
        host=rnd.choice(["example.com","EXAMPLE.com","[::1]","[fe80::1%25eth0]","[1.2.3.4]","[v1.x]","[::1","::1]","1.2.3.4","","a b","h%41","user@h","@h",":@h","u:p@h","a@b@h","h]","[::1]x","[zz]"])
        port=rnd.choice(["",":",":1965",":0",":65535",":65536",":99999",":1a",":-1",":٣",": 1",":01965"])
        path=rnd.choice(["","/","/a","/a/b;c","/a b","//x","/%2e%2e/","/a\tb","/é","/℀",";p"])
        q=rnd.choice(["","?","?q","?a=b&c","?a?b","?#"])
        f=rnd.choice(["","","#","#frag"])
        pre=rnd.choice([""]*6+[" ","\x00","\n"])
        sep=rnd.choice(["://"]*8+[":","//",":/"])
        return pre+scheme+sep+host+port+path+q+f
    n=rnd.randint(0,25)
    s="".join(rnd.choice(ALPH) for _ in range(n))
    return rnd.choice(["gemini://","gemini:","","gemini://h"])+s
def enc(s): return "-" if not s else ",".join("%x"%ord(c) for c in s)
def oracle_bits(u):
    # replicate what urlsplit asks of ipaddress / NFKC for this url
    ipok=1; nf=1
    try:
        v=up.urlsplit(u)
    except ValueError as e:
        m=str(e)
        if "NFKC" in m: nf=0
        elif "Invalid IPv6 URL" in m: pass
        else: ipok=0
    return ipok,nf
cases=[gen() for _ in range(int(sys.argv[2]) if len(sys.argv)>2 else 20000)]
inp="\n".join("%s %d %d"%((enc(u),)+oracle_bits(u)) for u in cases)+"\n"
out=subprocess.run(["./.lake/build/bin/drv"],input=inp,capture_output=True,text=True).stdout.splitlines()
bad=0; kinds={}
for u,o in zip(cases,out):
    try:
        p=parse_url(u); exp="ok %s %d %s %s %s"%(enc(p.hostname),p.port,enc(p.path),enc(p.query),enc(p.normalized))
    except ValueError as e:
        m=str(e)
        k=("empty" if "cannot be empty" in m else "noScheme" if "missing scheme" in m else "badScheme" if "Invalid scheme" in m else "noHost" if "missing hostname" in m else "userinfo" if "userinfo" in m else "fragment" if "fragment" in m else "badPort" if "could not be cast" in m else "portRange" if "out of range" in m else "invalidIPv6" if "Invalid IPv6 URL" in m else "nfkc" if "NFKC" in m else "bracketHost")
        exp="err Url.Err."+k
    kinds[exp.split()[1] if exp.startswith("err") else "ok"]=kinds.get(exp.split()[1] if exp.startswith("err") else "ok",0)+1
    if any(ord(c)>127 for c in (up.urlsplit(u).netloc if not exp.startswith("err Url.Err.invalid") and not exp.startswith("err Url.Err.nfkc") and not exp.startswith("err Url.Err.bracket") else "")): continue
    if exp!=o:
        bad+=1
        if bad<=15: print("DIFF",repr(u),"\n  py :",exp,"\n  lean:",o)
print("cases",len(cases),"diffs",bad,kinds)
