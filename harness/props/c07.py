"""C07  Outcome is independent of read segmentation; handlers run at most once."""
from __future__ import annotations

import itertools
import random

from ..sim import srv as sim
from .pumpfam import PumpFamily
from .srvfam import LINES, ConnFamily, gen_resp, get_loop, parse_model

ID = "C07"
READY = True
LEAN_TARGETS = ["NauyacaVerif.Props.C07"]
THEOREMS = ['NauyacaVerif.C07.seg_indep', 'NauyacaVerif.C07.seg_indep_observables', 'NauyacaVerif.C07.seg_indep_then', 'NauyacaVerif.C07.at_most_once', 'NauyacaVerif.C07.trailing_ignored_gemini', 'NauyacaVerif.C07.pump_at_most_once', 'NauyacaVerif.C07.pump_rechunk', 'NauyacaVerif.C07.pump_seg_indep', 'NauyacaVerif.C07.pump_read_merge', 'NauyacaVerif.C07.maxRequest_tie', 'NauyacaVerif.C07.sys_seg_indep', 'NauyacaVerif.C07.sys_late_read_noop']
LEAN_TARGETS = LEAN_TARGETS + ["NauyacaVerif.Props.Tr.DataReceived"]
TRANSLATED = ["dataReceived"]
THEOREMS = THEOREMS + [f"NauyacaVerif.Translated.{t}" for t in ("data_received_refines", "data_received_rel", "reads_refine", "reads_refine_init", "tr_seg_indep")]
EXTRACT = ["maxRequest"]
LEVEL_TEXT = 'Proved for every configuration, state, non-empty list of reads and every continuation: feeding reads one by one is equivalent to feeding their concatenation (output, invocation counts, uploaded content, phase), bytes after a dispatched request are ignored, at most one handler/upload invocation per connection (also behind the pump, whose 8192-byte re-chunking is absorbed). Correspondence: all 2^(n-1) segmentations of short requests, one/two/multi-cut and byte-by-byte for long ones, late reads while a task is pending, and the TLS ciphertext of the same session cut at arbitrary offsets through the real PyOpenSSL pump., and pump_seg_indep: the grouping of TLS items into TCP reads, including application data coalesced with the end of the handshake, is unobservable. The record reassembly of OpenSSL (ciphertext bytes -> items) is trusted and exercised by cutting real ciphertext at arbitrary offsets.'
LEVEL_NOTE = "Trusted: Lean kernel (axioms propext, Classical.choice, Quot.sound only); the hand-written model Srv.step/Srv.pumpStep is tied to /repo by extraction (constants, 'every transport.write sits in _send_response') and by the correspondence run of every check (fake transport with asyncio's write-after-close semantics, virtual-clock loop, scripted handlers; real PyOpenSSL pump over memory BIOs); asyncio's transport/timer contract, OpenSSL's record layer and Python exception texts are assumed, see assumptions."
TECHNIQUE = 'Lean 4 proof (invariant induction over all event lists of an executable connection state machine) + differential correspondence with the real asyncio protocol objects under a virtual clock'
ASSUMPTIONS = [
    "a TCP/TLS read delivers an arbitrary non-empty chunk of the byte stream, in order (asyncio transport contract)",
    "TLS-record level segmentation (ciphertext cut anywhere, handshake coalesced with application data) is exercised through the real PyOpenSSL pump in family pumpseg; OpenSSL's record reassembly itself is trusted",
]


def summary(o):
    return {k: o[k] for k in ("acts", "h", "u", "m", "content", "timer", "dropped", "exc")}


LIMIT = 1024  # longest request line the protocols allow, CRLF included (Gemini / Titan specification)


def limit_streams():
    """byte streams whose request line is one byte shorter than, exactly as long as, and one byte longer than the longest legal line
    (Gemini, Gemini with multi-byte characters, Titan with content, Titan delete), each without and with bytes after the request"""
    out = []
    for ln in (LIMIT - 3, LIMIT - 2, LIMIT - 1):   # length of the line without its CRLF
        g = b"gemini://h/"
        e = "gemini://h/".encode() + "\u00e9".encode() * ((ln - len(g)) // 2)
        for line, tails in ((g + b"a" * (ln - len(g)), (b"", b"GARBAGE\r\n")),
                            (e + b"a" * (ln - len(e)), (b"", b"\r\n")),
                            (b"titan://h/" + b"f" * (ln - 17) + b";size=2", (b"ab", b"abXY")),
                            (b"titan://h/" + b"f" * (ln - 17) + b";size=0", (b"", b"Z"))):
            assert len(line) == ln
            for k, tail in enumerate(tails):
                out.append((line + b"\r\n" + tail, k == 0))
    return out


def line_end_cuts(stream: bytes):
    """segmentations (lists of cut offsets) whose read boundaries fall around the end of the request line: before the CR, between CR and
    LF, after the LF, one byte on either side; one, two and three cuts"""
    e = stream.find(b"\r\n")
    if e < 0:
        e = max(0, len(stream) - 2)
    pos = [p for p in (e - 1, e, e + 1, e + 2, e + 3) if 0 < p < len(stream)]
    out = [[p] for p in pos]
    out += [[a, b] for a, b in itertools.combinations(pos, 2)]
    if len(pos) >= 3:
        out.append([p for p in (e, e + 1, e + 2) if 0 < p < len(stream)])
    return out


def segs_of(case):
    """every segmentation of the case as a list of hex chunks: those spelled out (`segs`) followed by those given by their cut offsets (`cuts`)"""
    out = list(case.get("segs", []))
    s = bytes.fromhex(case["stream"])
    for cs in case.get("cuts", []):
        parts, p = [], 0
        for c in list(cs) + [len(s)]:
            parts.append(s[p:c].hex())
            p = c
        out.append(parts)
    return out


def _pad(prefix: bytes, ch: str, ln: int, suffix: bytes = b"") -> bytes:
    """a line of exactly `ln` bytes: prefix, as many copies of the character `ch` as fit, ASCII filling, suffix"""
    w = ch.encode()
    room = ln - len(prefix) - len(suffix)
    assert room >= 0
    body = w * (room // len(w))
    return prefix + body + b"a" * (room - len(body)) + suffix


def wide_streams():
    """request lines made of multi-byte characters (2, 3 and 4 bytes each) whose BYTE length lies just below, at and above the limit
    while their length in characters (or UTF-16 units) stays far below it - the limit is one of bytes, however the line arrives.
    Gemini, Titan with content, Titan delete, and an over-long line that is not UTF-8 at all.  Each with the segmentations that
    matter for a length limit: read boundaries around byte 1024, around the line end, inside a character, chunks of 512 / 100 bytes."""
    out = []
    for ch in ("\u00e9", "\u20ac", "\U0001f600"):
        for ln in (LIMIT - 3, LIMIT - 2, LIMIT - 1, LIMIT, LIMIT + 1, LIMIT + 6, LIMIT + 76, 2 * LIMIT - 48):  # without the CRLF
            for kind in range(4):
                if kind == 0:
                    stream = _pad(b"gemini://h/", ch, ln) + b"\r\n"
                elif kind == 1:
                    stream = _pad(b"titan://h/", ch, ln, b";size=2") + b"\r\nab"
                elif kind == 2:
                    if ln % 3:
                        continue
                    stream = _pad(b"titan://h/", ch, ln, b";size=0") + b"\r\n"
                else:
                    if ln < LIMIT or ln % 2:
                        continue
                    stream = _pad(b"gemini://h/\xff\xfe", ch, ln) + b"\r\n"
                e, m = ln, len(stream)
                pos = sorted({p for p in (1, 11, 12, 13, LIMIT - 2, LIMIT - 1, LIMIT, LIMIT + 1, LIMIT + 2, e - 2, e - 1, e, e + 1, e + 2, e + 3) if 0 < p < m})
                cuts = [[p] for p in pos]
                cuts += [c for c in line_end_cuts(stream) if len(c) > 1]
                cuts += [[a, b] for a in (LIMIT - 1, LIMIT, LIMIT + 1) for b in (e, e + 1) if 0 < a < b < m]
                cuts += [list(range(k, m, k)) for k in (512, 100, 7)]
                out.append((stream, cuts))
    return out


def slow_streams():
    """valid requests that arrive in MANY reads: the whole stream one byte per read, in reads of 2 / 3 / 7 bytes, and the first k bytes
    one by one followed by the rest in one read, for lines from a few dozen bytes up to the longest legal one (a Gemini request, a
    Titan upload whose content also arrives byte by byte, a request followed by trailing bytes)."""
    out = []
    for ln in (40, 63, 64, 65, 66, 100, 127, 128, 129, 200, 255, 256, 257, 300, 511, 512, 513, 700, 1000, LIMIT - 3, LIMIT - 2):
        streams = [_pad(b"gemini://h/", "a", ln) + b"\r\n"]
        if ln % 2 == 0 or ln > 1000:
            streams.append(_pad(b"titan://h/", "f", ln, b";size=2") + b"\r\nab")
        if ln in (64, 256, 700):
            streams.append(_pad(b"gemini://h/", "\u00e9", ln) + b"\r\nGARBAGE\r\n")
            streams.append(_pad(b"titan://h/", "f", ln, b";size=6") + b"\r\nabcdefXY")
        for stream in streams:
            m = len(stream)
            cuts = [list(range(k, m, k)) for k in (1, 2, 3, 7)]
            cuts += [list(range(1, k + 1)) for k in (31, 62, 63, 64, 65, 99, 100, 127, 128, 129, 255, 256, 257, 511, 512, 513, 999, 1000) if k < m - 1]
            cuts.append(list(range(2, m, 2)) if m % 2 else list(range(1, m, 2)))
            out.append((stream, cuts))
    # few bytes of request line, many reads of content
    for size in (70, 130, 300):
        stream = b"titan://h/f;size=%d\r\n" % size + bytes(65 + i % 26 for i in range(size)) + b"tail"
        m = len(stream)
        out.append((stream, [list(range(k, m, k)) for k in (1, 2, 5)] + [[stream.index(b"\n") + 1] + list(range(stream.index(b"\n") + 2, m))]))
    return out


def show_seg(seg):
    """a segmentation, readable: the length of every read, and the bytes of the short ones"""
    return "[" + ", ".join(x if len(x) <= 24 else f"{x[:8]}…{x[-8:]}({len(x) // 2}B)" for x in seg[:8]) + (f", … ({len(seg)} reads, the last of {len(seg[-1]) // 2} B)" if len(seg) > 8 else "") + "]"


class Seg(ConnFamily):
    """the same byte stream under many segmentations (and the same continuation of other events)"""

    name = "seg"
    check_lens = False  # segmentations differ in their number of events
    quick_n = 450
    thorough_n = 12000

    def gen(self, rng: random.Random, n: int):
        shorts = [b"gemini://h/\r\n", b"titan://h/f;size=2\r\nab", b"titan://h/f;size=0\r\n", b"titan://h/f;size=2\r\nabXY", b"gemini://h/\r\nGARBAGE\r\n",
                  b"\r\n", b"gemini://h/a\r", b"http://h/\r\n", b"titan://h/f;size=3\r\nab", b"titan://h/f;size=11\r\nhello world", b"titan://h/f;size=9\r\n12345678"]
        limits = limit_streams()
        extra = wide_streams() + slow_streams()
        ndet = len(shorts) * 2 + len(limits) + len(extra)
        first = list(self.share(range(ndet)))
        for j in range(max(n, len(first))):
            i = first[j] if j < len(first) else ndet + j
            mw = rng.random() < 0.4
            up = rng.random() < 0.7
            hk = rng.choice(["s", "a", "a", "r"])
            handler = ["s", gen_resp(rng)] if hk == "s" else [hk]
            if i < len(shorts) * 2:
                s = shorts[i % len(shorts)]
                up = True if i < len(shorts) else False
                # all 2^(n-1) segmentations of a short stream (n <= 12 in quick)
                s12 = s[:12] if len(s) > 12 else s
                m = len(s12)
                segs = []
                for mask in range(2 ** (m - 1)):
                    cuts = [j + 1 for j in range(m - 1) if mask >> j & 1]
                    parts, p = [], 0
                    for c in cuts + [m]:
                        parts.append(s12[p:c])
                        p = c
                    if len(s) > 12:
                        parts.append(s[12:])
                    segs.append([x.hex() for x in parts])
                stream = s
                cuts = []
            elif i < len(shorts) * 2 + len(limits):
                # a request line at the size limit: the whole stream, EVERY one-cut segmentation (or, for the variant with trailing
                # bytes, every one-cut segmentation of the last 40 bytes), and the two/three-cut ones around the line end
                stream, every = limits[i - len(shorts) * 2]
                m = len(stream)
                segs = [[stream.hex()]]
                cuts = [[c] for c in (range(1, m) if every else range(max(1, m - 40), m))]
                cuts += [c for c in line_end_cuts(stream) if len(c) > 1]
                cuts.append(list(range(max(1, m - 12), m)))  # the last bytes one by one
            elif i < ndet:
                # multi-byte lines around the byte limit / valid requests delivered in very many reads, each against the one-read delivery
                stream, cuts = extra[i - len(shorts) * 2 - len(limits)]
                segs = [[stream.hex()]]
                up = True
            else:
                line = rng.choice(LINES)
                tail = b"" if rng.random() < 0.3 else bytes(rng.randrange(256) for _ in range(rng.randint(0, 20)))
                if rng.random() < 0.3:
                    tail += b"\r\n" + bytes(rng.randrange(256) for _ in range(rng.randint(0, 6)))
                stream = line + b"\r\n" + tail
                m = len(stream)
                segs = [[stream.hex()]]
                for c in rng.sample(range(1, m), min(m - 1, 6)):  # one-cut
                    segs.append([stream[:c].hex(), stream[c:].hex()])
                for _ in range(6):  # two cuts and random multi-cut
                    k = rng.choice([2, 2, 3, 5, 9])
                    cs = sorted(rng.sample(range(1, m), min(m - 1, k)))
                    parts, p = [], 0
                    for c in cs + [m]:
                        parts.append(stream[p:c])
                        p = c
                    segs.append([x.hex() for x in parts])
                segs.append([bytes([b]).hex() for b in stream[:40]] + ([stream[40:].hex()] if m > 40 else []))  # byte by byte
                cuts = line_end_cuts(stream)  # read boundaries around the end of the request line
            rest = []
            if mw:
                rest.append(rng.choice([["ma"], ["ma"], ["mr"], ["md", "53 no\r\n"]]))
            if rng.random() < 0.8:
                rest.append(rng.choice([["ha", gen_resp(rng)], ["ua", gen_resp(rng)], ["hr"], ["ur"]]))
            if rng.random() < 0.3:
                rest.append(rng.choice([["t"], ["l"], ["d", "585858"], ["d", "0d0a"]]))
            if rng.random() < 0.3:
                rest.append(rng.choice([["ua", gen_resp(rng)], ["ha", gen_resp(rng)], ["d", "7a"]]))
            yield {"mw": mw, "up": up, "handler": handler, "stream": stream.hex(), "segs": segs, "cuts": cuts, "rest": rest}

    def _case(self, case, seg):
        return {"mw": case["mw"], "up": case["up"], "handler": case["handler"], "evs": [["d", x] for x in seg] + case["rest"]}

    def impl(self, case):
        # `runs`: the distinct outcomes, that of the first segmentation first; `ix[i]`: which of them segmentation i produced
        loop = get_loop()
        runs, ix = [], []
        for seg in segs_of(case):
            r = summary(loop.run_until_complete(sim.run_conn(loop, self._case(case, seg))))
            if r not in runs:
                runs.append(r)
            ix.append(runs.index(r))
        return {"runs": runs, "ix": ix}

    def model(self, case):
        return sim.enc_case(self._case(case, [case["stream"]]))

    def expect(self, case, out):
        return parse_model(out)

    def same(self, exp, obs):
        return all(ConnFamily.same(self, exp, r) for r in obs["runs"])

    def oracle(self, case, obs):
        runs, ix = obs["runs"], obs["ix"]
        segs = segs_of(case)
        for i, k in enumerate(ix):
            r = runs[k]
            if r["h"] + r["u"] > 1:
                return ("handler-twice", f"segmentation {show_seg(segs[i])}: handler invoked {r['h']}x, upload handler {r['u']}x")
        first = runs[ix[0]]
        for i, k in enumerate(ix):
            r = runs[k]
            a = {k: first[k] for k in ("acts", "h", "u", "m", "content")}
            b = {k: r[k] for k in ("acts", "h", "u", "m", "content")}
            if a != b:
                return ("seg-dependent", f"outcome differs between segmentation {show_seg(segs[0])} and {show_seg(segs[i])} of the same {len(case['stream']) // 2} bytes: "
                        f"{str(a)[:200]} vs {str(b)[:200]}")
        return None

    def shrink(self, case, bad):
        """keep the first segmentation and the one segmentation that fails against it"""
        segs = segs_of(case)
        for i in range(1, len(segs)):
            cand = {k: v for k, v in case.items() if k != "cuts"}
            cand["segs"] = [segs[0], segs[i]]
            try:
                if bad(cand):
                    return cand
            except Exception:  # noqa: BLE001
                pass
        return case

    def key(self, case, obs):
        r = obs["runs"][0]
        ok, what = sim.wellformed_trace(r["acts"])
        return f"{what}|h{r['h']}u{r['u']}m{r['m']}|segs{min(len(obs['ix']), 20)}"


class Late(ConnFamily):
    """reads that arrive while a handler is pending or after the response; at most one invocation"""

    name = "late"
    quick_n = 1500
    thorough_n = 30000

    def gen(self, rng: random.Random, n: int):
        from .srvfam import gen_case, gen_orderly

        for _ in range(n):
            c = gen_orderly(rng)
            k = rng.randint(1, 4)
            for _ in range(k):
                pos = rng.randint(1, len(c["evs"]))
                c["evs"].insert(pos, ["d", rng.choice([b"x", b"\r\n", b"gemini://h/\r\n", b"titan://h/f;size=1\r\nZ", b"ab" * 10]).hex()])
            yield c

    def oracle(self, case, obs):
        return self.oracle_once(case, obs)


class PumpSeg(PumpFamily):
    """the ciphertext of the same session cut at arbitrary offsets (incl. handshake coalesced with application
    data, several records in one read): same outcome as the uncut delivery, at most one invocation"""

    name = "pumpseg"
    quick_n = 100
    thorough_n = 3000

    @staticmethod
    def edge_specs():
        """read boundaries at the extremes of the TLS byte stream, where random offsets hardly ever fall: a first read of only 1 … 6 bytes
        (inside the 5-byte header of the very first record), the first bytes one by one, the last byte of a flight on its own, and the
        same around the records that follow the first flight (end of the handshake, application data, close_notify)"""
        out = [{"f1": [[0, k]]} for k in range(1, 7)]
        out.append({"f1": [[0, -1]]})
        out.append({"f1": [[0, k] for k in range(1, 13)]})
        for ri in (0, 1, 2, -1, -2):
            for off in (1, 5, -1):
                out.append({"s": [[ri, off]]})
        for off in (0, 1, 5, -1):
            out.append({"s": [[ri, off] for ri in range(12)]})
        out.append({"f1": [[0, 1]], "s": [[0, 1]]})
        out.append({"f1": [[0, 5]], "s": [[ri, 5] for ri in range(12)]})
        out.append({"f1": [[0, 1], [0, -1]], "s": [[0, 1], [-1, -1]]})
        return out

    def gen(self, rng, n):
        from .pumpfam import gen_pump_case

        specs = self.edge_specs()
        first = list(self.share(specs))
        for j in range(max(n, len(first))):
            c = gen_pump_case(rng)
            if j < len(first):
                c["edgecuts"] = first[j]
            elif rng.random() < 0.25:
                # random boundaries near record edges: record index x offset from the start / the end of that record
                c["edgecuts"] = {rng.choice(["f1", "s"]): [[rng.randint(-3, 6), rng.choice([0, 1, 2, 3, 4, 5, 6, -1, -2])] for _ in range(rng.randint(1, 4))]}
            yield c

    def impl(self, case):
        from ..sim import pump as P
        from .srvfam import get_loop

        loop = get_loop()
        whole = dict(case)
        whole["maxcuts"] = 0
        whole.pop("edgecuts", None)
        a = loop.run_until_complete(P.run_pump(loop, case))
        b = loop.run_until_complete(P.run_pump(loop, whole))
        a["uncut"] = {k: b[k] for k in ("plain", "h", "u", "m", "content", "tcpclosed")}
        a["uncut_readlens"] = b.get("readlens")
        return a

    def oracle(self, case, obs):
        v = self.oracle_once(case, obs)
        if v:
            return v
        a = {k: obs[k] for k in ("plain", "h", "u", "m", "content", "tcpclosed")}
        if a != obs["uncut"]:
            return ("seg-dependent", f"outcome depends on how the TLS byte stream was cut: delivered in reads of {obs.get('readlens')} bytes {str(a)[:200]} "
                    f"vs in reads of {obs.get('uncut_readlens')} bytes {str(obs['uncut'])[:200]}")
        return None

    def key(self, case, obs):
        e = case.get("edgecuts")
        return PumpFamily.key(self, case, obs) + ("|edge:" + "+".join(sorted(e)) if e else "")


FAMILIES = [Seg(), Late(), PumpSeg()]
