import NauyacaVerif.Drv.Common
import NauyacaVerif.Fs.Tree
import NauyacaVerif.Fs.TreeOS
namespace NauyacaVerif.Drv.FsD
open NauyacaVerif.Drv Fs

-- tree-spec = entries separated by ';' : "f:<path>:<id>" | "d:<path>" | "l:<path>:<target>"
-- paths are slash-separated component strings without leading slash ("" = root)
def comps (s : String) : Path := if s == "" then [] else s.splitOn "/"
def parseTree (s : String) : Tree :=
  (s.splitOn ";").filterMap (fun e =>
    match e.splitOn ":" with
    | ["f", p, id] => some (comps p, Node.file id.toNat!)
    | ["d", p] => some (comps p, Node.dir)
    | ["l", p, tgt] => some (comps p, Node.link tgt)
    | _ => none)

/-- TAB-separated: `tree <spec> <path>` and `static <spec> <metas> <listing> <rawPath>` -/
def handle : List String → Option String
  | ["tree", ts, p] =>
    let t := parseTree ts
    let (r, ok) := realpath t (p.splitOn "/")
    let st := match statFollow t (p.splitOn "/") with
      | some (q, .file id) => s!"file{id}@/{"/".intercalate q}"
      | some (q, .dir) => s!"dir@/{"/".intercalate q}"
      | _ => "none"
    some s!"ok /{"/".intercalate r} {ok} {st}"
  | ["static", ts, ms, listing, rawPath] =>
    let t := parseTree ts
    let metas : List FileMeta := (ms.splitOn ";").filterMap (fun e => match e.splitOn ":" with
      | [id, u, b] => some ⟨id.toNat!, u == "1", b == "1"⟩ | _ => none)
    let os := treeOS t metas
    let cfg : SCfg := { root := ["root"], indices := ["index.gmi", "index.gemini"], listingOn := listing == "1", maxSize := 1000 }
    let (segs, _) := canonSegs rawPath
    let out := match Fs.handle os cfg segs with
      | .file _ id => s!"20 file{id}"
      | .listing _ names => s!"20 listing " ++ ",".intercalate (names.mergeSort (· ≤ ·))
      | .notFound => "51"
      | .tooLarge => "50"
      | .tempFail => "40"
    some ("ok " ++ out)
  | _ => none
end NauyacaVerif.Drv.FsD
