import NauyacaVerif.Gen.Fn.IsAllowed
import NauyacaVerif.Mw.Acl

/-! Translated function = hand-written model.  `Gen/Fn/IsAllowed.lean` is produced on every run by `harness/translate.py` from the Python
AST of the CURRENT source tree; the theorems here prove the generated definition equal to the hand-written model the property theorems
are about.  An edit that changes what the function computes changes the generated definition and breaks the theorem; an edit that
leaves the translator's subset removes the definition and the theorem no longer elaborates.  One file per function, so that a change to
one function touches only the properties that rest on it. -/
namespace NauyacaVerif.Translated
open NauyacaVerif.Gen

theorem any_denyHit (ns : List Mw.Net) (a : Mw.Addr) : ns.any (fun n => n.contains a) = Mw.denyHit ns a := by
  induction ns with
  | nil => rfl
  | cons n ns ih => simp only [List.any_cons, Mw.denyHit, ih]; cases n.contains a <;> simp

theorem any_allowHit (ns : List Mw.Net) (a : Mw.Addr) : ns.any (fun n => n.contains a) = Mw.allowHit ns a := by
  induction ns with
  | nil => rfl
  | cons n ns ih => simp only [List.any_cons, Mw.allowHit, ih]; cases n.contains a <;> simp

/-- `AccessControl._is_allowed` (translated) is the model's `Mw.isAllowed` -/
theorem isAllowed_eq (acl : Mw.Acl) (a : Option Mw.Addr) :
    Fn.isAllowed acl.deny acl.allow acl.dflt a = Mw.isAllowed acl a := by
  cases a with
  | none => rfl
  | some x =>
    have hsame : ∀ ns, Mw.allowHit ns x = Mw.denyHit ns x := by
      intro ns; rw [← any_allowHit, ← any_denyHit]
    simp only [Fn.isAllowed, Mw.isAllowed, any_denyHit, hsame]
    -- written so that it closes for every spelling of the same decision (nested ifs, `return any(...)`, early returns)
    first
      | done
      | (cases Mw.denyHit acl.deny x <;> cases h : acl.allow.isEmpty <;> cases hd : Mw.denyHit acl.allow x <;> simp_all)

end NauyacaVerif.Translated
