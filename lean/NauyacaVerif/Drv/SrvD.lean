import NauyacaVerif.Drv.Common
import NauyacaVerif.Srv.Conn
import NauyacaVerif.Srv.Pump
import NauyacaVerif.Srv.Flow
import NauyacaVerif.Srv.Sys
namespace NauyacaVerif.Drv.SrvD
open NauyacaVerif.Drv Srv

/-- resp ::= status/meta-cps/body   body ::= n | s:cps | b:hex -/
def parseResp (s : String) : Option Resp :=
  match s.splitOn "/" with
  | [st, m, b] =>
    let body := if b == "n" then Body.none
      else if b.startsWith "z:" then Body.bytes (List.replicate (b.drop 2).toString.toNat! 90)   -- n bytes 'Z'
      else if b.startsWith "s:" then Body.str (cpsNat (b.drop 2).toString)
      else Body.bytes (unhexS (b.drop 2).toString)
    some ⟨parseInt st, cpsNat m, body⟩
  | _ => none

def parseEv (s : String) : Option Ev :=
  if s == "t" then some .timeout
  else if s.startsWith "k:" then some (.tick (s.drop 2).toString.toNat!)
  else if s == "l" then some .lost
  else if s == "ma" then some .mwAllow
  else if s == "mr" then some .mwRaise
  else if s == "mn" then some (.mwDeny none)
  else if s.startsWith "md:" then some (.mwDeny (some (cpsChars (s.drop 3).toString)))
  else if s == "hr" then some .hRaise
  else if s == "ur" then some .uRaise
  else if s.startsWith "d:" then some (.data (unhexS (s.drop 2).toString))
  else if s.startsWith "ha:" then (parseResp (s.drop 3).toString).map .hDone
  else if s.startsWith "ua:" then (parseResp (s.drop 3).toString).map .uDone
  else none

def showOut : Out → String
  | .exact b => "w:" ++ toHex b
  | .statusOnly n => s!"~{n}"
  | .close => "close"

def parseItem (s : String) : Option Item :=
  if s == "h" then some .hs else if s == "H" then some .hsFinal else if s == "c" then some .closeNotify
  else if s == "b" then some .bad else if s.startsWith "a:" then some (.app (unhexS (s.drop 2).toString)) else none

def parsePEv (s : String) : Option PEv :=
  if s == "T" then some .hsTimeout else if s == "L" then some .tcpLost
  else if s.startsWith "i:" then (parseEv (s.drop 2).toString).map .innerEv
  else if s.startsWith "r:" then
    let body := (s.drop 2).toString
    if body == "" then some (.read []) else ((body.splitOn ",").mapM parseItem).map .read
  else none

def parseHandler (hs : String) : Option HScript :=
  if hs == "r" then some .syncRaise else if hs == "a" then some .async
  else if hs.startsWith "s:" then (parseResp (hs.drop 2).toString).map .sync else none

def connLine (env : Url.Env) (mw up hs : String) (evs : List String) : Option String :=
  match parseHandler hs, evs.mapM parseEv with
  | some handler, some evs =>
    let cfg : Cfg := { mw := mw == "1", upload := up == "1", handler, env }
    let s := run cfg evs
    -- length of the output trace after every event: when (relative to the events) the response was written
    let lens := (evs.foldl (fun (acc : St × List Nat) e => let t := step cfg acc.1 e; (t, t.out.length :: acc.2)) (({} : St), [])).2.reverse
    some s!"ok {" ".intercalate (s.out.map showOut)} | h={s.hcalls} u={s.ucalls} m={s.mwcalls} content={toHex (if s.ucalls > 0 then s.content else [])} timer={s.timer} phase={repr s.phase} lens={",".intercalate (lens.map toString)}"
  | _, _ => some "bad-op"

def parseSEv (s : String) : Option Sys.SEv :=
  if s == "rw" then some .resume else if s == "pw" then some .pause
  else if s.startsWith "lim:" then some (.limit (s.drop 4).toString.toNat!)
  else (parseEv s).map .conn

/-- the composed machine: request side + write pump.  Output: the pump's trace (`w<len>` per write, `close`), the response
    the request side decided on, and the call counters -/
def sysLine (env : Url.Env) (mw up hs : String) (evs : List String) : Option String :=
  match parseHandler hs, evs.mapM parseSEv with
  | some handler, some evs =>
    let cfg : Cfg := { mw := mw == "1", upload := up == "1", handler, env }
    let s := Sys.srun cfg (fun _ => []) evs
    let dynamic := s.conn.out.any (fun o => match o with | .statusOnly _ => true | _ => false)
    let showW : Flow.W → String | .write b => (if dynamic then "w~" else s!"w{b.length}") | .close => "close"
    some s!"ok {",".intercalate (s.flow.out.map showW)} | decided={" ".intercalate (s.conn.out.map (fun o => match o with | .exact b => (if b.length ≤ 256 then showOut o else s!"W{b.length}") | _ => showOut o))} h={s.conn.hcalls} u={s.conn.ucalls} m={s.conn.mwcalls} paused={s.flow.paused} unsent={s.flow.unsent.length}"
  | _, _ => some "bad-op"

def handle : List String → Option String
  | "sys" :: ip :: nf :: mw :: up :: hs :: evs =>
    sysLine { asciiEnv with ipLiteralOk := fun _ => ip == "1", nfkcOk := fun _ => nf == "1" } mw up hs evs
  | "render" :: [r] =>
    match parseResp r with
    | some resp => let (h, b) := render resp; some s!"ok {toHex h} {toHex b}"
    | none => some "bad-op"
  | "conn" :: mw :: up :: hs :: evs => connLine asciiEnv mw up hs evs
  | "connx" :: ip :: nf :: mw :: up :: hs :: evs =>
    connLine { asciiEnv with ipLiteralOk := fun _ => ip == "1", nfkcOk := fun _ => nf == "1" } mw up hs evs
  | "pump" :: up :: hs :: evs =>
    match parseHandler hs, evs.mapM parsePEv with
    | some handler, some evs =>
      let cfg : Cfg := { mw := false, upload := up == "1", handler, env := asciiEnv }
      let p := pumpRun cfg evs
      let (hc, uc) := match p.inner with | some i => (i.hcalls, i.ucalls) | none => (0, 0)
      some s!"ok plain={toHex (plainOut p)} tcpclosed={p.tcpClosed} inner={p.inner.isSome} h={hc} u={uc}"
    | _, _ => some "bad-op"
  | "flow" :: r :: evs =>
    -- the response write pump: events  s (send the pieces of r) | k:<n> (limit) | r (resume) | p (pause) | l (lost) | t:<n> (n/8 s pass)
    match parseResp r with
    | none => some "bad-op"
    | some resp =>
      let parseF (e : String) : Option Flow.FEv :=
        if e == "s" then some (.send (Flow.pieces resp)) else if e == "r" then some .resume else if e == "p" then some .pause
        else if e == "l" then some .lost else if e.startsWith "k:" then some (.limit (e.drop 2).toString.toNat!)
        else if e.startsWith "t:" then some (.tick (e.drop 2).toString.toNat!) else none
      match evs.mapM parseF with
      | none => some "bad-op"
      | some fe =>
        let st := Flow.frun fe
        let showW : Flow.W → String | .write b => s!"w{b.length}" | .close => "close"
        some s!"ok {",".intercalate (st.out.map showW)} paused={st.paused} unsent={st.unsent.length}"
  | "pumpx" :: mw :: up :: hs :: evs =>
    match parseHandler hs, evs.mapM parsePEv with
    | some handler, some evs =>
      let cfg : Cfg := { mw := mw == "1", upload := up == "1", handler, env := asciiEnv }
      let p := pumpRun cfg evs
      match p.inner with
      | some i =>
        some s!"ok {" ".intercalate (i.out.map showOut)} | tcpclosed={p.tcpClosed} inner=true h={i.hcalls} u={i.ucalls} m={i.mwcalls} content={toHex (if i.ucalls > 0 then i.content else [])} hsdone={p.hsDone}"
      | none => some s!"ok  | tcpclosed={p.tcpClosed} inner=false h=0 u=0 m=0 content=- hsdone={p.hsDone}"
    | _, _ => some "bad-op"
  | _ => none
end NauyacaVerif.Drv.SrvD
