"""Fake transport + virtual-clock loop for the client protocol objects (C13).

`FakeTransport` has asyncio's semantics as far as the client protocols can observe them: writes after
`close()` are dropped, `close()` is idempotent and (when attached to a loop) is followed by
`connection_lost(None)` at the next loop iteration; `abort(exc)` by `connection_lost(exc)`.

`VLoop` is a SelectorEventLoop whose clock is virtual: whenever the loop would block waiting for the
next timer, the clock jumps there instead.  Its `create_connection` does not open a socket: it builds
the protocol, attaches a `FakeTransport` and starts the scripted server (`ServerScript`) that feeds
`data_received` / `connection_lost` at scripted virtual times.
"""
from __future__ import annotations

import asyncio
import contextvars

# which request of a case is running in the current task (several calls in flight on one client: every gather()ed
# coroutine runs in its own copy of the context, and whatever it awaits - wait_for, create_connection - inherits it)
WHO: contextvars.ContextVar = contextvars.ContextVar("nv_request", default=None)


class FakeTransport:
    def __init__(self, loop=None, protocol=None):
        self.loop = loop
        self.protocol = protocol
        self.writes: list[bytes] = []
        self.dropped: list[bytes] = []
        self.closed = False
        self.close_calls = 0
        self.t_close = None          # loop time of the first close() by the client
        self.lost_called = False
        self.pause_after = None      # bytes after which the transport signals pause_writing (the peer has stopped reading)
        self.paused = False
        self.nwritten = 0

    # -- what the protocol calls -------------------------------------------------
    def write(self, data) -> None:
        (self.dropped if self.closed else self.writes).append(bytes(data))
        self.nwritten += len(data)
        if self.pause_after is not None and not self.paused and not self.closed and self.nwritten > self.pause_after:
            # asyncio signals it synchronously inside write(); it is never resumed: the peer reads nothing more
            self.paused = True
            pw = getattr(self.protocol, "pause_writing", None)
            if pw is not None:
                pw()

    def close(self) -> None:
        self.close_calls += 1
        if self.closed:
            return
        self.closed = True
        if self.loop is not None:
            self.t_close = self.loop.time()
            self.loop.call_soon(self._lost, None)

    def abort(self, exc=None) -> None:
        if self.closed and self.lost_called:
            return
        self.closed = True
        if self.loop is not None:
            self.loop.call_soon(self._lost, exc)

    def is_closing(self) -> bool:
        return self.closed

    def get_extra_info(self, name, default=None):
        return default

    # -- internals ------------------------------------------------------------------
    def _lost(self, exc) -> None:
        if self.lost_called:
            return
        self.lost_called = True
        self.closed = True
        self.protocol.connection_lost(exc)


class ServerScript:
    """what the scripted server does on one fake connection: [(delay, chunk), …] then close / reset / stall"""

    def __init__(self, chunks, delays, end: str, end_delay: float = 0.0, connect_delay: float = 0.0):
        self.chunks, self.delays, self.end, self.end_delay, self.connect_delay = chunks, delays, end, end_delay, connect_delay
        self.t_end = None          # virtual time at which the server closed / reset
        self.t_up = None           # virtual time at which the connection was established
        self.delivered = 0         # bytes handed to data_received
        self.escaped = []          # exceptions that escaped connection_lost
        self.transport = None

    async def run(self, loop, tr: FakeTransport):
        proto = tr.protocol
        for d, c in zip(self.delays, self.chunks):
            await asyncio.sleep(d)
            if tr.closed:
                return                 # asyncio delivers nothing after close()
            self.delivered += len(c)
            try:
                proto.data_received(c)
            except Exception as e:  # noqa: BLE001  asyncio: "Fatal error: protocol.data_received() call failed."
                tr.abort(e)
                return
        await asyncio.sleep(self.end_delay)
        if self.end == "stall" or tr.lost_called:
            return
        self.t_end = loop.time()
        exc = None if self.end == "close" else ConnectionResetError(104, "Connection reset by peer")
        tr.lost_called = True
        tr.closed = True
        try:
            proto.connection_lost(exc)
        except Exception as e:  # noqa: BLE001  (asyncio would log it; the caller is left without a result)
            self.escaped.append(e)


class VLoop(asyncio.SelectorEventLoop):
    def __init__(self):
        super().__init__()
        self._vt = 0.0
        self.scripts: list[ServerScript] = []      # one per connection, consumed in order
        self.scripts_of: dict = {}                 # request id (WHO) -> its scripts, consumed in order (calls in flight together)
        self.conns: list[FakeTransport] = []
        self.tasks = []
        real_select = self._selector.select

        def select(timeout=None):
            if timeout is None:
                raise RuntimeError("virtual loop: nothing scheduled, the caller would hang forever")
            if timeout > 0:
                self._vt += timeout
            return real_select(0)

        self._selector.select = select

    def time(self) -> float:
        return self._vt

    async def create_connection(self, protocol_factory, host=None, port=None, **kw):
        who = WHO.get()
        script = self.scripts_of[who].pop(0) if who in self.scripts_of else self.scripts.pop(0)
        if script.connect_delay:
            await asyncio.sleep(script.connect_delay)
        proto = protocol_factory()
        tr = FakeTransport(self, proto)
        tr.pause_after = getattr(script, "pause_after", None)
        script.transport = tr
        script.t_up = self.time()
        self.conns.append(tr)
        proto.connection_made(tr)
        self.tasks.append(self.create_task(script.run(self, tr)))
        return tr, proto
