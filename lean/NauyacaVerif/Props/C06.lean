import NauyacaVerif.Misc.PumpWrap
import NauyacaVerif.Srv.Render
import NauyacaVerif.Srv.Conn
import NauyacaVerif.Srv.Pump
import NauyacaVerif.Gen.Params
import NauyacaVerif.Gen.Tls
import NauyacaVerif.Srv.FlowProof

/-! # C06  Responses arrive complete and unaltered, for any size, on both TLS backends

Models: `Srv.render` (= `_encode_response`), `Srv.respond` (= `_send_response`: header write,
body write when non-empty, close) and `Misc.pumpSend` (= `TLSTransportWrapper.write/close` +
`TLSServerProtocol._flush_outgoing`) over an abstract TLS engine.  The engine's contract is an
explicit hypothesis: `AcceptOk` (one `SSL_write` takes a non-empty prefix of what it is offered)
and `PeerOk` (the peer decrypts the sealed records in order and sees the close-notify).  The two
source facts the proofs depend on are read from the current tree on every run (`Gen.recvSizes`,
`Gen.wrapperUsesSendall`); with `send` instead of `sendall` this file no longer builds. -/

namespace NauyacaVerif.C06
open Misc

/-- the `bio_read` / `recv` size of the flush and read loops, from the source -/
def chunk : Nat := match Gen.recvSizes with | [n] => n | _ => 0

theorem chunk_tie : Gen.recvSizes = [8192] := by decide
theorem chunk_pos : 0 < chunk := by decide
theorem recvSize_tie : Srv.recvSize = chunk := by decide
theorem sendall_tie : Gen.wrapperUsesSendall = true := by decide

/-- the `transport.write` calls of `_send_response` on a transport that never pauses (the PyOpenSSL
    wrapper; the stdlib transport may delay the later ones): the header, then the body in pieces of
    `Gen.responseWriteChunk` bytes (measured on the real protocol on every run; 0 = one piece) -/
def writesOf (r : Srv.Resp) : List Bytes :=
  (Srv.render r).1 :: bodyWrites Gen.responseWriteChunk (Srv.render r).2

theorem writesOf_flatten (r : Srv.Resp) : (writesOf r).flatten = (Srv.render r).1 ++ (Srv.render r).2 := by
  unfold writesOf
  rw [List.flatten_cons, bodyWrites_flatten]

/-- the writes as the connection model `Srv.respond` records them (body unsplit) -/
def connWrites (r : Srv.Resp) : List Bytes :=
  if (Srv.render r).2.isEmpty then [(Srv.render r).1] else [(Srv.render r).1, (Srv.render r).2]

theorem connWrites_flatten (r : Srv.Resp) : (connWrites r).flatten = (writesOf r).flatten := by
  rw [writesOf_flatten]
  unfold connWrites
  split
  · rename_i h
    have : (Srv.render r).2 = [] := by simpa using h
    simp [this]
  · simp

/-- tie to the connection model: a response on a live, unanswered connection is exactly these bytes
    (`connWrites`, same bytes as `writesOf`), then close -/
theorem respond_writes (s : Srv.St) (r : Srv.Resp) (hl : s.lost = false) (hs : s.sent = false) :
    (Srv.respond s r).out = s.out ++ (connWrites r).map Srv.Out.exact ++ [Srv.Out.close] := by
  unfold Srv.respond Srv.respondWith connWrites
  simp only [hl, hs]
  split
  · rename_i h; simp at h
  · split <;> simp

/-- the decrypting peer: plaintext stream and whether it ended with a close-notify -/
def PeerOk (e : Engine) (peer : Bytes → Bytes × Bool) : Prop :=
  ∀ recs : List Bytes, peer (sealed e recs ++ e.closeNotify) = (recs.flatten, true)

/-- `sendall`: whatever non-empty prefix each `SSL_write` takes, the records concatenate to the data -/
theorem sendAll_complete (accept : Nat → Nat) (h : AcceptOk accept) (data : Bytes) :
    (sendAll accept data.length data).flatten = data :=
  Misc.sendAll_complete accept h data.length data (Nat.le_refl _)

/-- `_flush_outgoing`: the TCP writes concatenate to the pending ciphertext -/
theorem flush_preserves (pending : Bytes) : (flush chunk pending).flatten = pending :=
  flush_complete chunk chunk_pos pending

theorem drain_complete (fuel : Nat) (pending : Bytes) (hf : pending.length ≤ fuel) :
    (drain chunk fuel pending).flatten = pending :=
  Misc.drain_complete chunk chunk_pos fuel pending hf

/-- for every response and every accept behaviour: the records the wrapper (as the current source
    writes it) hands to the engine for the header write and the body write concatenate to header ++ body -/
theorem wrapper_delivers (r : Srv.Resp) (accept : Nat → Nat) (h : AcceptOk accept) :
    (allRecords Gen.wrapperUsesSendall accept (writesOf r)).flatten = (Srv.render r).1 ++ (Srv.render r).2 := by
  rw [sendall_tie, allRecords_complete accept h, writesOf_flatten]

/-- the same for one `write` call with arbitrary data -/
theorem wrapper_write_complete (data : Bytes) (accept : Nat → Nat) (h : AcceptOk accept) :
    (wrapperRecords Gen.wrapperUsesSendall accept data).flatten = data := by
  rw [sendall_tie]; exact wrapperRecords_complete accept h data

/-- PyOpenSSL backend: the peer decrypts exactly `render r`, then sees the close-notify; the TCP
    close comes last and nothing is written after it -/
theorem pump_delivers (r : Srv.Resp) (e : Engine) (peer : Bytes → Bytes × Bool)
    (ha : AcceptOk e.accept) (hp : PeerOk e peer) :
    peer (delivered (pumpSend Gen.wrapperUsesSendall chunk e (writesOf r))) = ((Srv.render r).1 ++ (Srv.render r).2, true)
    ∧ writesAfterClose (pumpSend Gen.wrapperUsesSendall chunk e (writesOf r)) = 0
    ∧ (pumpSend Gen.wrapperUsesSendall chunk e (writesOf r)).getLast? = some TcpEv.close := by
  refine ⟨?_, pumpSend_close_last _ _ _ _⟩
  rw [pumpSend_stream _ chunk chunk_pos, hp, sendall_tie, allRecords_complete e.accept ha, writesOf_flatten]

/-- standard-library backend: the protocol writes straight to asyncio's TLS transport -/
def stdSend (r : Srv.Resp) : List TcpEv := (writesOf r).map TcpEv.write ++ [TcpEv.close]

theorem stdlib_delivers (r : Srv.Resp) :
    delivered (stdSend r) = (Srv.render r).1 ++ (Srv.render r).2 ∧ writesAfterClose (stdSend r) = 0 := by
  unfold stdSend
  rw [delivered_writes, writesAfterClose_writes, writesOf_flatten]
  simp [delivered, writesAfterClose]

/-- both backends hand the client the same plaintext -/
theorem backends_identical (r : Srv.Resp) (e : Engine) (peer : Bytes → Bytes × Bool)
    (ha : AcceptOk e.accept) (hp : PeerOk e peer) :
    (peer (delivered (pumpSend Gen.wrapperUsesSendall chunk e (writesOf r)))).1 = delivered (stdSend r) := by
  rw [(pump_delivers r e peer ha hp).1, (stdlib_delivers r).1]

/-- the sizes the driver prints are the lengths of the model's records, TCP writes and body pieces -/
theorem sizes_faithful (accept : Nat → Nat) (data pending : Bytes) :
    (sendAll accept data.length data).map List.length = sendAllSizes accept data.length data.length
    ∧ (flush chunk pending).map List.length = drainSizes chunk pending.length pending.length
    ∧ (bodyWrites Gen.responseWriteChunk data).map List.length = bodyWriteSizes Gen.responseWriteChunk data.length :=
  ⟨sendAll_sizes accept data.length data, drain_sizes chunk pending.length pending, bodyWrites_sizes _ data⟩

/-- the unrepaired wrapper (`send` once), as a theorem about the old code: data is lost at 16 385 bytes -/
theorem old_wrapper_truncates : ∃ data : Bytes, (wrapperRecords false (fun n => min n 16384) data).flatten ≠ data :=
  sendOnce_truncates

/-! non-vacuity -/
example : AcceptOk (fun n => min n 16384) := acceptOk_min 16384 (by decide)
example : AcceptOk (fun n => (n + 1) / 2) := by intro n hn; simp only; omega
def idEngine : Engine := ⟨fun n => min n 3, fun r => r, []⟩
example : PeerOk idEngine (fun s => (s, true)) := by intro recs; simp [sealed, idEngine]
example : sendAll (fun n => min n 3) 7 [1, 2, 3, 4, 5, 6, 7] = [[1, 2, 3], [4, 5, 6], [7]] := by decide
example : flush 3 [1, 2, 3, 4, 5, 6, 7] = [[1, 2, 3], [4, 5, 6], [7]] := by decide
example : pumpSend true 4 idEngine [[50, 48, 32, 13, 10], [7, 8, 9, 10]]
    = [.write [50, 48, 32, 13], .write [10], .write [7, 8, 9, 10], .close] := by decide
example : Srv.render ⟨20, [116], .bytes [1, 2, 3]⟩ = ([50, 48, 32, 116, 13, 10], [1, 2, 3]) := by decide
example : connWrites ⟨20, [116], .str [233]⟩ = [[50, 48, 32, 116, 13, 10], [195, 169]] := by decide
example : connWrites ⟨51, [116], .bytes [1, 2, 3]⟩ = [[53, 49, 32, 116, 13, 10]] := by decide
example : bodyWrites 3 [1, 2, 3, 4, 5, 6, 7] = [[1, 2, 3], [4, 5, 6], [7]] := by decide
example : bodyWrites 0 [1, 2, 3] = [[1, 2, 3]] := by decide

/-! ### the standard-library backend under flow control

`stdlib_delivers` above is the transport that never pauses.  asyncio's TLS transport does pause (`pause_writing`) when a
large response meets a slow reader; the server then hands the response over piece by piece (M-Flow).  For EVERY schedule of
pause / resume / disconnect events after the response was handed over: -/

/-- what has been written is always a prefix of exactly the encoded response (nothing altered, nothing reordered) -/
theorem stdlib_flow_prefix (r : Srv.Resp) (evs : List Srv.Flow.FEv) :
    (Srv.Flow.frun (.send (Srv.Flow.pieces r) :: evs)).done.flatten <+: (Srv.render r).1 ++ (Srv.render r).2 := by
  have h := Srv.Flow.frun_inv (.send (Srv.Flow.pieces r) :: evs)
  have ha := Srv.Flow.frun_send_all (Srv.Flow.pieces r) evs
  have key : (Srv.Flow.pieces r).flatten = (Srv.Flow.frun (.send (Srv.Flow.pieces r) :: evs)).done.flatten ++ (Srv.Flow.frun (.send (Srv.Flow.pieces r) :: evs)).unsent.flatten := by
    have := congrArg List.flatten h.total
    rw [List.flatten_append, ha] at this
    exact this.symm
  rw [← Srv.Flow.pieces_flatten r, key]
  exact List.prefix_append _ _

/-- and when the connection is closed the peer has been sent ALL of it: complete, for any size, however slowly it reads -/
theorem stdlib_flow_complete (r : Srv.Resp) (evs : List Srv.Flow.FEv)
    (hc : (Srv.Flow.frun (.send (Srv.Flow.pieces r) :: evs)).closed = true) :
    (Srv.Flow.frun (.send (Srv.Flow.pieces r) :: evs)).done.flatten = (Srv.render r).1 ++ (Srv.render r).2 := by
  have h := Srv.Flow.frun_inv (.send (Srv.Flow.pieces r) :: evs)
  have ha := Srv.Flow.frun_send_all (Srv.Flow.pieces r) evs
  have hu := h.closedEmpty hc
  have key := congrArg List.flatten h.total
  rw [List.flatten_append, ha, hu] at key
  rw [← Srv.Flow.pieces_flatten r, ← key]; simp

/-- the pieces are what `stdSend` writes in one go: the two descriptions of the backend agree when nothing pauses -/
theorem stdlib_flow_unpaused (r : Srv.Resp) :
    (Srv.Flow.frun [.send (Srv.Flow.pieces r)]).out = (Srv.Flow.pieces r).map .write ++ [.close] := Srv.Flow.send_unpaused _
end NauyacaVerif.C06
