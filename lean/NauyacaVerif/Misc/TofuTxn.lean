/-! # M-Tofu (transactions): `TOFUDatabase` as statement scripts with crash points

The store is an association list keyed by (hostname, port) — the table `known_hosts` with its
primary key.  Every operation of `nauyaca/security/tofu.py` is a *script*: a list of transactions
(one per `with self._connection() as conn`), each a list of the SQL statements the code issues on
that connection, `commit` being a statement of its own.  `conn.close()` without a commit drops the
uncommitted work (the working copy), so a crash or an exception at statement boundary `k` is
"execute the first `k` statements, then keep what was committed".

Host names are `List Nat` (code points), fingerprints and time stamps are opaque tokens (`Nat`).
No Mathlib here: the driver links this file. -/

namespace TofuTxn

abbrev Host := List Nat

structure Row where
  host : Host
  port : Nat
  fp : Nat
  first : Nat
  last : Nat
deriving Repr, DecidableEq

abbrev Store := List Row

def Row.hasKey (r : Row) (h : Host) (p : Nat) : Bool := r.host == h && r.port == p

/-- `SELECT … WHERE hostname = ? AND port = ?` -/
def lookup (s : Store) (h : Host) (p : Nat) : Option Row := s.find? (fun r => r.hasKey h p)

inductive Stmt where
  | create                                            -- CREATE TABLE IF NOT EXISTS
  | select (h : Host) (p : Nat)
  | insert (r : Row)
  | updateFp (h : Host) (p : Nat) (fp : Nat) (now : Nat)   -- SET fingerprint = ?, last_seen = ?
  | touch (h : Host) (p : Nat) (now : Nat)                  -- SET last_seen = ?
  | delete (h : Host) (p : Nat)
  | deleteHost (h : Host)
  | deleteAll
  | commit
deriving Repr, DecidableEq

def setFp (h : Host) (p : Nat) (fp now : Nat) (r : Row) : Row :=
  if r.hasKey h p then { r with fp := fp, last := now } else r

def setLast (h : Host) (p : Nat) (now : Nat) (r : Row) : Row :=
  if r.hasKey h p then { r with last := now } else r

/-- what a statement does to the connection's working copy of the table
    (an `INSERT` of an existing primary key raises and changes nothing) -/
def effect (w : Store) : Stmt → Store
  | .create => w
  | .select _ _ => w
  | .insert r => if (lookup w r.host r.port).isSome then w else w ++ [r]
  | .updateFp h p fp now => w.map (setFp h p fp now)
  | .touch h p now => w.map (setLast h p now)
  | .delete h p => w.filter (fun r => !r.hasKey h p)
  | .deleteHost h => w.filter (fun r => !(r.host == h))
  | .deleteAll => []
  | .commit => w

def effects (w : Store) (t : List Stmt) : Store := t.foldl effect w

/-- database file + the open connection's uncommitted view -/
structure Db where
  durable : Store
  working : Store
deriving Repr, DecidableEq

def execStmt (db : Db) (st : Stmt) : Db :=
  if st = .commit then { durable := db.working, working := db.working }
  else { durable := db.durable, working := effect db.working st }

abbrev Txn := List Stmt
abbrev Script := List Txn

/-- one connection: statements run against a working copy, only `commit` reaches the file;
    closing the connection drops the rest -/
def runTxn (d : Store) (t : Txn) : Store := (t.foldl execStmt ⟨d, d⟩).durable

def run (d : Store) (sc : Script) : Store := sc.foldl runTxn d

/-- the first `k` statements of a script -/
def takeScript : Nat → Script → Script
  | _, [] => []
  | k, t :: ts => if t.length ≤ k then t :: takeScript (k - t.length) ts else [t.take k]

/-- crash (process killed, or an exception unwinding through `finally: conn.close()`) at statement
    boundary `k`: the first `k` statements ran, the open transaction is lost -/
def crashAt (k : Nat) (sc : Script) (d : Store) : Store := run d (takeScript k sc)

def Script.size (sc : Script) : Nat := (sc.map List.length).sum

/-! ## import files -/

/-- one `[hosts."key"]` table of an import file, as far as `import_toml` looks at it -/
structure Entry where
  host : Host
  port : Int
  portIsInt : Bool      -- `isinstance(port, int)`
  fp : Nat
  fpOk : Bool           -- `_validate_fingerprint`
  first : Nat
  missing : Bool        -- a required field is absent (or the entry is not a table)
deriving Repr, DecidableEq

inductive Check where | ok | missing | badPort | badFp
deriving Repr, DecidableEq

def checkEntry (e : Entry) : Check :=
  if e.missing then .missing
  else if !e.portIsInt || e.port < 1 || e.port > 65535 then .badPort
  else if !e.fpOk then .badFp
  else .ok

/-- what `on_conflict(hostname, port, old, new)` does when called for the entry at a position -/
inductive Cb where | update | skip | raise
deriving Repr, DecidableEq

inductive Err where | missing | badPort | badFp | callback | unreadable
deriving Repr, DecidableEq

inductive Tally where | added | updated | skipped
deriving Repr, DecidableEq

inductive Step where
  | fail (e : Err) (stmts : List Stmt)
  | cont (stmts : List Stmt) (t : Tally)
deriving Repr

/-- one iteration of the loop in `import_toml` against the working copy `w` -/
def entryStep (cb : Option (Nat → Cb)) (now i : Nat) (e : Entry) (w : Store) : Step :=
  match checkEntry e with
  | .missing => .fail .missing []
  | .badPort => .fail .badPort []
  | .badFp => .fail .badFp []
  | .ok =>
    match lookup w e.host e.port.toNat with
    | none => .cont [.select e.host e.port.toNat, .insert ⟨e.host, e.port.toNat, e.fp, e.first, now⟩] .added
    | some r =>
      if r.fp = e.fp then .cont [.select e.host e.port.toNat] .skipped
      else match cb with
        | none => .cont [.select e.host e.port.toNat] .skipped
        | some f =>
          match f i with
          | .update => .cont [.select e.host e.port.toNat, .updateFp e.host e.port.toNat e.fp now] .updated
          | .skip => .cont [.select e.host e.port.toNat] .skipped
          | .raise => .fail .callback [.select e.host e.port.toNat]

structure LoopOut where
  stmts : List Stmt
  err : Option Err
  tally : List Tally
deriving Repr

def LoopOut.prepend (st : List Stmt) (t : Tally) (r : LoopOut) : LoopOut :=
  ⟨st ++ r.stmts, r.err, t :: r.tally⟩

/-- the statements the import loop issues up to its end or to the entry that makes it raise -/
def importLoop (cb : Option (Nat → Cb)) (now : Nat) : Nat → List Entry → Store → LoopOut
  | _, [], _ => ⟨[], none, []⟩
  | i, e :: es, w =>
    match entryStep cb now i e w with
    | .fail err st => ⟨st, some err, []⟩
    | .cont st t => (importLoop cb now (i + 1) es (effects w st)).prepend st t

inductive ImportFile where
  | unreadable                       -- missing file, I/O error, TOML syntax error, duplicate key, no `hosts` table
  | entries (es : List Entry)
deriving Repr

inductive Op where
  | init
  | trust (h : Host) (p : Nat) (fp now : Nat)
  | verify (h : Host) (p : Nat) (fp now : Nat)
  | revoke (h : Host) (p : Nat)
  | revokeHost (h : Host)
  | clear
  | importToml (merge : Bool) (file : ImportFile) (cb : Option (Nat → Cb)) (now : Nat)

def importPre (merge : Bool) : List Stmt := if merge then [] else [.deleteAll]

def importScript (merge : Bool) (es : List Entry) (cb : Option (Nat → Cb)) (now : Nat) (s : Store) : Script :=
  match (importLoop cb now 0 es (effects s (importPre merge))).err with
  | none => [importPre merge ++ (importLoop cb now 0 es (effects s (importPre merge))).stmts ++ [.commit]]
  | some _ => [importPre merge ++ (importLoop cb now 0 es (effects s (importPre merge))).stmts]

def trustScript (h : Host) (p : Nat) (fp now : Nat) (s : Store) : Script :=
  match lookup s h p with
  | none => [[.select h p, .insert ⟨h, p, fp, now, now⟩, .commit]]
  | some _ => [[.select h p, .updateFp h p fp now, .commit]]

def verifyScript (h : Host) (p : Nat) (fp now : Nat) (s : Store) : Script :=
  match lookup s h p with
  | none => [[.select h p]]
  | some r => if r.fp = fp then [[.select h p, .touch h p now, .commit]] else [[.select h p]]

/-- the SQL an operation issues on a store in state `s`, connection by connection -/
def script (op : Op) (s : Store) : Script :=
  match op with
  | .init => [[.create, .commit]]
  | .trust h p fp now => trustScript h p fp now s
  | .verify h p fp now => verifyScript h p fp now s
  | .revoke h p => [[.delete h p, .commit]]
  | .revokeHost h => [[.deleteHost h, .commit]]
  | .clear => [[.deleteAll, .commit]]
  | .importToml _ .unreadable _ _ => []
  | .importToml merge (.entries es) cb now => importScript merge es cb now s

/-! ## the specification of each operation (independent of the scripts) -/

def upsert (s : Store) (h : Host) (p : Nat) (fp now : Nat) : Store :=
  match lookup s h p with
  | none => s ++ [⟨h, p, fp, now, now⟩]
  | some _ => s.map (setFp h p fp now)

def verifySpec (s : Store) (h : Host) (p : Nat) (fp now : Nat) : Store :=
  match lookup s h p with
  | none => s
  | some r => if r.fp = fp then s.map (setLast h p now) else s

/-- merging one entry: `none` = the import raises here -/
def mergeEntry (cb : Option (Nat → Cb)) (now i : Nat) (e : Entry) (w : Store) : Option Store :=
  match checkEntry e with
  | .ok =>
    match lookup w e.host e.port.toNat with
    | none => some (w ++ [⟨e.host, e.port.toNat, e.fp, e.first, now⟩])
    | some r =>
      if r.fp = e.fp then some w
      else match cb with
        | none => some w
        | some f =>
          match f i with
          | .update => some (w.map (setFp e.host e.port.toNat e.fp now))
          | .skip => some w
          | .raise => none
  | _ => none

def importFold (cb : Option (Nat → Cb)) (now : Nat) : Nat → List Entry → Store → Option Store
  | _, [], w => some w
  | i, e :: es, w =>
    match mergeEntry cb now i e w with
    | none => none
    | some w' => importFold cb now (i + 1) es w'

def importBase (merge : Bool) (s : Store) : Store := if merge then s else []

/-- does the import raise? -/
def importFails (merge : Bool) (file : ImportFile) (cb : Option (Nat → Cb)) (now : Nat) (s : Store) : Bool :=
  match file with
  | .unreadable => true
  | .entries es => (importFold cb now 0 es (importBase merge s)).isNone

def importSpec (merge : Bool) (file : ImportFile) (cb : Option (Nat → Cb)) (now : Nat) (s : Store) : Store :=
  match file with
  | .unreadable => s
  | .entries es =>
    match importFold cb now 0 es (importBase merge s) with
    | some s' => s'
    | none => s

/-- the store after the complete operation -/
def apply (op : Op) (s : Store) : Store :=
  match op with
  | .init => s
  | .trust h p fp now => upsert s h p fp now
  | .verify h p fp now => verifySpec s h p fp now
  | .revoke h p => s.filter (fun r => !r.hasKey h p)
  | .revokeHost h => s.filter (fun r => !(r.host == h))
  | .clear => []
  | .importToml merge file cb now => importSpec merge file cb now s

/-- the keys an operation names -/
def names (op : Op) (h : Host) (p : Nat) : Bool :=
  match op with
  | .init => false
  | .trust h' p' _ _ => h' == h && p' == p
  | .verify h' p' _ _ => h' == h && p' == p
  | .revoke h' p' => h' == h && p' == p
  | .revokeHost h' => h' == h
  | .clear => true
  | .importToml false _ _ _ => true
  | .importToml true .unreadable _ _ => false
  | .importToml true (.entries es) _ _ => es.any (fun e => e.host == h && e.port.toNat == p)

/-! ## export / import through a TOML table keyed by "hostname:port" -/

/-- decimal digits of a port (code points), most significant first -/
def decDigits (n : Nat) : List Nat :=
  if n < 10 then [48 + n] else decDigits (n / 10) ++ [48 + n % 10]
termination_by n
decreasing_by omega

/-- `f"{hostname}:{port}"` -/
def keyStr (h : Host) (p : Nat) : List Nat := h ++ 58 :: decDigits p

def entryOf (r : Row) : Entry :=
  { host := r.host, port := r.port, portIsInt := true, fp := r.fp, fpOk := true, first := r.first, missing := false }

/-- a Python dict / TOML table: insertion ordered, assignment to an existing key replaces the value -/
abbrev Table := List (List Nat × Entry)

def Table.set (d : Table) (k : List Nat) (v : Entry) : Table :=
  if d.any (fun kv => kv.1 == k) then d.map (fun kv => if kv.1 == k then (k, v) else kv) else d ++ [(k, v)]

/-- `export_toml`: `data["hosts"][f"{hostname}:{port}"] = {…}` for every row returned by `list_hosts` -/
def exportToml (rows : Store) : Table := rows.foldl (fun d r => d.set (keyStr r.host r.port) (entryOf r)) []

/-- `import_toml(file, merge=True)` of an exported table -/
def importInto (s : Store) (file : Table) (now : Nat) : Store :=
  apply (.importToml true (.entries (file.map (·.2))) none now) s

end TofuTxn
