import Url.Basic
open Url
def hexVal (c : Char) : Nat :=
  if c.isDigit then c.toNat - 48 else if 'a' ≤ c ∧ c ≤ 'f' then c.toNat - 87 else 0
def unhexNat : List Char → Nat := fun cs => cs.foldl (fun n c => n*16 + hexVal c) 0
/-- code points as comma-separated hex -/
def parseCps (s : String) : Str :=
  if s == "-" then [] else (s.splitOn ",").map (fun t => Char.ofNat (unhexNat t.toList))
def showCps (s : Str) : String :=
  if s.isEmpty then "-" else ",".intercalate (s.map (fun c => (Nat.toDigits 16 c.toNat).asString))
def lowerA (s : Str) : Str := s.map lowerAscii
partial def loop (h : IO.FS.Stream) : IO Unit := do
  let line ← h.getLine
  if line.isEmpty then return ()
  match line.trimAscii.toString.splitOn " " with
  | [u, ip, nf] =>
    let env : Env := { ipLiteralOk := fun _ => ip == "1", nfkcOk := fun _ => nf == "1", lowerU := lowerA }
    match parseUrl env (parseCps u) with
    | .error e => IO.println s!"err {repr e}"
    | .ok p => IO.println s!"ok {showCps p.host} {p.port} {showCps p.path} {showCps p.query} {showCps p.normalized}"
  | _ => IO.println "bad-op"
  loop h
def main : IO Unit := do loop (← IO.getStdin)
