import NauyacaVerif.Url.Basic
import NauyacaVerif.Url.Proof
namespace Url

theorem preprocess_assemble {nl p q : Str} (h : Clean nl p q) : preprocess (assemble nl p q) = assemble nl p q := by
  unfold preprocess assemble
  have hs := h.safe
  simp only [List.all_append, Bool.and_eq_true] at hs
  obtain ⟨⟨h1, h2⟩, h3⟩ := hs
  have hd : ((gemPrefix ++ nl ++ p ++ if q.isEmpty = true then [] else '?' :: q)).dropWhile isC0OrSpace
      = (gemPrefix ++ nl ++ p ++ if q.isEmpty = true then [] else '?' :: q) := by
    simp [gemPrefix, List.dropWhile, isC0OrSpace]
  rw [hd]
  rw [List.filter_eq_self]
  intro c hc
  simp only [List.mem_append] at hc
  rcases hc with ((hc | hc) | hc) | hc
  · simp [gemPrefix] at hc; rcases hc with rfl|rfl|rfl|rfl|rfl|rfl|rfl|rfl|rfl <;> decide
  · exact List.all_eq_true.mp h1 c hc
  · exact List.all_eq_true.mp h2 c hc
  · split at hc
    · simp at hc
    · simp at hc
      rcases hc with rfl | hc
      · decide
      · exact List.all_eq_true.mp h3 c hc

theorem splitScheme_assemble (nl p q : Str) :
    splitScheme (assemble nl p q) = (gemini, ['/','/'] ++ nl ++ p ++ (if q.isEmpty then [] else '?' :: q)) := by
  unfold splitScheme assemble
  have : findIdx (· = ':') (gemPrefix ++ nl ++ p ++ if q.isEmpty = true then [] else '?' :: q) = some 6 := by
    simp [gemPrefix, findIdx]
  rw [this]
  simp [gemPrefix, schemeOk, firstIsAsciiAlpha, schemeChar, lowerAscii, gemini, Char.isAlphanum, Char.isAlpha, Char.isDigit, Char.isUpper, Char.isLower]

theorem splitNetloc_clean {nl p q' : Str} (h1 : nl.all (fun c => !isDelim c) = true)
    (hp : p = [] ∨ p.head? = some '/') (hq : q' = [] ∨ q'.head? = some '?') :
    splitNetloc (['/','/'] ++ nl ++ p ++ q') = (nl, p ++ q') := by
  unfold splitNetloc
  simp only [List.append_assoc, List.cons_append, List.nil_append, List.take_succ_cons, List.take_zero, ↓reduceIte, List.drop_succ_cons, List.drop_zero]
  have hn : findIdx isDelim nl = none := findIdx_none_iff.mpr (by simpa using h1)
  rw [findIdx_append_none hn]
  rcases hp with rfl | hp
  · rcases hq with rfl | hq
    · simp [findIdx]
    · cases q' with
      | nil => simp at hq
      | cons c cs =>
        simp at hq; subst hq
        simp [findIdx, isDelim]
  · cases p with
    | nil => simp at hp
    | cons c cs =>
      simp at hp; subst hp
      simp [findIdx, isDelim]
end Url
