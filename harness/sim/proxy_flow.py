"""Downstream clients that read at their own pace (C18 family `backlog`).

The deployment of `proxy_world` (real GeminiServerProtocol -> real Router from a TOML file -> real ProxyHandler /
GeminiClient -> scripted network `Net` on the virtual clock `VLoop`), but every downstream connection is a
`FlowDown`: a transport with asyncio's write-side flow control.  The connection takes `room` bytes without the
client reading (socket buffers); what does not fit stays in the transport's write buffer, and a buffer above the
high-water mark set by the protocol makes the transport call `pause_writing()` DURING that write, as asyncio's
transports do; when the client reads (`grant`) the buffer drains and `resume_writing()` follows once it is down to
the low-water mark.  `close()` with a non-empty buffer keeps flushing and reports `connection_lost(None)` when the
buffer is empty; a client that drops the connection (`drop`) discards the buffer and reports
`connection_lost(ConnectionResetError)`.

    client = {"room": bytes taken without reading | None (reads everything at once),
              "reads": [[t, n | None], …]   t seconds after the request the client reads n more bytes (None: from now on everything),
              "drop": t | None}             t seconds after the request the client drops the connection

Nothing here imports nauyaca at module import time.
"""
from __future__ import annotations

import asyncio
from typing import Any

from . import proxy_world as W

INF = float("inf")


class FlowDown(asyncio.Transport):
    """A downstream client's connection as the server protocol sees it, with write-side flow control."""

    def __init__(self, loop, proto, peer, room):
        super().__init__()
        self.loop, self.proto, self.peer = loop, proto, peer
        self.room = INF if room is None else room
        self.high, self.low = 64 * 1024, 16 * 1024
        self.buf = bytearray()          # accepted by write(), not yet taken by the connection
        self.received = bytearray()     # what has reached the client's side
        self.dropped = 0                # writes after close()
        self.nwrites = 0
        self.paused = False
        self.pauses = 0
        self.closing = False            # close() was called by the server
        self.closed = False             # the connection is gone (flushed and closed, or dropped)
        self.closed_at: float | None = None
        self.left = False               # the client dropped the connection
        self.lost = False
        self.on_close = None

    # -- called by the server protocol (the code under test) ---------------------------------------
    def write(self, data: bytes) -> None:
        if self.closing or self.closed:
            self.dropped += 1
            return
        self.nwrites += 1
        self.buf += bytes(data)
        self._flush()
        if len(self.buf) > self.high and not self.paused:
            self.paused = True
            self.pauses += 1
            self.proto.pause_writing()

    def close(self) -> None:
        if self.closing or self.closed:
            return
        self.closing = True
        if not self.buf:
            self._finish(None)

    def abort(self) -> None:
        if not self.closed:
            self.closing = True
            del self.buf[:]
            self._finish(None)

    def is_closing(self) -> bool:
        return self.closing or self.closed

    def set_write_buffer_limits(self, high=None, low=None) -> None:
        if high is None:
            high = 64 * 1024 if low is None else 4 * low
        if low is None:
            low = high // 4
        self.high, self.low = high, low

    def get_write_buffer_size(self) -> int:
        return len(self.buf)

    def get_write_buffer_limits(self):
        return self.low, self.high

    def get_extra_info(self, name, default=None):
        return self.peer if name == "peername" else default

    # -- the connection and the client ---------------------------------------------------------------
    def _flush(self) -> None:
        if self.buf and self.room > 0:
            n = len(self.buf) if self.room == INF else min(len(self.buf), int(self.room))
            self.received += self.buf[:n]
            del self.buf[:n]
            if self.room != INF:
                self.room -= n

    def _finish(self, exc) -> None:
        self.closed = True
        self.closed_at = self.loop.time()
        self.loop.call_soon(self._lose, exc)
        if self.on_close:
            self.on_close()

    def _lose(self, exc) -> None:
        if not self.lost:
            self.lost = True
            self.proto.connection_lost(exc)

    def grant(self, n) -> None:
        """the client reads n more bytes (None: everything from now on)"""
        if self.closed:
            return
        self.room = INF if n is None else self.room + n
        self._flush()
        if self.paused and len(self.buf) <= self.low:   # (asyncio resumes the protocol before it looks at `closing`)
            self.paused = False
            self.proto.resume_writing()
        if self.closing and not self.closed and not self.buf:
            self._finish(None)

    def drop(self) -> None:
        """the client drops the connection: unsent data is discarded"""
        if self.closed:
            return
        self.left = True
        self.closing = True
        del self.buf[:]
        self._finish(ConnectionResetError(104, "Connection reset by peer"))


def run_flow_world(locs, reqs, docroot: str, tail: float = 3.0) -> dict[str, Any]:
    """`proxy_world.run_world` with `FlowDown` connections.

    reqs: [{"at", "lead", "line" (ends in ?r<i>), "plan", "wait", "client": {"room", "reads", "drop"}}]
    returns {"results": [{"down": bytes, "nwrites", "dropped", "closed", "left", "pauses", "unsent", "answered_at"}], "conns": […]}
    """
    from nauyaca.protocol.response import GeminiResponse
    from nauyaca.server.protocol import GeminiServerProtocol

    loop = W.VLoop()
    router = W.build_router(locs, docroot)
    router.set_default_handler(lambda request: GeminiResponse(status=51, meta="Not found"))
    ups = {W._hostport(l["upstream"]) for l in locs if l.get("type", "proxy") == "proxy"}

    def answer(host, port, line):
        if line is None:
            h = str(host).lower()
            return "refuse" if h.startswith("refused") else "never" if h.startswith("mute") else "ok"
        if (str(host).lower(), port) not in ups:
            return {"name": "decoy", "ev": [[0.0, "h", (b"20 text/plain\r\nDECOY " + line).hex()]], "end": ["close", 0.0]}
        m = W._TOKEN.search(line)
        if not m or int(m.group(1)) >= len(reqs):
            return {"name": "unknown", "ev": [[0.0, "h", b"51 no such page\r\n".hex()]], "end": ["close", 0.0]}
        return dict(reqs[int(m.group(1))]["plan"], name=f"r{int(m.group(1))}")

    net = W.Net(loop, answer)
    downs: list[FlowDown | None] = [None] * len(reqs)
    t_req: list[float | None] = [None] * len(reqs)
    all_done = asyncio.Event()

    def check_done():
        if all(d is not None and d.closed for d in downs):
            all_done.set()

    def connect(i):
        cl = reqs[i].get("client") or {}
        proto = GeminiServerProtocol(router.route, None)
        tr = FlowDown(loop, proto, ("192.0.2.%d" % (7 + i), 40000 + i), cl.get("room"))
        tr.on_close = check_done
        downs[i] = tr
        proto.connection_made(tr)
        loop.call_later(reqs[i].get("lead", 0.0), request, i, proto, tr)

    def request(i, proto, tr):
        t_req[i] = loop.time()
        if tr.closed:
            return
        cl = reqs[i].get("client") or {}
        # the client's own schedule: one timer per instant, actions of an instant in script order
        steps: dict[float, list] = {}
        for t, n in cl.get("reads") or []:
            steps.setdefault(float(t), []).append((tr.grant, (n,)))
        if cl.get("drop") is not None:
            steps.setdefault(float(cl["drop"]), []).append((tr.drop, ()))

        def run(actions):
            for f, a in actions:
                f(*a)

        for t in sorted(steps):
            loop.call_later(t, run, steps[t])
        proto.data_received((reqs[i]["line"] + "\r\n").encode("utf-8"))

    async def main():
        for i, r in enumerate(reqs):
            loop.call_later(r["at"], connect, i)
        horizon = max(r["at"] + r.get("lead", 0.0) + r["wait"] for r in reqs)
        try:
            await asyncio.wait_for(all_done.wait(), horizon)
        except (asyncio.TimeoutError, TimeoutError):
            pass
        await asyncio.sleep(tail)

    asyncio.set_event_loop(loop)
    try:
        loop.run_until_complete(main())
        results = []
        for i, tr in enumerate(downs):
            if tr is None:
                results.append({"down": b"", "nwrites": 0, "dropped": 0, "closed": False, "left": False, "pauses": 0, "unsent": 0, "answered_at": None})
                continue
            results.append({"down": bytes(tr.received), "nwrites": tr.nwrites, "dropped": tr.dropped, "closed": tr.closed, "left": tr.left,
                            "pauses": tr.pauses, "unsent": len(tr.buf),
                            "answered_at": None if tr.closed_at is None or t_req[i] is None else round(tr.closed_at - t_req[i], 6)})
        conns = [{"host": r["host"], "port": r["port"], "line": bytes(r["written"]), "at": round(r["at"], 6), "plan": r.get("plan", "")} for r in net.records]
        return {"results": results, "conns": conns}
    finally:
        try:
            pending = [t for t in asyncio.all_tasks(loop) if not t.done()]
            for t in pending:
                t.cancel()
            if pending:
                loop.run_until_complete(asyncio.gather(*pending, return_exceptions=True))
        except Exception:  # noqa: BLE001
            pass
        asyncio.set_event_loop(None)
        loop.close()


def isolated(fn, arg):
    """fn(arg) (JSON-serialisable result) evaluated in a forked child of this process.

    What a deployment leaves behind in the interpreter (module- or class-level state of the code under test) must
    not reach the next case: a case is then a failing input on its own, in a fresh process, or not at all."""
    import json
    import os
    import signal

    if not hasattr(os, "fork") or os.environ.get("NAUYACA_NOFORK") == "1":
        return fn(arg)
    r, w = os.pipe()
    pid = os.fork()
    if pid == 0:
        code = 0
        try:
            os.close(r)
            try:
                out = {"ok": fn(arg)}
            except BaseException as e:  # noqa: BLE001
                out = {"err": f"{type(e).__name__}: {e}"[:400]}
            with os.fdopen(w, "wb") as f:
                f.write(json.dumps(out).encode("utf-8"))
        except BaseException:  # noqa: BLE001
            code = 1
        finally:
            os._exit(code)
    os.close(w)
    done = False
    try:
        with os.fdopen(r, "rb") as f:
            data = f.read()
        done = True
    finally:
        if not done:
            try:
                os.kill(pid, signal.SIGKILL)
            except OSError:
                pass
        os.waitpid(pid, 0)
    if not data:
        raise RuntimeError("the child process running the case ended without a result")
    out = json.loads(data.decode("utf-8"))
    if "err" in out:
        raise RuntimeError("in the child process running the case: " + out["err"])
    return out["ok"]
