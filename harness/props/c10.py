"""C10  Rate limiting bounds admitted requests per address in every window

Correspondence: the real `RateLimiter` with its real clean-up task running on a virtual-clock event loop
(`time` inside `nauyaca.server.middleware` replaced by a shim reading the same clock), fed arrival
histories on a 1/8 s grid with dyadic refill rates (so Python floats are exact), against `Mw.runL` in the
Lean model (`Rat` arithmetic, clean-up passes as explicit events).  Family `crowd` adds big tables (an address's bursts around a crowd of
up to 10^4 / 2.6*10^5 other addresses) and bursts scheduled in a chosen loop iteration around a due clean-up
wake-up.  Family `wiring` takes the
`[rate_limit]` table of a TOML file through `nauyaca serve --config` to the chain and protocol the server
would run.

Direct oracles (independent of the Lean model, exact `Fraction` arithmetic):
  * sliding window over the admitted list: for all admitted i ≤ j of one address,
    j − i + 1 ≤ capacity + refill_rate · (t_j − t_i);
  * allowance accounting without clean-up (full at the first request, refilled at refill_rate, capped,
    minus one per admitted request): a refusal needs allowance < 1, an admission needs allowance ≥ 1;
  * non-interference: the address's own sub-history replayed alone on a fresh real limiter gives the
    same decisions;
  * a refusal carries a `44 … <retry_after> …\\r\\n` line, an admission carries none.
"""
from __future__ import annotations

import asyncio
import itertools
import json
import random
from fractions import Fraction as F

from .. import core
from ..core import Family

ID = "C10"
READY = True
LEAN_TARGETS = ["NauyacaVerif.Props.C10", "NauyacaVerif.Props.Tr.Consume"]
THEOREMS = [f"NauyacaVerif.C10.{t}" for t in (
    "bucket_inv", "obs_is_run", "private_bucket", "window_bound", "window_bound_length", "refuse_only_empty",
    "noninterference", "cleanup_refines", "cleanup_keeps_allowance",
    "age_tie", "period_tie", "evict_tie", "atomic_tie", "line_tie")] + ['NauyacaVerif.Translated.consume_eq', 'NauyacaVerif.Translated.consume_frame']
TRANSLATED = ['consume']
# the filter of the comprehension in RateLimiter._cleanup_loop (which buckets a pass removes), translated and proved to be Mw.cleanup's predicate
LEAN_TARGETS = LEAN_TARGETS + ["NauyacaVerif.Props.Tr.Evictable"]
TRANSLATED = TRANSLATED + ["evictable"]
THEOREMS = list(THEOREMS) + [f"NauyacaVerif.Translated.{t}" for t in ("evictable_eq", "cleanup_is_filter", "evictable_full")]
# RateLimiter.process_request itself (get-or-create in a dictionary of mutable objects, one consume() on that address's bucket, the 44 line)
LEAN_TARGETS = LEAN_TARGETS + ["NauyacaVerif.Props.Tr.LimiterRequest"]
TRANSLATED = TRANSLATED + ["limiterRequest", "bucketInit"]
THEOREMS = THEOREMS + [f"NauyacaVerif.Translated.{t}" for t in ("limiter_request_shape", "consumeAt_spec", "limiter_request_eq", "bucket_init_eq", "pyPut_is_init")]
EXTRACT = ["cleanupPeriod", "cleanupAge", "evictOnlyRefilled", "limiterAtomic"]
EXTRACT_EXPECT = {"evictOnlyRefilled": True, "limiterAtomic": True}
ASSUMPTIONS = [
    "0 <= refill_rate and 0 <= capacity (hypotheses of the theorems); retry_after is an integer",
    "time.monotonic never goes backwards (histories are time-ordered); wall-clock jumps (time.time) are not modelled — the limiter reads time.monotonic only, which the harness checks by substituting the module's clock",
    "Python float arithmetic is modelled by Rat; the correspondence is restricted to a 1/8 s time grid and dyadic refill rates on which the two coincide exactly; rounding off that grid is not modelled (partial)",
    "concurrency: TokenBucket.consume and RateLimiter.process_request contain no await (extraction item limiterAtomic), so concurrent calls are serialised by the event loop; batches launched with asyncio.gather are additionally compared",
    "family crowd: bursts are placed in a chosen event-loop iteration after a clean-up wake-up became due (before, during or after the pass) and around crowds of 3 .. 16400 (quick) / 262200 (thorough) other distinct addresses; the model line of that family is built from the OBSERVED order of passes and requests (histories up to 5000 events), the direct oracle does not use it",
    "clean-up passes run at start + k * 300 s (extraction item cleanupPeriod); the theorems hold for passes at arbitrary times",
]
LEVEL_TEXT = (
    "Lean 4 theorems over the executable model of TokenBucket/RateLimiter (Rat arithmetic) for every capacity >= 0, refill rate >= 0 and every time-ordered history "
    "of requests from any number of addresses interleaved with clean-up passes at arbitrary times (no length bound): window_bound (admitted requests of one address at times "
    "within any [x, y] <= capacity + rate*(y-x)), bucket_inv, private_bucket (the limiter shows an address exactly one private token bucket), refuse_only_empty (refusal iff allowance < 1, "
    "with the extracted 44 line and the configured retry hint), noninterference, cleanup_refines / cleanup_keeps_allowance (clean-up never changes anybody's allowance). "
    "Partial: float rounding off the dyadic grid, time.time()/clock jumps and real task scheduling are not modelled; the model is tied to the code by the correspondence "
    "(real RateLimiter + its real clean-up task under a virtual clock, exhaustive small scope, long random histories across many clean-up periods, asyncio.gather batches, TOML->CLI->chain wiring) "
    "and by extraction (300/600 s literals, evict-only-refilled, no await in consume/process_request, the 44 f-string)."
)
LEVEL_NOTE = (
    "Trusted: Lean kernel; axioms propext/Classical.choice/Quot.sound; the hand-written model Mw/Bucket.lean tied to /repo by this check's differential correspondence and extraction; "
    "the virtual-clock loop and time shim of harness/sim/mw_clock.py; Python floats are exact only on the generated grid."
)
TECHNIQUE = "Lean 4 machine-checked proof over a hand-written model + differential correspondence (virtual clock, real clean-up task) + independent sliding-window / allowance / non-interference oracles in exact arithmetic"


def extract_extra():
    from ..sim import mw_extract

    mw_extract.regenerate()


# ----------------------------------------------------------------------------
# peer address TEXTS used as the limiter's key, chosen per case (`ipset`): the kernel reports one text per peer, but not
# always the canonical one (an IPv4 client on a dual-stack listener is "::ffff:a.b.c.d"; zone ids; other spellings)
IPSETS = [
    {1: "10.0.0.1", 2: "10.0.0.2", 3: "2001:db8::3", 4: "unknown", 5: "10.0.0.5", 6: "10.0.0.6"},
    {1: "::ffff:10.0.0.1", 2: "::ffff:192.0.2.7", 3: "::ffff:a00:3", 4: "::FFFF:10.0.0.4"},
    {1: "2001:DB8:0:0:0:0:0:1", 2: "2001:0db8:0000:0000:0000:0000:0000:0002", 3: "fe80::3%eth0", 4: "0:0:0:0:0:0:0:1"},
]
IPS = IPSETS[0]


def ip_text(case, idx):
    return IPSETS[case.get("ipset", 0) % len(IPSETS)].get(idx, f"10.9.9.{idx}")

URLS = ["gemini://h/", "gemini://h/a", "gemini://other/b?q", "titan://h/up;size=3"]
FPS = [None, "ab" * 32, None]


def batches_of(case):
    """[(t8, [request index...])]: with `gather`, consecutive events at the same time form one batch"""
    out = []
    for k, (ip, t8) in enumerate(case["evs"]):
        if case.get("gather") and out and out[-1][0] == t8:
            out[-1][1].append(k)
        else:
            out.append((t8, [k]))
    return out


def planned_trace(case, period8):
    """events in the order the harness makes them happen: clean-up passes at k*period — before the requests of the
    same instant, unless `tie` (then after the first batch of that instant: right away when that batch was a gather,
    which yields to the loop, otherwise once the clock moves on) — and requests in history order"""
    tr, due = [], period8
    cleanup, tie = case.get("cleanup", True), bool(case.get("tie"))
    for t8, idxs in batches_of(case):
        while cleanup and (due < t8 or (due == t8 and not tie)):
            tr.append(("c", due))
            due += period8
        for k in idxs:
            tr.append(("r", case["evs"][k][0], t8))
        if cleanup and tie and due == t8 and len(idxs) > 1:
            tr.append(("c", due))
            due += period8
    return tr


def rat(num, den=1):
    f = F(num, den)
    return f"{f.numerator}/{f.denominator}" if f.denominator != 1 else str(f.numerator)


def is_44(line, retry) -> bool:
    import re

    return isinstance(line, str) and line.startswith("44 ") and line.endswith("\r\n") and "\r" not in line[:-2] and "\n" not in line[:-2] \
        and str(retry) in re.findall(r"-?\d+", line[3:])   # the configured hint as a whole number, not as a substring


def limiter_oracle(case, obs):
    """the property statement on an observation {dec, lines[, solo]} of the history case["evs"] under the CONFIGURED
    capacity / refill rate / retry hint of `case`"""
    cap, rate, retry = case["cap"], F(*case["rate"]), case["retry"]
    dec = obs["dec"]
    if len(dec) != len(case["evs"]):
        return ("shape", f"{len(dec)} decisions for {len(case['evs'])} requests")
    per: dict = {}
    for (ip, t8), d in zip(case["evs"], dec):
        per.setdefault(ip, []).append((F(t8, 8), d == "1"))
    for ip, hist in per.items():
        # sliding window over the admitted list: max over i<=j of (j-i+1) - rate*(t_j-t_i) <= cap
        best = None  # min over admitted i of (i - rate*t_i)
        first_of_best = None
        k = 0
        for t, ok in hist:
            if not ok:
                continue
            v = k - rate * t
            if best is None or v < best:
                best, first_of_best = v, (k, t)
            if (k - rate * t) - best + 1 > cap:
                i0, t_i = first_of_best
                return ("window", f"address {ip}: {k - i0 + 1} requests admitted between t={float(t_i)} and t={float(t)} s; capacity {cap} + rate {rate} x {float(t - t_i)} s allows {float(cap + rate * (t - t_i))}")
            k += 1
        # allowance accounting without clean-up
        allowance, last = None, None
        for n, (t, ok) in enumerate(hist):
            allowance = F(cap) if allowance is None else min(F(cap), allowance + (t - last) * rate)
            last = t
            if ok and allowance < 1:
                return ("admit-exhausted", f"address {ip}: request #{n} at t={float(t)} s admitted with allowance {float(allowance)} < 1 (capacity {cap}, rate {rate}/s)")
            if not ok and allowance >= 1:
                return ("refuse-with-allowance", f"address {ip}: request #{n} at t={float(t)} s refused although its allowance is {float(allowance)} >= 1 (capacity {cap}, rate {rate}/s)")
            if ok:
                allowance -= 1
    if "solo" in obs:
        a, d2 = obs["solo"]
        mine = "".join(d for (ip, _), d in zip(case["evs"], dec) if ip == a)
        if mine != d2:
            return ("interference", f"address {a}: decisions {mine} within the full history but {d2} when its own requests are replayed alone")
    for l in obs["lines"]:
        if not is_44(l, retry):
            return ("bad-44-line", f"refusal/admission response {l!r} (retry_after={retry})")
    if "0" in dec and not obs["lines"]:
        return ("bad-44-line", "a refusal carried no response line")
    return None


class _Limiter(Family):
    period = 300
    age = 600

    def setup(self):
        from .. import extract
        from ..sim import mw_clock

        self.clock = mw_clock
        items, _ = extract.extract()
        self.period = items.get("cleanupPeriod") or 300
        self.age = items.get("cleanupAge") or 600
        self.loop = mw_clock.VLoop()

    # -- real code ----------------------------------------------------------------------------
    def run_real(self, case, evs, cleanup=True):
        loop = self.loop
        rate = case["rate"][0] / case["rate"][1]
        sub = dict(case)
        sub["evs"] = evs
        batches = [(t8, [(ip_text(case, evs[k][0]), URLS[k % len(URLS)], FPS[k % len(FPS)]) for k in idxs]) for t8, idxs in batches_of(sub)]
        with self.clock.patched_time(lambda: loop.vt):
            return loop.run_until_complete(self.clock.run_history(loop, case["cap"], rate, case["retry"], case.get("t0", 0), batches,
                                                                  bool(case.get("tie")), start_cleanup=cleanup))

    def impl(self, case):
        dec, lines, cleanups, _ = self.run_real(case, case["evs"], case.get("cleanup", True))
        obs = {"dec": "".join("1" if d else "0" for d in dec), "lines": sorted({l if isinstance(l, str) else repr(l) for l in lines}),
               "cleanups": cleanups}
        # non-interference probe: one address's own requests alone, fresh limiter
        ips = sorted({ip for ip, _ in case["evs"]})
        if len(ips) > 1:
            a = ips[case.get("solo", 0) % len(ips)]
            own = [e for e in case["evs"] if e[0] == a]
            d2, _, _, _ = self.run_real(case, own, case.get("cleanup", True))
            obs["solo"] = [a, "".join("1" if d else "0" for d in d2)]
        return obs

    # -- model --------------------------------------------------------------------------------
    def model(self, case):
        p8 = self.period * 8
        evs = " ".join(f"c@{rat(e[1], 8)}" if e[0] == "c" else f"{e[1]}@{rat(e[2], 8)}" for e in planned_trace(case, p8))
        return f"bucket {case['cap']} {rat(*case['rate'])} {self.age} {case['retry']} {evs}"

    def expect(self, case, out):
        assert out.startswith("ok "), out
        w = out.split(" ")
        dec = w[1] if case["evs"] else ""
        line = core.uncps(w[-1])
        return {"dec": dec, "lines": [line] if "0" in dec else [],
                "cleanups": [e[1] for e in planned_trace(case, self.period * 8) if e[0] == "c"]}

    def same(self, expected, obs):
        return all(expected[k] == obs[k] for k in ("dec", "lines", "cleanups"))

    # -- direct oracle ------------------------------------------------------------------------
    def oracle(self, case, obs):
        v = limiter_oracle(case, obs)
        if v and case.get("ipset"):
            texts = IPSETS[case["ipset"] % len(IPSETS)]
            return (v[0], v[1] + f" [peer address texts: {', '.join(f'{k}={t!r}' for k, t in texts.items())}]")
        return v

    def key(self, case, obs):
        cap, rate = case["cap"], F(*case["rate"])
        slow = rate == 0 or F(cap) / rate > self.age
        # the class in which eviction can matter: slow refill and one address idle beyond the eviction age
        last, idle = {}, False
        for ip, t8 in case["evs"]:
            if ip in last and t8 - last[ip] > self.age * 8:
                idle = True
            last[ip] = t8
        kind = ("slow+idle>age" if idle else "slow") if slow else ("fast+idle>age" if idle else "fast")
        d = obs["dec"]
        ln = len(case["evs"])
        size = "len<=8" if ln <= 8 else "len<=50" if ln <= 50 else "len<=200" if ln <= 200 else "len>200"
        return f"{kind}:{size}:{'refusals' if '0' in d else 'no-refusal'}"


class Small(_Limiter):
    """exhaustive small scope: capacity 1 and 2, every gap sequence over {0, 1, 2, 3} s at rate 1/2
    (tokens move in halves), one address up to length 6 (quick) / 8 (thorough), two addresses up to length 4 / 5"""

    name = "small"
    quick_n = 20000
    thorough_n = 250000
    parallel = False
    GAPS = (0, 8, 16, 24)

    def gen(self, rng, n):
        big = n >= 200000
        l1, l2 = (8, 5) if big else (6, 4)
        for cap in (1, 2):
            for ln in range(1, l1 + 1):
                for gaps in itertools.product(self.GAPS, repeat=ln):
                    t, evs = 0, []
                    for g in gaps:
                        t += g
                        evs.append([1, t])
                    yield {"cap": cap, "rate": [1, 2], "retry": 30, "evs": evs, "ipset": (len(evs) + t // 8) % len(IPSETS)}
            for ln in range(2, l2 + 1):
                for gaps in itertools.product(self.GAPS, repeat=ln):
                    for who in itertools.product((1, 2), repeat=ln):
                        if who[0] != 1 or 2 not in who:
                            continue  # symmetric / single-address duplicates
                        t, evs = 0, []
                        for g, a in zip(gaps, who):
                            t += g
                            evs.append([a, t])
                        yield {"cap": cap, "rate": [1, 2], "retry": 30, "evs": evs, "gather": (ln + t) % 2 == 0, "ipset": (ln + t // 8) % len(IPSETS)}


RATES = [(1, 1024), (1, 256), (1, 128), (1, 16), (1, 8), (1, 4), (1, 2), (1, 1), (2, 1), (4, 1), (3, 8), (5, 2)]
CAPS = [1, 1, 2, 2, 3, 5, 10]


class History(_Limiter):
    """random histories: several addresses, bursts, slow refills (capacity / rate beyond the eviction age),
    idle gaps around the clean-up period and the eviction age, spanning several clean-up periods"""

    name = "history"
    quick_n = 12000
    thorough_n = 120000

    def gap_menu(self, cap, rate):
        one = F(8) / rate           # 1/8-s units to refill one token
        full = F(8 * cap) / rate    # … to refill from empty
        p8, a8 = self.period * 8, self.age * 8
        menu = [0, 0, 0, 1, 2, 4, 8, 16, 40, 300, 1200, p8 - 8, p8, p8 + 8, p8 * 3 // 2, a8 - 8, a8, a8 + 1, a8 + 8, a8 + 400, 2 * a8, 5 * p8 + 3]
        for x in (one, full):
            if x.denominator == 1 and x < 400000:
                menu += [int(x) - 1 if x > 1 else 0, int(x), int(x) + 1]
        return menu

    def gen(self, rng, n):
        # fixed witnesses first: drained slow bucket, idle beyond the eviction age, clean-up pass in between
        yield {"cap": 1, "rate": [1, 1024], "retry": 30, "evs": [[1, 0], [1, 901 * 8]]}
        yield {"cap": 2, "rate": [1, 512], "retry": 7, "evs": [[1, 0], [1, 0], [2, 8], [1, 700 * 8], [1, 700 * 8 + 1]], "tie": True}
        yield {"cap": 10, "rate": [1, 128], "retry": 30, "evs": [[3, 0]] * 10 + [[3, 1201 * 8]] * 10 + [[3, 1281 * 8]], "gather": True}
        for k in range(n - 3):
            cap = rng.choice(CAPS)
            num, den = rng.choice(RATES)
            if rng.random() < 0.35:  # force a slow refill: capacity / rate beyond the eviction age
                num, den = rng.choice([(1, 1024), (1, 256), (1, 128)])
                cap = max(cap, rng.choice([1, 3, 5, 10])) if den < 1024 else cap
            rate = F(num, den)
            menu = self.gap_menu(cap, rate)
            profile = rng.choice(("mixed", "mixed", "burst", "drain-idle", "steady", "dense"))
            long_run = rng.random() < (0.04 if n >= 5000 else 0.0)  # thorough tier (per-shard n = 7500): up to 5000 events
            ln = rng.randint(200, 5000) if long_run else rng.choice((rng.randint(1, 12), rng.randint(5, 60), rng.randint(40, 200)))
            nips = rng.choice((1, 2, 2, 3, 4))
            t, evs = 0, []
            while len(evs) < ln:
                if profile == "dense":  # never idle for long: the window bound under sustained load
                    one = 8 * den // num if (8 * den) % num == 0 and 8 * den // num <= 512 else 8
                    g = rng.choice((0, 0, 1, 2, 4, 8, 16, one, one - 1 if one > 1 else 0, one + 1))
                elif profile == "burst":
                    g = rng.choice((0, 0, 0, 0, 1, rng.choice(menu)))
                elif profile == "steady":
                    g = rng.choice((8 * den // num if (8 * den) % num == 0 else 8, 8, 16, rng.choice(menu)))
                elif profile == "drain-idle":
                    # a burst that drains the bucket, then an idle gap around the eviction age, then a probe burst
                    a = rng.randint(1, nips)
                    for _ in range(rng.randint(cap, cap + 2)):
                        evs.append([a, t])
                    g = rng.choice((self.age * 8 + 1, self.age * 8 + 8, self.age * 8 + rng.randint(1, 6000), self.period * 8 * rng.randint(1, 5) + rng.randint(-8, 8)))
                    t += g
                    evs.append([a, t])
                    g = rng.choice(menu)
                else:
                    g = rng.choice(menu)
                t += max(0, g)
                evs.append([rng.randint(1, nips) if rng.random() < 0.8 else 1, t])
            evs = evs[:ln]
            case = {"cap": cap, "rate": [num, den], "retry": rng.choice((30, 30, 1, 0, 600, 86400)), "evs": evs}
            if rng.random() < 0.3:
                case["gather"] = True
            if rng.random() < 0.3:
                case["tie"] = True
            if rng.random() < 0.3:
                case["t0"] = rng.choice((8, 1000 * 8 + 1, 123456 * 8 + 5))
            if rng.random() < 0.05:
                case["cleanup"] = False
            case["solo"] = rng.randint(0, 3)
            case["ipset"] = rng.randrange(len(IPSETS))
            yield case


# ----------------------------------------------------------------------------
class Wiring(Family):
    """[rate_limit] of a TOML file -> `nauyaca serve --config` -> chain and protocol: the limiter in the chain has the
    WRITTEN capacity / refill_rate / retry_after (zero and other boundary values included; an absent key means the
    documented default 10 / 1.0 / 30), its clean-up task is started, and a short history of requests from a few
    addresses under the virtual clock is decided like the model decides it for the written values, both when the chain
    is asked directly and on the wire (status 44).  The direct oracle is the limiter oracle under the written values."""

    name = "wiring"
    quick_n = 1200
    thorough_n = 16000

    def setup(self):
        from ..sim import mw_clock, mw_wiring

        self.W, self.clock = mw_wiring, mw_clock
        self.capture = mw_wiring.Capture()

    FIXED = [
        {"enabled": None, "cap": None, "rate": None, "retry": None, "evs": [[1, 0]] * 12 + [[2, 0]]},
        {"enabled": False, "cap": 1, "rate": [1, 8], "retry": 5, "evs": [[1, 0], [1, 0], [1, 0]]},
        # zero is a value, not "unset": a fixed quota that never refills, a limiter that admits nobody, a zero hint
        {"enabled": True, "cap": 2, "rate": [0, 1], "retry": 30, "evs": [[1, 0], [1, 0], [1, 0], [1, 80], [1, 8000], [2, 8000]]},
        {"enabled": None, "cap": 0, "rate": [1, 1], "retry": 7, "evs": [[1, 0], [2, 8], [1, 800]]},
        {"enabled": None, "cap": 1, "rate": [1, 8], "retry": 0, "evs": [[1, 0], [1, 0], [1, 63], [1, 64]], "ipset": 1},
        {"enabled": True, "cap": 0, "rate": [0, 1], "retry": 0, "evs": [[1, 0], [1, 8000]], "float_rate": True},
    ]

    def gen(self, rng, n):
        k = 0
        for c in self.share(self.FIXED):
            k += 1
            yield dict(c)
        while k < n:
            k += 1
            cap = rng.choice((None, 0, 1, 1, 2, 3, 5, 10))
            rate = rng.choice((None, [0, 1], [0, 1], [1, 8], [1, 1024], [1, 2], [1, 1], [2, 1]))
            eff_cap = 10 if cap is None else cap
            one = 8 if rate is None else (8 * rate[1] // rate[0] if rate[0] and (8 * rate[1]) % rate[0] == 0 else 8)
            t, evs = 0, []
            for _ in range(rng.randint(1, eff_cap + 5)):
                t += rng.choice((0, 0, 0, 1, 8, one - 1 if one > 1 else 0, one, 16, 80, 2400))
                evs.append([rng.choice((1, 1, 1, 2)), t])
            r = rng.random()
            yield {"enabled": None if r < 0.5 else True if r < 0.9 else False, "cap": cap, "rate": rate,
                   "retry": rng.choice((None, 30, 1, 0, 0, 600)), "evs": evs, "float_rate": rng.random() < 0.5,
                   "ipset": rng.randrange(len(IPSETS))}

    def eff(self, case):
        """the configured values: what is written, the documented default where the key is absent"""
        return (10 if case["cap"] is None else case["cap"], [1, 1] if case["rate"] is None else case["rate"], 30 if case["retry"] is None else case["retry"])

    def written(self, case):
        c, r, retry = self.eff(case)
        return {"cap": c, "rate": r, "retry": retry, "evs": case["evs"]}

    def toml_text(self, case):
        lines = ["[rate_limit]"]
        if case["enabled"] is not None:
            lines.append(f"enabled = {self.W.toml_value(case['enabled'])}")
        if case["cap"] is not None:
            lines.append(f"capacity = {case['cap']}")
        if case["rate"] is not None:
            v = case["rate"][0] / case["rate"][1]
            lines.append(f"refill_rate = {int(v) if v == int(v) and not case.get('float_rate') else repr(float(v))}")
        if case["retry"] is not None:
            lines.append(f"retry_after = {case['retry']}")
        return "\n".join(lines) + "\n"

    def impl(self, case):
        cap: dict = {}
        now = [1000.0]

        async def probe(factory):
            proto = factory()
            chain = getattr(proto, "middleware", None)
            mws = list(getattr(chain, "middlewares", [])) if chain is not None else []
            rls = [m for m in mws if type(m).__name__ == "RateLimiter"]
            cap["component"] = len(rls)
            if rls:
                rl = rls[0]
                cap["config"] = [rl.config.capacity, float(rl.config.refill_rate), rl.config.retry_after]
                cap["cleanup_started"] = rl._cleanup_task is not None and not rl._cleanup_task.done()
            res = []
            for k, (a, t8) in enumerate(case["evs"]):
                now[0] = 1000.0 + t8 / 8
                if k % 2 == 0 and chain is not None:
                    ok, line = await chain.process_request(URLS[k % 3], ip_text(case, a), None)
                    res.append([True] if ok else [False, line])
                else:
                    st = await self.W.wire_status(factory, ip_text(case, a))
                    res.append([True] if st != "44" else [False, "wire44"])
            cap["res"] = res

        with self.clock.patched_time(lambda: now[0]):
            started, out = self.capture.run(self.toml_text(case), probe)
        if not started:
            return {"start": "failed", "out": out[-200:]}
        return {"start": "ok", "component": cap["component"], "config": cap.get("config"), "cleanup_started": cap.get("cleanup_started"),
                "dec": "".join("1" if r[0] else "0" for r in cap["res"]),
                "lines": sorted({r[1] for r in cap["res"] if not r[0] and r[1] != "wire44"})}

    def model(self, case):
        if case["enabled"] is False:
            return None
        c, r, retry = self.eff(case)
        return f"bucket {c} {rat(*r)} 600 {retry} " + " ".join(f"{a}@{rat(8000 + t8, 8)}" for a, t8 in case["evs"])

    def expect(self, case, out):
        assert out.startswith("ok "), out
        w = out.split(" ")
        c, r, retry = self.eff(case)
        refused_on_chain = any(d == "0" and k % 2 == 0 for k, d in enumerate(w[1]))
        return {"start": "ok", "component": 1, "config": [c, r[0] / r[1], retry], "cleanup_started": True, "dec": w[1],
                "lines": [core.uncps(w[-1])] if refused_on_chain else []}

    def oracle(self, case, obs):
        if obs["start"] != "ok":
            return ("no-start", f"a valid [rate_limit] table prevented start-up: {obs.get('out')}")
        if case["enabled"] is False:
            if "0" in obs["dec"]:
                return ("limited-while-disabled", f"rate limiting disabled but decisions {obs['dec']}")
            return None
        w = self.written(case)
        o = {"dec": obs["dec"], "lines": obs["lines"] or (["wire44"] if "0" in obs["dec"] else [])}
        if o["lines"] == ["wire44"]:
            o["lines"] = [f"44 (on the wire) {w['retry']}\r\n"]   # refusals seen only as status 44 on the wire carry no line to inspect
        v = limiter_oracle(w, o)
        if v:
            return (v[0], f"[rate_limit] as written: capacity={w['cap']} refill_rate={F(*w['rate'])} retry_after={w['retry']} ({self.toml_text(case).strip()!r}): {v[1]}")
        return None

    def key(self, case, obs):
        en = case["enabled"]
        d = obs.get("dec", "")
        z = "+".join(n for n, v in (("cap0", case["cap"] == 0), ("rate0", case["rate"] is not None and case["rate"][0] == 0), ("retry0", case["retry"] == 0)) if v) or "nonzero"
        dflt = "some-key-absent" if None in (case["cap"], case["rate"], case["retry"]) else "all-written"
        return f"{'off' if en is False else 'on'}:{z}:{dflt}:" \
               f"{'mixed' if '0' in d and '1' in d else 'all-admit' if '1' in d else 'all-refuse'}"


class Component(Family):
    """the limiter as the ONE middleware object of a protocol (`GeminiServerProtocol(handler, middleware=...)` takes any object
    with `process_request`: a chain, or a single component such as a bare `RateLimiter`): a short history of requests on the
    wire from a few addresses under the virtual clock is decided as the model decides it for the configured values, whether
    the limiter is wrapped in a `MiddlewareChain` or handed over as it is.  The direct oracle is the limiter oracle."""

    name = "component"
    quick_n = 240
    thorough_n = 4000

    def setup(self):
        from ..sim import mw_clock, mw_wiring

        self.W, self.clock = mw_wiring, mw_clock

    def gen(self, rng, n):
        for k in range(n):
            cap = rng.choice((0, 1, 1, 2, 3, 5))
            rate = rng.choice(([0, 1], [1, 8], [1, 1024], [1, 2], [1, 1], [2, 1]))
            one = 8 * rate[1] // rate[0] if rate[0] and (8 * rate[1]) % rate[0] == 0 else 8
            t, evs = 0, []
            for _ in range(rng.randint(1, cap + 5)):
                t += rng.choice((0, 0, 0, 1, 8, one - 1 if one > 1 else 0, one, 16, 80, 2400))
                evs.append([rng.choice((1, 1, 1, 2)), t])
            yield {"cap": cap, "rate": rate, "retry": rng.choice((30, 1, 0, 600)), "evs": evs, "wrap": k % 2 == 1, "ipset": rng.randrange(len(IPSETS))}

    def impl(self, case):
        from nauyaca.protocol.response import GeminiResponse
        from nauyaca.server.middleware import MiddlewareChain, RateLimitConfig, RateLimiter
        from nauyaca.server.protocol import GeminiServerProtocol

        now = [1000.0]
        res = []

        async def run():
            rl = RateLimiter(RateLimitConfig(capacity=case["cap"], refill_rate=case["rate"][0] / case["rate"][1], retry_after=case["retry"]))
            mw = MiddlewareChain([rl]) if case["wrap"] else rl

            def factory():
                return GeminiServerProtocol(lambda req: GeminiResponse(status=20, meta="text/gemini", body="ok"), middleware=mw)

            for a, t8 in case["evs"]:
                now[0] = 1000.0 + t8 / 8
                res.append(await self.W.wire_status(factory, ip_text(case, a)))

        with self.clock.patched_time(lambda: now[0]):
            loop = asyncio.new_event_loop()
            try:
                loop.run_until_complete(run())
            finally:
                loop.close()
        return {"dec": "".join("0" if st == "44" else "1" for st in res), "status": sorted(set(res))}

    def model(self, case):
        return f"bucket {case['cap']} {rat(*case['rate'])} 600 {case['retry']} " + " ".join(f"{a}@{rat(8000 + t8, 8)}" for a, t8 in case["evs"])

    def expect(self, case, out):
        assert out.startswith("ok "), out
        return {"dec": out.split(" ")[1]}

    def same(self, expected, obs):
        return expected["dec"] == obs["dec"]

    def oracle(self, case, obs):
        if any(st not in ("20", "44") for st in obs["status"]):
            return ("odd-status", f"a request through the limiter alone was answered with status {obs['status']}")
        o = {"dec": obs["dec"], "lines": [f"44 (on the wire) {case['retry']}\r\n"] if "0" in obs["dec"] else []}
        v = limiter_oracle(case, o)
        if v:
            how = "inside a MiddlewareChain" if case["wrap"] else "handed to the protocol as its middleware object, not wrapped in a chain"
            return (v[0], f"RateLimiter(capacity={case['cap']}, refill_rate={F(*case['rate'])}) {how}: {v[1]}")
        return None

    def key(self, case, obs):
        d = obs["dec"]
        return f"{'chain' if case['wrap'] else 'bare'}:cap{min(case['cap'], 2)}:{'mixed' if '0' in d and '1' in d else 'all-admit' if '1' in d else 'all-refuse'}"


# ----------------------------------------------------------------------------
CROWDS = [3, 40, 130, 520, 1030, 2100, 4100, 10010, 16400]
CROWDS_THOROUGH = [33000, 65600, 100010, 262200]
YIELDS = (0, 0, 1, 2, 3, 3, 4, 5, 6, 9, 14, 20, 40)


class Crowd(_Limiter):
    """big tables and scheduling: an address's bursts around a CROWD of other distinct addresses (tens to tens of
    thousands, one request each - whatever bounds, batches or caches the table has are crossed), and bursts that arrive
    in a chosen event-loop iteration after a clean-up wake-up became due (before, in the middle of, or after the pass).
    Direct oracle: the limiter oracle (window bound, allowance accounting, own history replayed alone) for the small
    addresses; every crowd member's single request is decided by the configured capacity alone.  The model line is
    built from the observed order of passes and requests (histories up to 5000 events)."""

    name = "crowd"
    quick_n = 1200
    thorough_n = 6000
    model_from_obs = True

    FIXED = [
        # drained, then a crowd, then back at once
        {"cap": 2, "rate": [1, 1024], "retry": 30, "steps": [["t", 0], ["r", 1], ["r", 1], ["r", 1], ["t", 8], ["crowd", 1000, 10010], ["t", 16], ["r", 1], ["r", 1], ["r", 1]]},
        # refilled and idle beyond the eviction age, a burst in the middle of the pass, another one right after it
        {"cap": 2, "rate": [1, 8], "retry": 30, "steps": [["t", 0], ["r", 1], ["crowd", 1000, 1030], ["t", 7200], ["y", 3], ["g", [1, 1, 1]], ["y", 6], ["g", [1, 1, 1]]]},
        {"cap": 1, "rate": [1, 2], "retry": 7, "steps": [["t", 0], ["crowd", 1000, 2100], ["r", 1], ["r", 2], ["t", 7200], ["y", 2], ["r", 1], ["y", 1], ["r", 1], ["y", 1], ["r", 1], ["r", 2], ["y", 9], ["r", 1], ["r", 2]]},
    ]

    def gen(self, rng, n):
        k = 0
        for c in self.share(self.FIXED):
            k += 1
            yield c
        crowds = CROWDS + (CROWDS_THOROUGH if n >= 300 else [])   # per-shard n: 150 in the quick tier, 375 in the thorough tier
        p8, a8 = self.period * 8, self.age * 8
        while k < n:
            k += 1
            cap = rng.choice((1, 1, 2, 3, 5, 10))
            num, den = rng.choice(RATES)
            one = 8 * den // num if (8 * den) % num == 0 else 8
            profile = rng.choice(("pressure", "sweep", "sweep", "mixed"))
            steps, t, nxt = [["t", 0]], 0, [1000]

            def burst(a, b):
                if rng.random() < 0.4:
                    steps.append(["g", [a] * b])
                else:
                    steps.extend(["r", a] for _ in range(b))

            def crowd():
                m = rng.choice(crowds)
                steps.append(["crowd", nxt[0], m])
                nxt[0] += m

            if profile == "pressure":
                burst(1, cap + rng.choice((0, 0, 1, 2)))
                if rng.random() < 0.3:
                    burst(2, rng.randint(1, cap + 1))
                for _ in range(rng.choice((1, 1, 2))):
                    t += rng.choice((0, 0, 1, 8, 80))
                    steps.append(["t", t])
                    crowd()
                t += rng.choice((0, 0, 1, 8, one - 1 if one > 1 else 0, one, 2 * one))
                steps.append(["t", t])
                burst(1, cap + 1)
                if rng.random() < 0.5:
                    burst(2, cap + 1)
            elif profile == "sweep":
                order = ["b1", "crowd"] + (["b2"] if rng.random() < 0.4 else [])
                rng.shuffle(order)
                for o in order:
                    if o == "crowd":
                        crowd()
                    else:
                        burst(1 if o == "b1" else 2, rng.choice((1, cap, cap + 1)))
                    if rng.random() < 0.3:
                        t += rng.choice((1, 8, 80, 800))
                        steps.append(["t", t])
                # back when a clean-up wake-up is due (or a moment before / after), in a chosen loop iteration
                t = max(t + 1, p8 * rng.choice((1, 2, 3, 3, 3, 4, 5)) + rng.choice((0, 0, 0, 0, -1, 1, 8)))
                steps.append(["t", t])
                for _ in range(rng.choice((2, 2, 3, 4))):
                    y = rng.choice(YIELDS)
                    if y:
                        steps.append(["y", y])
                    burst(rng.choice((1, 1, 1, 2)), rng.choice((1, cap, cap + 1)))
                    if rng.random() < 0.2:
                        t += rng.choice((1, 8, one))
                        steps.append(["t", t])
            else:
                for _ in range(rng.randint(3, 14)):
                    q = rng.random()
                    if q < 0.35:
                        burst(rng.choice((1, 1, 2, 3)), rng.randint(1, cap + 1))
                    elif q < 0.5:
                        crowd()
                    elif q < 0.65:
                        steps.append(["y", rng.choice(YIELDS) or 1])
                    else:
                        t += rng.choice((0, 1, 8, one, 80, p8 - t % p8 if t % p8 else p8, p8 + 8, a8 + 8, rng.randint(1, 3 * p8)))
                        steps.append(["t", t])
            case = {"cap": cap, "rate": [num, den], "retry": rng.choice((30, 30, 1, 0, 600)), "steps": steps, "profile": profile}
            if rng.random() < 0.25:
                case["t0"] = rng.choice((8, 1000 * 8 + 1, 123456 * 8 + 5))
            case["solo"] = rng.randint(0, 2)
            yield case

    # -- real code ----------------------------------------------------------------------------
    def run_steps(self, case, steps):
        loop = self.loop
        rate = case["rate"][0] / case["rate"][1]
        with self.clock.patched_time(lambda: loop.vt):
            return loop.run_until_complete(self.clock.run_schedule(loop, case["cap"], rate, case["retry"], case.get("t0", 0), steps,
                                                                   lambda a: ip_text(case, a), start_cleanup=case.get("cleanup", True)))

    def impl(self, case):
        obs = self.run_steps(case, case["steps"])
        small = sorted(set(obs["who"]))
        if small:
            a = small[case.get("solo", 0) % len(small)]
            own = []
            for st in case["steps"]:
                if st[0] in ("t", "y"):
                    own.append(st)
                elif st[0] == "r" and st[1] == a:
                    own.append(st)
                elif st[0] == "g" and a in st[1]:
                    own.append(["g", [x for x in st[1] if x == a]])
            obs["solo"] = [a, self.run_steps(case, own)["dec"]]
        return obs

    # -- model (from the observed order of events) -------------------------------------------------
    @staticmethod
    def layout(case):
        """number of decisions each step contributes, in order"""
        return [(st[0], 1 if st[0] == "r" else len(st[1]) if st[0] == "g" else st[2]) for st in case["steps"] if st[0] in ("r", "g", "crowd")]

    def model_obs(self, case, obs):
        if not 0 < sum(k for _, k in self.layout(case)) <= 5000:
            return None
        evs = []
        for e in obs["trace"]:
            if e[0] == "c":
                evs.append(f"c@{rat(e[1], 8) if e[1] == int(e[1]) else rat(F(e[1]) / 8)}")
            elif e[0] == "r":
                evs.append(f"{e[1]}@{rat(e[2], 8)}")
            else:
                evs.extend(f"{i}@{rat(e[3], 8)}" for i in range(e[1], e[1] + e[2]))
        return f"bucket {case['cap']} {rat(*case['rate'])} {self.age} {case['retry']} " + " ".join(evs)

    def expect(self, case, out):
        assert out.startswith("ok "), out
        w = out.split(" ")
        lay = self.layout(case)
        full = w[1] if lay else ""
        dec, crowd, pos = "", [], 0
        for kind, k in lay:
            part = full[pos:pos + k]
            pos += k
            if kind == "crowd":
                crowd.append([part.count("1"), part.count("0")])
            else:
                dec += part
        return {"dec": dec, "crowd": crowd, "lines": [core.uncps(w[-1])] if "0" in full else []}

    def same(self, expected, obs):
        return all(expected[k] == obs[k] for k in ("dec", "crowd", "lines"))

    # -- direct oracle ------------------------------------------------------------------------
    def oracle(self, case, obs):
        cap = case["cap"]
        for st, (adm, ref) in zip([s for s in case["steps"] if s[0] == "crowd"], obs["crowd"]):
            if cap >= 1 and ref:
                return ("refuse-with-allowance", f"{ref} of {st[2]} addresses that had never sent a request were refused on their first request (capacity {cap})")
            if cap < 1 and adm:
                return ("admit-exhausted", f"{adm} of {st[2]} first requests admitted with capacity {cap}")
        hist = {"cap": cap, "rate": case["rate"], "retry": case["retry"], "evs": [[a, t] for a, t in zip(obs["who"], obs["times"])]}
        v = limiter_oracle(hist, {k: obs[k] for k in ("dec", "lines", "solo") if k in obs})
        if v:
            return (v[0], v[1] + f" [steps: {json.dumps(case['steps'])[:700]}; clean-up passes and requests in the order they happened: {json.dumps([e for e in obs['trace'] if e[0] != 'r' or e[1] == 1][:40])}]")
        return None

    def key(self, case, obs):
        big = max([s[2] for s in case["steps"] if s[0] == "crowd"] or [0])
        size = "crowd=0" if not big else "crowd<=1k" if big <= 1000 else "crowd<=10k" if big <= 10000 else "crowd<=100k" if big <= 100000 else "crowd>100k"
        due = any(s[0] == "t" and s[1] and s[1] % (self.period * 8) == 0 for s in case["steps"]) and any(s[0] == "y" for s in case["steps"])
        passes = sum(1 for e in obs["trace"] if e[0] == "c")
        return f"{case.get('profile', 'fixed')}:{size}:{'burst-at-due-wake-up' if due else 'plain'}:passes={min(passes, 3)}{'+' if passes > 3 else ''}:{'refusals' if '0' in obs['dec'] else 'no-refusal'}"

    def shrink(self, case, bad):
        cur, budget, changed = case, 40, True
        while changed and budget > 0:
            changed = False
            for i in range(len(cur["steps"])):
                cand = dict(cur, steps=cur["steps"][:i] + cur["steps"][i + 1:])
                budget -= 1
                if budget <= 0:
                    break
                try:
                    if cand["steps"] and bad(cand):
                        cur, changed = cand, True
                        break
                except Exception:  # noqa: BLE001
                    pass
        return cur


FAMILIES = [Small(), History(), Wiring(), Component(), Crowd()]
