import NauyacaVerif.Misc.TofuHist

/-! # C03  TOFU: a pinned host is never accepted with a different certificate

Model: `Misc.connect` mirrors the post-handshake part of `GeminiClient._get_single` / `upload`
(`get_peer_certificate` → refuse if unreadable → `TOFUDatabase.verify` → `CertificateChangedError` or
`trust` on first use); `Misc.stepOp` adds `trust / revoke / revoke_by_hostname / clear / import_toml`
(merge and replace, with and without a conflict callback).  A history is an arbitrary `List Op`; every
connection of every operation (single fetch, upload/delete, every hop of a redirect chain) appears as
one record in the flat log `(runOps s ops).2`.  Parameters: SHA-256 and X.509 parsing (a presented
certificate either reads as fingerprint `fp` or is `unreadable`), the TLS handshake, SQLite. -/

namespace NauyacaVerif.C03
open Misc

/-- accepted ⇔ the presented certificate reads as `fp` and (`fp` is the pin, or there is no pin) -/
theorem connect_accept_iff (s : Pins) (k : Key) (p : Presented) (pl : List Nat) (r : Nat) :
    (∃ x, (connect s k p pl r).2.1 = .accepted x) ↔ ∃ fp, p = .cert fp ∧ (s.get k = some fp ∨ s.get k = none) :=
  Misc.connect_accept_iff s k p pl r

/-- first connection to an unpinned host:port: accepted, and exactly what was presented becomes the pin -/
theorem connect_first_use (s : Pins) (k : Key) (fp : Fp) (pl : List Nat) (r : Nat) (h : s.get k = none) :
    (connect s k (.cert fp) pl r).2.1 = .accepted r ∧ (connect s k (.cert fp) pl r).1.get k = some fp :=
  Misc.connect_first_use s k fp pl r h

/-- pinned `a`, presented `b ≠ a`: certificate-changed error naming both, store untouched, nothing sent, no response -/
theorem connect_changed (s : Pins) (k : Key) (a b : Fp) (pl : List Nat) (r : Nat) (hp : s.get k = some a) (hne : a ≠ b) :
    (connect s k (.cert b) pl r).2.1 = .changed a b ∧ (connect s k (.cert b) pl r).1 = s ∧
    peerReceived (connect s k (.cert b) pl r).2.2 = [] ∧ Act.await ∉ (connect s k (.cert b) pl r).2.2 := by
  have h := Misc.connect_changed s k a b pl r hp hne
  refine ⟨h.1, h.2, ?_, ?_⟩
  · exact noSend_peer _ ((send_after_verify s k (.cert b) pl r none).2 (by rw [h.1]; intro x hx; cases hx))
  · simp [connect, hp, hne]

/-- unreadable certificate: refused, never treated as unpinned or trusted; store untouched -/
theorem connect_unreadable (s : Pins) (k : Key) (pl : List Nat) (r : Nat) :
    (connect s k .unreadable pl r).2.1 = .refused ∧ (connect s k .unreadable pl r).1 = s ∧
    peerReceived (connect s k .unreadable pl r).2.2 = [] :=
  ⟨rfl, rfl, rfl⟩

/-- pins of other host:port pairs are never influenced by a connection -/
theorem connect_frame (s : Pins) (k k' : Key) (p : Presented) (pl : List Nat) (r : Nat) (h : k ≠ k') :
    (connect s k p pl r).1.get k' = s.get k' := Misc.connect_frame s k k' p pl r h

/-- … nor by any other operation that does not name them (a replace-import and `clear` name every key) -/
theorem op_frame (s : Pins) (o : Op) (k : Key) (h : ¬ touches o k) : (stepOp s o).1.get k = s.get k :=
  stepOp_frame s o k h

/-- over ANY history (fetches, uploads, redirect chains, trust, revoke, revoke-by-host, clear, import
    merge/replace): every connection made satisfies the property statement — accepted only with the
    pinned certificate (or on first use, which pins it); changed ⇒ error naming both fingerprints, store
    untouched, nothing sent; unreadable ⇒ refused, store untouched -/
theorem history_sound (s : Pins) (ops : List Op) : ∀ r ∈ (runOps s ops).2, RecOK r := Misc.history_sound s ops

/-- the headline: along any history, an accepted connection to a key that was pinned at that moment
    presented exactly the pinned fingerprint -/
theorem history_pinned (s : Pins) (ops : List Op) (r : Rec) (hr : r ∈ (runOps s ops).2) (x : Nat)
    (hacc : r.out = .accepted x) (pin : Fp) (hpin : r.before.get r.k = some pin) : r.p = .cert pin :=
  recOK_pinned r (Misc.history_sound s ops r hr) x hacc pin hpin

/-- every hop of a redirect chain is a `connect` against the store the previous hop left, and a hop that
    is not accepted ends the chain -/
theorem redirect_every_hop (s : Pins) (hops : List Hop) :
    (∀ r ∈ (runChain s hops).2, FromConnect r ∧ RecOK r) ∧ Linked s (runChain s hops).2 (runChain s hops).1 ∧
    (∀ i r, (runChain s hops).2[i]? = some r → i + 1 < (runChain s hops).2.length → isAccepted r.out = true) := by
  refine ⟨fun r hr => ?_, runChain_linked s hops, fun i r => runChain_stops s hops i r⟩
  obtain ⟨s', h, rfl⟩ := runChain_from s hops r hr
  exact ⟨⟨s', h, rfl⟩, mkRec_ok s' h⟩

/-- the same through M-Redirect (`_get_with_redirects` threaded through the store): every connection
    made while following redirects is checked, and a response is only returned from an accepted hop -/
theorem redirect_follow_checked (srv : Cl.Url → Option Site) (max : Nat) (s : Pins) (u : Cl.Url) :
    (∀ r ∈ (followT srv max (max + 2) s u []).2.2, RecOK r) ∧
    (∀ resp, (followT srv max (max + 2) s u []).2.1 = .ok resp →
      ∃ r, (followT srv max (max + 2) s u []).2.2.getLast? = some r ∧ isAccepted r.out = true) :=
  ⟨followT_checked srv max _ s u [], fun resp h => followT_ok_last srv max _ s u [] resp h⟩

/-- with TOFU disabled no connection reads or writes the store and every presented certificate
    (even an unreadable one) is accepted -/
theorem tofu_off (s : Pins) (k : Key) (p : Presented) (pl : List Nat) (r : Nat) :
    (connectOff s k p pl r).1 = s ∧ (connectOff s k p pl r).2.1 = .accepted r ∧
    (∀ k' b, Act.verify k' b ∉ (connectOff s k p pl r).2.2) ∧ (∀ k' f, Act.trust k' f ∉ (connectOff s k p pl r).2.2) :=
  ⟨(Misc.tofu_off s k p pl r).1, (Misc.tofu_off s k p pl r).2.1, (Misc.tofu_off s k p pl r).2.2.2.1, (Misc.tofu_off s k p pl r).2.2.2.2⟩

/-- two first connections to one unpinned key that are shown different certificates — in whichever order
    they are serialised — never both succeed: the first pins its certificate, the second is a
    certificate-changed error naming both, and the pin stays the first one's.  (Assumption on the code:
    `verify` and `trust` of one connection are one uninterrupted step of the event loop; the harness
    checks this with overlapping calls and a slowed-down store.) -/
theorem first_use_race (s : Pins) (k : Key) (a b : Fp) (pl1 pl2 : List Nat) (r1 r2 : Nat) (h : s.get k = none) (hne : a ≠ b) :
    (connect s k (.cert a) pl1 r1).2.1 = .accepted r1 ∧
    (connect (connect s k (.cert a) pl1 r1).1 k (.cert b) pl2 r2).2.1 = .changed a b ∧
    (connect (connect s k (.cert a) pl1 r1).1 k (.cert b) pl2 r2).1.get k = some a := by
  have h1 := Misc.connect_first_use s k a pl1 r1 h
  have h2 := Misc.connect_changed (connect s k (.cert a) pl1 r1).1 k a b pl2 r2 h1.2 hne
  refine ⟨h1.1, h2.1, ?_⟩
  rw [h2.2]; exact h1.2

/-- import: a new key gets the imported pin; a conflicting entry without a callback changes nothing -/
theorem import_new (u : Bool) (s : Pins) (k : Key) (f : Fp) (h : s.get k = none) :
    (importEntry u s (k, f)).get k = some f := importEntry_new u s k f h
theorem import_conflict_skipped (s : Pins) (k : Key) (f old : Fp) (h : s.get k = some old) :
    importEntry false s (k, f) = s := importEntry_conflict_skip s k f old h

/-! non-vacuity: a history over two hosts mixing first use, a changed certificate, an import that
    replaces the pin, an upload, a redirect chain whose second hop presents the wrong certificate -/
def kA : Key := (0, 1965)
def kB : Key := (1, 1965)
def hop (k : Key) (p : Presented) : Hop := ⟨k, p, [7], 20⟩
def demo : List Op :=
  [.fetch (hop kA (.cert 1)), .fetch (hop kA (.cert 2)), .importToml false true [(kA, 2)], .upload (hop kA (.cert 2)),
   .chain [hop kA (.cert 2), hop kB (.cert 3), hop kA (.cert 2)], .revoke kB, .chain [hop kA (.cert 2), hop kB .unreadable]]

example : ((runOps [] demo).2.map (·.out)) =
    [.accepted 20, .changed 1 2, .accepted 20, .accepted 20, .accepted 20, .accepted 20, .accepted 20, .refused] := by decide
example : (runOps [] demo).1.get kA = some 2 ∧ (runOps [] demo).1.get kB = none := by decide
example : (connect [(kA, 1)] kA (.cert 2) [7] 20).2.1 = .changed 1 2 := by decide
end NauyacaVerif.C03
