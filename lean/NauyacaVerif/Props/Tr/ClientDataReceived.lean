import NauyacaVerif.Gen.Fn.ClientDataReceived
import NauyacaVerif.Gen.Fn.TitanClientDataReceived
import NauyacaVerif.Cl.ClientSeg
set_option linter.unusedSimpArgs false
set_option linter.unusedVariables false
/-!
The hand-written client model `Cl.onData` (M-Client) against the TRANSLATION of `GeminiClientProtocol.data_received`
(regenerated from the current source on every run).  An exception that escapes `data_received` (the header line is not
UTF-8) is what the model calls `crash`: asyncio aborts the transport and hands the exception to the caller.
-/
namespace NauyacaVerif.Translated
open NauyacaVerif.Gen.Fn Cl

/-- what asyncio makes of the outcome of one `data_received` call -/
def settle (r : CSt × Except Unit Unit) : CSt :=
  match r.2 with
  | .ok _ => r.1
  | .error _ => crash r.1

/-- on every state in which the transport still delivers data (not closed, not aborted, not lost) and every chunk,
    the translated `data_received` does what the model's `onData` does -/
theorem client_data_received_eq (env : Env) (s : CSt) (c : Bytes)
    (h1 : s.closeReq = false) (h2 : s.crashed = false) (h3 : s.lost = false) :
    settle (clientDataReceived env s c) = onData env s c := by
  obtain ⟨buf, hr, status, mta, fut, closeReq, crashed, lost, dt⟩ := s
  simp only at h1 h2 h3
  subst h1 h2 h3
  unfold clientDataReceived onData
  simp only [Bool.false_eq_true, or_self, if_false]
  by_cases hh : hr = true
  · -- the header was received earlier: only the size cap applies
    by_cases hcap : maxBody < buf.length + c.length
    · simp [settle, capCheck, closeTransport, hh, hcap]
    · simp [settle, capCheck, hh, hcap]
  · have hh' : hr = false := by simpa using hh
    subst hh'
    have hneg : ¬ ((maxHeader : Int) < -1) := by omega
    cases hf : findCRLF (buf ++ c) with
    | none =>
      by_cases hlong : maxHeader + 1 < buf.length + c.length
      · have hI : ((buf.length : Int) + (c.length : Int) > (maxHeader : Int) + 1) := by omega
        simp [settle, tooLong, closeTransport, findInt, hasCRLF, hf, hlong, hI, hneg]
      · have hI : ¬ ((buf.length : Int) + (c.length : Int) > (maxHeader : Int) + 1) := by omega
        by_cases hcap : maxBody < buf.length + c.length
        · simp [settle, capCheck, closeTransport, findInt, hasCRLF, hf, hlong, hI, hcap, hneg]
        · simp [settle, capCheck, findInt, hasCRLF, hf, hlong, hI, hcap, hneg]
    | some i =>
      have hi := findCRLF_lt hf
      have hnn : ¬ ((i : Int) < 0) := by omega
      have hge : (0 : Int) ≤ (i : Int) := by omega
      have htn : ((i : Int)).toNat = i := by simp
      have htn2 : ((i : Int) + ((crlf.length : Nat) : Int)).toNat = i + 2 := by simp [crlf]; omega
      have htn3 : ((i : Int) + 2).toNat = i + 2 := by omega
      by_cases hlong : maxHeader < i
      · have hI : ((i : Int) > (maxHeader : Int)) := by omega
        simp [settle, tooLong, closeTransport, findInt, hasCRLF, hf, hlong, hI, hnn]
      · have hI : ¬ ((i : Int) > (maxHeader : Int)) := by omega
        cases hu : env.utf8Ok (List.take i (buf ++ c))
        · simp [settle, crash, onHeader, findInt, hasCRLF, cutCRLF, decodeE, hf, hlong, hI, hnn, hge, htn, htn2, htn3, crlf, hu]
        · cases hst : (parseHeader ⟨buf ++ c, false, status, mta, fut, false, false, false, dt⟩ (List.take i (buf ++ c))).status with
          | none =>
            simp [settle, onHeader, afterHeader, closeTransport, findInt, hasCRLF, cutCRLF, decodeE, hf, hlong, hI, hnn, hge, htn, htn2, htn3, crlf, hu, hst]
          | some st =>
            by_cases h2x : 20 ≤ st ∧ st < 30
            · by_cases hcap : maxBody < buf.length + c.length - (i + 2)
              · simp [settle, onHeader, afterHeader, capCheck, closeTransport, findInt, hasCRLF, cutCRLF, decodeE, hf, hlong, hI, hnn, hge, htn, htn2, htn3, crlf, hu, hst, h2x, hcap]
              · simp [settle, onHeader, afterHeader, capCheck, closeTransport, findInt, hasCRLF, cutCRLF, decodeE, hf, hlong, hI, hnn, hge, htn, htn2, htn3, crlf, hu, hst, h2x, hcap]
            · have h2x' : st < 20 ∨ 30 ≤ st := by omega
              simp [settle, onHeader, afterHeader, closeTransport, findInt, hasCRLF, cutCRLF, decodeE, hf, hlong, hI, hnn, hge, htn, htn2, htn3, crlf, hu, hst, h2x, h2x']
/-- `TitanClientProtocol.data_received` (uploads): on every state in which the transport still delivers data (not closed, not aborted, not lost) and every chunk,
    the translated `data_received` does what the model's `onData` does -/
theorem titan_client_data_received_eq (env : Env) (s : CSt) (c : Bytes)
    (h1 : s.closeReq = false) (h2 : s.crashed = false) (h3 : s.lost = false) :
    settle (titanClientDataReceived env s c) = onData env s c := by
  obtain ⟨buf, hr, status, mta, fut, closeReq, crashed, lost, dt⟩ := s
  simp only at h1 h2 h3
  subst h1 h2 h3
  unfold titanClientDataReceived onData
  simp only [Bool.false_eq_true, or_self, if_false]
  by_cases hh : hr = true
  · -- the header was received earlier: only the size cap applies
    by_cases hcap : maxBody < buf.length + c.length
    · simp [settle, capCheck, closeTransport, hh, hcap]
    · simp [settle, capCheck, hh, hcap]
  · have hh' : hr = false := by simpa using hh
    subst hh'
    have hneg : ¬ ((maxHeader : Int) < -1) := by omega
    cases hf : findCRLF (buf ++ c) with
    | none =>
      by_cases hlong : maxHeader + 1 < buf.length + c.length
      · have hI : ((buf.length : Int) + (c.length : Int) > (maxHeader : Int) + 1) := by omega
        simp [settle, tooLong, closeTransport, findInt, hasCRLF, hf, hlong, hI, hneg]
      · have hI : ¬ ((buf.length : Int) + (c.length : Int) > (maxHeader : Int) + 1) := by omega
        by_cases hcap : maxBody < buf.length + c.length
        · simp [settle, capCheck, closeTransport, findInt, hasCRLF, hf, hlong, hI, hcap, hneg]
        · simp [settle, capCheck, findInt, hasCRLF, hf, hlong, hI, hcap, hneg]
    | some i =>
      have hi := findCRLF_lt hf
      have hnn : ¬ ((i : Int) < 0) := by omega
      have hge : (0 : Int) ≤ (i : Int) := by omega
      have htn : ((i : Int)).toNat = i := by simp
      have htn2 : ((i : Int) + ((crlf.length : Nat) : Int)).toNat = i + 2 := by simp [crlf]; omega
      have htn3 : ((i : Int) + 2).toNat = i + 2 := by omega
      by_cases hlong : maxHeader < i
      · have hI : ((i : Int) > (maxHeader : Int)) := by omega
        simp [settle, tooLong, closeTransport, findInt, hasCRLF, hf, hlong, hI, hnn]
      · have hI : ¬ ((i : Int) > (maxHeader : Int)) := by omega
        cases hu : env.utf8Ok (List.take i (buf ++ c))
        · simp [settle, crash, onHeader, findInt, hasCRLF, cutCRLF, decodeE, hf, hlong, hI, hnn, hge, htn, htn2, htn3, crlf, hu]
        · cases hst : (parseHeader ⟨buf ++ c, false, status, mta, fut, false, false, false, dt⟩ (List.take i (buf ++ c))).status with
          | none =>
            simp [settle, onHeader, afterHeader, closeTransport, findInt, hasCRLF, cutCRLF, decodeE, hf, hlong, hI, hnn, hge, htn, htn2, htn3, crlf, hu, hst]
          | some st =>
            by_cases h2x : 20 ≤ st ∧ st < 30
            · by_cases hcap : maxBody < buf.length + c.length - (i + 2)
              · simp [settle, onHeader, afterHeader, capCheck, closeTransport, findInt, hasCRLF, cutCRLF, decodeE, hf, hlong, hI, hnn, hge, htn, htn2, htn3, crlf, hu, hst, h2x, hcap]
              · simp [settle, onHeader, afterHeader, capCheck, closeTransport, findInt, hasCRLF, cutCRLF, decodeE, hf, hlong, hI, hnn, hge, htn, htn2, htn3, crlf, hu, hst, h2x, hcap]
            · have h2x' : st < 20 ∨ 30 ≤ st := by omega
              simp [settle, onHeader, afterHeader, closeTransport, findInt, hasCRLF, cutCRLF, decodeE, hf, hlong, hI, hnn, hge, htn, htn2, htn3, crlf, hu, hst, h2x, h2x']
end NauyacaVerif.Translated
