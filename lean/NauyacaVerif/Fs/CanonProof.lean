import NauyacaVerif.Fs.Canon

/-! # Lemmas about `canonical_path`: percent/UTF-8 round trips, splitting, cleanliness -/
namespace Fs.Canon

/-! ## percent decoding -/
theorem hexVal_hexDigit {n : Nat} (h : n < 16) : hexVal (hexDigit n) = some n := by
  unfold hexVal hexDigit
  by_cases h10 : n < 10
  · rw [if_pos h10, if_pos (by omega)]; congr 1; omega
  · rw [if_neg h10, if_neg (by omega), if_neg (by omega), if_pos (by omega)]; congr 1; omega

theorem pctGo_two (a b : Nat) (X : List Nat) : pctGo 2 (a :: b :: X) = pctGo 0 X := by
  simp [pctGo]

theorem pctGo_cons_ne {c : Nat} (h : c ≠ 37) (X : List Nat) : pctGo 0 (c :: X) = c :: pctGo 0 X := by
  simp [pctGo, h]

theorem escHead_hex {x y : Nat} (hx : x < 16) (hy : y < 16) (X : List Nat) :
    escHead (hexDigit x :: hexDigit y :: X) = some (x * 16 + y) := by
  simp [escHead, hexVal_hexDigit hx, hexVal_hexDigit hy]

theorem pctGo_escape {b : Nat} (hb : b < 256) (X : List Nat) :
    pctGo 0 (37 :: hexDigit (b / 16) :: hexDigit (b % 16) :: X) = b :: pctGo 0 X := by
  have h1 : b / 16 < 16 := by omega
  have h2 : b % 16 < 16 := by omega
  have he := escHead_hex h1 h2 X
  have : b / 16 * 16 + b % 16 = b := by omega
  simp only [pctGo, if_true, he, pctGo_two, this]

theorem pctEncode_keep {keep : Nat → Bool} {b : Nat} (h : keep b = true) (rest : List Nat) :
    pctEncode keep (b :: rest) = b :: pctEncode keep rest := by simp [pctEncode, h]

theorem pctEncode_esc {keep : Nat → Bool} {b : Nat} (h : keep b = false) (rest : List Nat) :
    pctEncode keep (b :: rest) = 37 :: hexDigit (b / 16) :: hexDigit (b % 16) :: pctEncode keep rest := by
  simp [pctEncode, h]

/-- decoding undoes encoding, byte for byte, whatever set of bytes is left literal (but never `%`) -/
theorem pctDecode_pctEncode_append (keep : Nat → Bool) (hk : keep 37 = false) (bs : List Nat)
    (hb : ∀ b ∈ bs, b < 256) (X : List Nat) :
    pctDecode (pctEncode keep bs ++ X) = bs ++ pctDecode X := by
  unfold pctDecode
  induction bs with
  | nil => simp [pctEncode]
  | cons b rest ih =>
    have hb' : b < 256 := hb b (by simp)
    have ih' := ih (fun x hx => hb x (by simp [hx]))
    by_cases hkb : keep b = true
    · have hne : b ≠ 37 := by intro h; rw [h, hk] at hkb; cases hkb
      rw [pctEncode_keep hkb, List.cons_append, pctGo_cons_ne hne, ih']; rfl
    · have hkb' : keep b = false := by cases h : keep b <;> simp_all
      rw [pctEncode_esc hkb']
      simp only [List.cons_append]
      rw [pctGo_escape hb', ih']

theorem pctDecode_pctEncode (keep : Nat → Bool) (hk : keep 37 = false) (bs : List Nat)
    (hb : ∀ b ∈ bs, b < 256) : pctDecode (pctEncode keep bs) = bs := by
  have := pctDecode_pctEncode_append keep hk bs hb []
  simpa [pctDecode, pctGo] using this

theorem pctDecode_noPct_append (s : List Nat) (h : 37 ∉ s) (X : List Nat) :
    pctDecode (s ++ X) = s ++ pctDecode X := by
  unfold pctDecode
  induction s with
  | nil => rfl
  | cons c rest ih =>
    have hc : c ≠ 37 := by intro e; exact h (by simp [e])
    have hr : 37 ∉ rest := fun hm => h (by simp [hm])
    simp only [List.cons_append]
    rw [pctGo_cons_ne hc, ih hr]

theorem pctDecode_noPct (s : List Nat) (h : 37 ∉ s) : pctDecode s = s := by
  have := pctDecode_noPct_append s h []
  simpa [pctDecode, pctGo] using this

theorem pctDecode_cons_ne {c : Nat} (h : c ≠ 37) (X : List Nat) : pctDecode (c :: X) = c :: pctDecode X :=
  pctGo_cons_ne h X

/-- the output of the encoder is ASCII when only ASCII bytes are kept -/
theorem hexDigit_lt {n : Nat} (h : n < 16) : hexDigit n < 128 := by
  unfold hexDigit; split <;> omega

theorem pctEncode_ascii (keep : Nat → Bool) (hka : ∀ b, keep b = true → b < 128) (bs : List Nat)
    (hb : ∀ b ∈ bs, b < 256) : ∀ c ∈ pctEncode keep bs, c < 128 := by
  induction bs with
  | nil => simp [pctEncode]
  | cons b rest ih =>
    have ih' := ih (fun x hx => hb x (by simp [hx]))
    have hb' : b < 256 := hb b (by simp)
    intro c hc
    by_cases hkb : keep b = true
    · rw [pctEncode_keep hkb] at hc
      simp only [List.mem_cons] at hc
      rcases hc with rfl | hc
      · exact hka _ hkb
      · exact ih' c hc
    · have hkb' : keep b = false := by cases h : keep b <;> simp_all
      rw [pctEncode_esc hkb'] at hc
      simp only [List.mem_cons] at hc
      rcases hc with rfl | rfl | rfl | hc
      · omega
      · exact hexDigit_lt (by omega)
      · exact hexDigit_lt (by omega)
      · exact ih' c hc

/-! ## UTF-8 -/
theorem utf8Go_idle_ascii {c : Nat} (h : c < 128) (X : List Nat) :
    utf8Go 0 0 0 0 (c :: X) = c :: utf8Go 0 0 0 0 X := by
  simp [utf8Go, lead, h]

theorem utf8Dec_ascii_append (s : List Nat) (h : ∀ c ∈ s, c < 128) (X : List Nat) :
    utf8Dec (s ++ X) = s ++ utf8Dec X := by
  unfold utf8Dec
  induction s with
  | nil => rfl
  | cons c rest ih =>
    simp only [List.cons_append]
    rw [utf8Go_idle_ascii (h c (by simp)), ih (fun x hx => h x (by simp [hx]))]

theorem utf8Dec_ascii (s : List Nat) (h : ∀ c ∈ s, c < 128) : utf8Dec s = s := by
  have := utf8Dec_ascii_append s h []
  simpa [utf8Dec, utf8Go] using this

theorem utf8Dec_cons_ascii {c : Nat} (h : c < 128) (X : List Nat) : utf8Dec (c :: X) = c :: utf8Dec X :=
  utf8Go_idle_ascii h X

theorem utf8Go_lead_inr {b n a l h : Nat} (hl : lead b = .inr (n, a, l, h)) (X : List Nat) :
    utf8Go 0 0 0 0 (b :: X) = utf8Go n a l h X := by
  simp [utf8Go, hl]

theorem utf8Go_cont_more {need acc lo hi b : Nat} (hn : 2 ≤ need) (hr : lo ≤ b ∧ b ≤ hi) (X : List Nat) :
    utf8Go need acc lo hi (b :: X) = utf8Go (need - 1) (acc * 64 + (b - 128)) 128 191 X := by
  have h0 : need ≠ 0 := by omega
  have h1 : need ≠ 1 := by omega
  simp [utf8Go, h0, h1, hr]

theorem utf8Go_cont_last {acc lo hi b : Nat} (hr : lo ≤ b ∧ b ≤ hi) (X : List Nat) :
    utf8Go 1 acc lo hi (b :: X) = (acc * 64 + (b - 128)) :: utf8Go 0 0 0 0 X := by
  simp [utf8Go, hr]

theorem lead2 {c : Nat} (h1 : 128 ≤ c) (h2 : c < 2048) :
    lead (192 + c / 64) = .inr (1, c / 64, 128, 191) := by
  unfold lead
  rw [if_neg (by omega), if_pos (by omega)]
  have e : 192 + c / 64 - 192 = c / 64 := by omega
  rw [e]

theorem lead3 {c : Nat} (h1 : 2048 ≤ c) (h2 : c < 65536) (hs : c < 55296 ∨ 57344 ≤ c) :
    ∃ l h, lead (224 + c / 4096) = .inr (2, c / 4096, l, h) ∧ l ≤ 128 + c / 64 % 64 ∧ 128 + c / 64 % 64 ≤ h := by
  unfold lead
  rw [if_neg (by omega), if_neg (by omega)]
  by_cases e0 : c / 4096 = 0
  · refine ⟨160, 191, ?_, by omega, by omega⟩
    rw [if_pos (by omega), e0]
  · rw [if_neg (by omega)]
    by_cases e13 : c / 4096 = 13
    · refine ⟨128, 159, ?_, by omega, by omega⟩
      rw [if_pos (by omega), e13]
    · refine ⟨128, 191, ?_, by omega, by omega⟩
      rw [if_neg (by omega), if_pos (by omega)]
      have e : 224 + c / 4096 - 224 = c / 4096 := by omega
      rw [e]

theorem lead4 {c : Nat} (h1 : 65536 ≤ c) (h2 : c < 1114112) :
    ∃ l h, lead (240 + c / 262144) = .inr (3, c / 262144, l, h) ∧ l ≤ 128 + c / 4096 % 64 ∧ 128 + c / 4096 % 64 ≤ h := by
  unfold lead
  rw [if_neg (by omega), if_neg (by omega), if_neg (by omega), if_neg (by omega), if_neg (by omega)]
  by_cases e0 : c / 262144 = 0
  · refine ⟨144, 191, ?_, by omega, by omega⟩
    rw [if_pos (by omega), e0]
  · rw [if_neg (by omega)]
    by_cases e4 : c / 262144 = 4
    · refine ⟨128, 143, ?_, by omega, by omega⟩
      rw [if_pos (by omega), e4]
    · refine ⟨128, 191, ?_, by omega, by omega⟩
      rw [if_neg (by omega), if_pos (by omega)]
      have e : 240 + c / 262144 - 240 = c / 262144 := by omega
      rw [e]

/-- decoding undoes encoding for every Unicode scalar value -/
theorem utf8Dec_enc1 {c : Nat} (hs : scalar c = true) (X : List Nat) :
    utf8Dec (utf8Enc1 c ++ X) = c :: utf8Dec X := by
  unfold utf8Dec
  have hs' : c < 55296 ∨ (57344 ≤ c ∧ c < 1114112) := by simpa [scalar] using hs
  unfold utf8Enc1
  by_cases h1 : c < 128
  · rw [if_pos h1]; exact utf8Go_idle_ascii h1 X
  · rw [if_neg h1]
    by_cases h2 : c < 2048
    · rw [if_pos h2]
      simp only [List.cons_append, List.nil_append]
      rw [utf8Go_lead_inr (lead2 (by omega) h2), utf8Go_cont_last (by omega)]
      have e : c / 64 * 64 + (128 + c % 64 - 128) = c := by omega
      rw [e]
    · rw [if_neg h2]
      by_cases h3 : c < 65536
      · rw [if_pos h3]
        simp only [List.cons_append, List.nil_append]
        obtain ⟨l, h, hl, hlo, hhi⟩ := lead3 (c := c) (by omega) h3 (by omega)
        rw [utf8Go_lead_inr hl, utf8Go_cont_more (by omega) ⟨hlo, hhi⟩, utf8Go_cont_last (by omega)]
        have e : (c / 4096 * 64 + (128 + c / 64 % 64 - 128)) * 64 + (128 + c % 64 - 128) = c := by omega
        rw [e]
      · rw [if_neg h3]
        simp only [List.cons_append, List.nil_append]
        obtain ⟨l, h, hl, hlo, hhi⟩ := lead4 (c := c) (by omega) (by omega)
        rw [utf8Go_lead_inr hl, utf8Go_cont_more (by omega) ⟨hlo, hhi⟩,
          utf8Go_cont_more (by omega) (by omega), utf8Go_cont_last (by omega)]
        have e : ((c / 262144 * 64 + (128 + c / 4096 % 64 - 128)) * 64 + (128 + c / 64 % 64 - 128)) * 64 +
            (128 + c % 64 - 128) = c := by omega
        rw [e]

theorem utf8Dec_enc_append (s : List Nat) (hs : ∀ c ∈ s, scalar c = true) (X : List Nat) :
    utf8Dec (utf8Enc s ++ X) = s ++ utf8Dec X := by
  induction s with
  | nil => rfl
  | cons c rest ih =>
    simp only [utf8Enc, List.append_assoc, List.cons_append]
    rw [utf8Dec_enc1 (hs c (by simp)), ih (fun x hx => hs x (by simp [hx]))]

theorem utf8Dec_enc (s : List Nat) (hs : ∀ c ∈ s, scalar c = true) : utf8Dec (utf8Enc s) = s := by
  have := utf8Dec_enc_append s hs []
  simpa [utf8Dec, utf8Go] using this

theorem utf8Enc1_byte {c : Nat} (hs : scalar c = true) : ∀ b ∈ utf8Enc1 c, b < 256 := by
  have hs' : c < 55296 ∨ (57344 ≤ c ∧ c < 1114112) := by simpa [scalar] using hs
  unfold utf8Enc1
  intro b hb
  split at hb
  · simp at hb; omega
  · split at hb
    · simp at hb; omega
    · split at hb
      · simp at hb; omega
      · simp at hb; omega

theorem utf8Enc_byte (s : List Nat) (hs : ∀ c ∈ s, scalar c = true) : ∀ b ∈ utf8Enc s, b < 256 := by
  induction s with
  | nil => simp [utf8Enc]
  | cons c rest ih =>
    intro b hb
    simp only [utf8Enc, List.mem_append] at hb
    rcases hb with hb | hb
    · exact utf8Enc1_byte (hs c (by simp)) b hb
    · exact ih (fun x hx => hs x (by simp [hx])) b hb

/-! ## unquote -/
theorem unquoteGo_ascii (s : List Nat) (h : ∀ c ∈ s, c < 128) (run : List Nat) :
    unquoteGo run s = decRun (run ++ s) := by
  induction s generalizing run with
  | nil => simp [unquoteGo]
  | cons c rest ih =>
    have hc : c < 128 := h c (by simp)
    simp only [unquoteGo, if_pos hc]
    rw [ih (fun x hx => h x (by simp [hx]))]
    simp

/-- an all-ASCII string is percent-decoded and then UTF-8-decoded as a whole -/
theorem unquote_ascii (s : List Nat) (h : ∀ c ∈ s, c < 128) : unquote s = utf8Dec (pctDecode s) := by
  unfold unquote; rw [unquoteGo_ascii s h]; rfl

theorem decRun_plain (run : List Nat) (ha : ∀ c ∈ run, c < 128) (hp : 37 ∉ run) : decRun run = run := by
  unfold decRun; rw [pctDecode_noPct run hp, utf8Dec_ascii run ha]

theorem unquoteGo_noPct (s : List Nat) (h : 37 ∉ s) (run : List Nat) (ha : ∀ c ∈ run, c < 128) (hp : 37 ∉ run) :
    unquoteGo run s = run ++ s := by
  induction s generalizing run with
  | nil => simp [unquoteGo, decRun_plain run ha hp]
  | cons c rest ih =>
    have hc : c ≠ 37 := by intro e; exact h (by simp [e])
    have hr : 37 ∉ rest := fun hm => h (by simp [hm])
    simp only [unquoteGo]
    by_cases hlt : c < 128
    · rw [if_pos hlt, ih hr (run ++ [c])]
      · simp
      · intro x hx
        simp only [List.mem_append, List.mem_singleton] at hx
        rcases hx with hx | rfl
        · exact ha x hx
        · exact hlt
      · intro hm
        simp only [List.mem_append, List.mem_singleton] at hm
        rcases hm with hm | hm
        · exact hp hm
        · exact hc hm.symm
    · rw [if_neg hlt, decRun_plain run ha hp, ih hr [] (by simp) (by simp)]
      simp

/-- a string without `%` is its own decoding (whatever characters it contains) -/
theorem unquote_noPct (s : List Nat) (h : 37 ∉ s) : unquote s = s := by
  unfold unquote
  rw [unquoteGo_noPct s h [] (by simp) (by simp)]; rfl

/-! ## splitting and joining on `/` -/
theorem splitSlash_ne_nil (s : List Nat) : splitSlash s ≠ [] := by
  induction s with
  | nil => simp [splitSlash]
  | cons c rest ih =>
    simp only [splitSlash]
    split
    · simp
    · split <;> simp

theorem splitSlash_cons_ne {c : Nat} (hc : c ≠ 47) (rest : List Nat) :
    ∃ p ps, splitSlash rest = p :: ps ∧ splitSlash (c :: rest) = (c :: p) :: ps := by
  cases h : splitSlash rest with
  | nil => exact absurd h (splitSlash_ne_nil rest)
  | cons p ps => exact ⟨p, ps, rfl, by simp [splitSlash, hc, h]⟩

theorem splitSlash_seg_append (s : List Nat) (hs : 47 ∉ s) (X : List Nat) :
    splitSlash (s ++ 47 :: X) = s :: splitSlash X := by
  induction s with
  | nil => simp [splitSlash]
  | cons c rest ih =>
    have hc : c ≠ 47 := by intro e; exact hs (by simp [e])
    have ih' := ih (fun hm => hs (by simp [hm]))
    obtain ⟨p, ps, h1, h2⟩ := splitSlash_cons_ne hc (rest ++ 47 :: X)
    rw [List.cons_append, h2]
    rw [ih'] at h1
    cases h1; rfl

theorem splitSlash_seg (s : List Nat) (hs : 47 ∉ s) : splitSlash s = [s] := by
  induction s with
  | nil => simp [splitSlash]
  | cons c rest ih =>
    have hc : c ≠ 47 := by intro e; exact hs (by simp [e])
    have ih' := ih (fun hm => hs (by simp [hm]))
    obtain ⟨p, ps, h1, h2⟩ := splitSlash_cons_ne hc rest
    rw [h2]; rw [ih'] at h1; cases h1; rfl

/-- no part of a split contains a slash -/
theorem splitSlash_noSlash (s : List Nat) : ∀ p ∈ splitSlash s, 47 ∉ p := by
  induction s with
  | nil => simp [splitSlash]
  | cons c rest ih =>
    by_cases hc : c = 47
    · subst hc
      intro p hp
      simp only [splitSlash, if_true, List.mem_cons] at hp
      rcases hp with rfl | hp
      · simp
      · exact ih p hp
    · obtain ⟨q, qs, h1, h2⟩ := splitSlash_cons_ne hc rest
      intro p hp
      rw [h2] at hp
      rw [h1] at ih
      simp only [List.mem_cons] at hp
      rcases hp with rfl | hp
      · intro hm
        simp only [List.mem_cons] at hm
        rcases hm with hm | hm
        · exact hc hm.symm
        · exact ih q (by simp) hm
      · exact ih p (by simp [hp])

/-- a name that can be a segment of a canonical path -/
def Clean (s : Cps) : Prop := s ≠ [] ∧ s ≠ dot ∧ s ≠ dotdot ∧ 47 ∉ s

theorem splitSlash_join (segs : List Cps) (hne : segs ≠ []) (h : ∀ s ∈ segs, 47 ∉ s) :
    splitSlash (joinSlash segs) = segs := by
  induction segs with
  | nil => exact absurd rfl hne
  | cons s rest ih =>
    cases rest with
    | nil => simpa [joinSlash] using splitSlash_seg s (h s (by simp))
    | cons s2 rest2 =>
      have : joinSlash (s :: s2 :: rest2) = s ++ 47 :: joinSlash (s2 :: rest2) := rfl
      rw [this, splitSlash_seg_append s (h s (by simp)), ih (by simp) (fun x hx => h x (by simp [hx]))]

theorem splitSlash_join_tail (segs : List Cps) (hne : segs ≠ []) (h : ∀ s ∈ segs, 47 ∉ s) (X : List Nat) :
    splitSlash (joinSlash segs ++ 47 :: X) = segs ++ splitSlash X := by
  induction segs with
  | nil => exact absurd rfl hne
  | cons s rest ih =>
    cases rest with
    | nil => simpa [joinSlash] using splitSlash_seg_append s (h s (by simp)) X
    | cons s2 rest2 =>
      have : joinSlash (s :: s2 :: rest2) = s ++ 47 :: joinSlash (s2 :: rest2) := rfl
      rw [this, List.append_assoc, List.cons_append, splitSlash_seg_append s (h s (by simp)),
        ih (by simp) (fun x hx => h x (by simp [hx]))]
      rfl

/-! ## segment folding -/
theorem foldSeg_clean {p : Cps} (hp : Clean p) (acc : List Cps) : foldSeg acc p = acc ++ [p] := by
  obtain ⟨h1, h2, h3, _⟩ := hp
  simp [foldSeg, h1, h2, h3]

theorem foldl_foldSeg_clean (segs : List Cps) (h : ∀ s ∈ segs, Clean s) (acc : List Cps) :
    segs.foldl foldSeg acc = acc ++ segs := by
  induction segs generalizing acc with
  | nil => simp
  | cons s rest ih =>
    simp only [List.foldl_cons]
    rw [foldSeg_clean (h s (by simp)), ih (fun x hx => h x (by simp [hx]))]
    simp

theorem foldSeg_inv {acc : List Cps} {p : Cps} (ha : ∀ s ∈ acc, Clean s) (hp : 47 ∉ p) :
    ∀ s ∈ foldSeg acc p, Clean s := by
  unfold foldSeg
  split
  · exact ha
  · rename_i h1
    split
    · intro s hs; exact ha s (List.dropLast_subset _ hs)
    · rename_i h2
      intro s hs
      simp only [List.mem_append, List.mem_singleton] at hs
      rcases hs with hs | rfl
      · exact ha s hs
      · exact ⟨fun e => h1 (Or.inl e), fun e => h1 (Or.inr e), h2, hp⟩

theorem foldl_foldSeg_inv (parts : List Cps) (hp : ∀ p ∈ parts, 47 ∉ p) (acc : List Cps)
    (ha : ∀ s ∈ acc, Clean s) : ∀ s ∈ parts.foldl foldSeg acc, Clean s := by
  induction parts generalizing acc with
  | nil => simpa using ha
  | cons p rest ih =>
    simp only [List.foldl_cons]
    exact ih (fun x hx => hp x (by simp [hx])) _ (foldSeg_inv ha (hp p (by simp)))

/-- every segment of a canonical path is a proper name: non-empty, not `.`/`..`, without `/` -/
theorem canonSegs_clean (raw : Cps) : ∀ s ∈ (canonSegs raw).1, Clean s := by
  unfold canonSegs segsOf
  exact foldl_foldSeg_inv _ (splitSlash_noSlash _) [] (by simp)

/-- if the decoded path is `/name/name/…` with proper names, those are the canonical segments
    and there is no trailing slash -/
theorem canonSegs_of_unquote (raw : Cps) (segs : List Cps) (h : ∀ s ∈ segs, Clean s)
    (hu : unquote raw = 47 :: joinSlash segs) : canonSegs raw = (segs, false) := by
  unfold canonSegs
  rw [hu]
  cases segs with
  | nil => simp [joinSlash, splitSlash, segsOf, foldSeg]
  | cons s rest =>
    have hsl : ∀ x ∈ s :: rest, 47 ∉ x := fun x hx => (h x hx).2.2.2
    have hsplit : splitSlash (47 :: joinSlash (s :: rest)) = [] :: (s :: rest) := by
      simp only [splitSlash, if_true]
      rw [splitSlash_join (s :: rest) (by simp) hsl]
    rw [hsplit]
    have hfold : segsOf ([] :: s :: rest) = s :: rest := by
      unfold segsOf
      simp only [List.foldl_cons]
      have : foldSeg [] [] = [] := by simp [foldSeg]
      rw [this]
      have := foldl_foldSeg_clean (s :: rest) h []
      simpa using this
    dsimp only
    rw [hfold]
    have hlast : ∃ l, ([] :: s :: rest : List Cps).getLast? = some l ∧ l ∈ s :: rest := by
      refine ⟨(s :: rest).getLast (by simp), ?_, List.getLast_mem _⟩
      rw [List.getLast?_cons_cons, List.getLast?_eq_some_getLast]
    obtain ⟨l, hl1, hl2⟩ := hlast
    obtain ⟨c1, c2, c3, _⟩ := h l hl2
    simp [hl1, dotty, c1, c2, c3]

/-! ## the two spellings of a file's own path -/
theorem joinSlash_cons2 (s s2 : Cps) (rest : List Cps) :
    joinSlash (s :: s2 :: rest) = s ++ 47 :: joinSlash (s2 :: rest) := rfl

theorem mem_joinSlash (segs : List Cps) (c : Nat) (h : c ∈ joinSlash segs) : c = 47 ∨ ∃ s ∈ segs, c ∈ s := by
  induction segs with
  | nil => simp [joinSlash] at h
  | cons s rest ih =>
    cases rest with
    | nil => exact Or.inr ⟨s, by simp, by simpa [joinSlash] using h⟩
    | cons s2 rest2 =>
      rw [joinSlash_cons2] at h
      simp only [List.mem_append, List.mem_cons] at h
      rcases h with h | h | h
      · exact Or.inr ⟨s, by simp, h⟩
      · exact Or.inl h
      · rcases ih h with h | ⟨x, hx, hc⟩
        · exact Or.inl h
        · exact Or.inr ⟨x, by simp [hx], hc⟩

/-- literal spelling: a path made of proper names without `%` is canonical as it stands -/
theorem canonSegs_literal (segs : List Cps) (h : ∀ s ∈ segs, Clean s) (hp : ∀ s ∈ segs, 37 ∉ s) :
    canonSegs (47 :: joinSlash segs) = (segs, false) := by
  apply canonSegs_of_unquote _ segs h
  apply unquote_noPct
  intro hm
  simp only [List.mem_cons] at hm
  rcases hm with hm | hm
  · omega
  · rcases mem_joinSlash segs 37 hm with h47 | ⟨s, hs, hc⟩
    · omega
    · exact hp s hs hc

/-- RFC 3986 spelling of one name: UTF-8, then every byte not in `keep` as `%XX` -/
def encName (keep : Nat → Bool) (s : Cps) : Cps := pctEncode keep (utf8Enc s)

theorem pctDecode_join (keep : Nat → Bool) (hk : keep 37 = false) (segs : List Cps)
    (hs : ∀ s ∈ segs, ∀ c ∈ s, scalar c = true) (X : List Nat) :
    pctDecode (joinSlash (segs.map (encName keep)) ++ X) = joinSlash (segs.map utf8Enc) ++ pctDecode X := by
  induction segs with
  | nil => simp [joinSlash]
  | cons s rest ih =>
    have hb := utf8Enc_byte s (hs s (by simp))
    cases rest with
    | nil =>
      simp only [List.map, joinSlash]
      exact pctDecode_pctEncode_append keep hk _ hb X
    | cons s2 rest2 =>
      have ih' := ih (fun x hx => hs x (by simp [hx]))
      simp only [List.map] at ih' ⊢
      rw [joinSlash_cons2, joinSlash_cons2, List.append_assoc, List.cons_append]
      unfold encName
      rw [pctDecode_pctEncode_append keep hk _ hb, pctDecode_cons_ne (by omega)]
      unfold encName at ih'
      rw [ih']
      simp

theorem utf8Dec_join (segs : List Cps) (hs : ∀ s ∈ segs, ∀ c ∈ s, scalar c = true) (X : List Nat) :
    utf8Dec (joinSlash (segs.map utf8Enc) ++ X) = joinSlash segs ++ utf8Dec X := by
  induction segs with
  | nil => simp [joinSlash]
  | cons s rest ih =>
    cases rest with
    | nil =>
      simp only [List.map, joinSlash]
      exact utf8Dec_enc_append s (hs s (by simp)) X
    | cons s2 rest2 =>
      have ih' := ih (fun x hx => hs x (by simp [hx]))
      simp only [List.map] at ih' ⊢
      rw [joinSlash_cons2, joinSlash_cons2, List.append_assoc, List.cons_append,
        utf8Dec_enc_append s (hs s (by simp)), utf8Dec_cons_ascii (by omega), ih']
      simp

/-- percent-encoded spelling: every name UTF-8-encoded and escaped (any escaping discipline that
    escapes `%` itself and leaves only ASCII bytes literal) denotes the same canonical segments -/
theorem canonSegs_encoded (keep : Nat → Bool) (hk : keep 37 = false) (hka : ∀ b, keep b = true → b < 128)
    (segs : List Cps) (h : ∀ s ∈ segs, Clean s) (hs : ∀ s ∈ segs, ∀ c ∈ s, scalar c = true) :
    canonSegs (47 :: joinSlash (segs.map (encName keep))) = (segs, false) := by
  apply canonSegs_of_unquote _ segs h
  have hascii : ∀ c ∈ 47 :: joinSlash (segs.map (encName keep)), c < 128 := by
    intro c hc
    simp only [List.mem_cons] at hc
    rcases hc with rfl | hc
    · omega
    · rcases mem_joinSlash _ c hc with rfl | ⟨e, he, hce⟩
      · omega
      · simp only [List.mem_map] at he
        obtain ⟨s, hs', rfl⟩ := he
        exact pctEncode_ascii keep hka _ (utf8Enc_byte s (hs s hs')) c hce
  rw [unquote_ascii _ hascii, pctDecode_cons_ne (by omega)]
  have h1 := pctDecode_join keep hk segs hs []
  have h2 := utf8Dec_join segs hs []
  simp only [List.append_nil] at h1 h2
  have e1 : pctDecode [] = [] := rfl
  have e2 : utf8Dec [] = [] := rfl
  rw [e1, List.append_nil] at h1
  rw [e2, List.append_nil] at h2
  rw [h1, utf8Dec_cons_ascii (by omega), h2]

/-! ## handler and middleware read the same canonical path -/
theorem splitSlash_render (segs : List Cps) (t : Bool) (h : ∀ s ∈ segs, Clean s) :
    splitSlash (render (segs, t)) = [] :: (if segs = [] then [[]] else segs) ++ (if t then [[]] else []) := by
  have hsl : ∀ x ∈ segs, 47 ∉ x := fun x hx => (h x hx).2.2.2
  unfold render
  simp only [List.cons_append, splitSlash, if_true]
  cases segs with
  | nil => cases t <;> simp [joinSlash, splitSlash]
  | cons s rest =>
    cases t
    · simp only [Bool.false_eq_true, if_false, List.append_nil]
      rw [splitSlash_join _ (by simp) hsl]; simp
    · simp only [if_true]
      rw [splitSlash_join_tail _ (by simp) hsl []]; simp [splitSlash]

/-- `document_root / canonical_path(p).lstrip("/")` looks up exactly the canonical segments -/
theorem pathComps_render (segs : List Cps) (t : Bool) (h : ∀ s ∈ segs, Clean s) :
    pathComps (render (segs, t)) = segs := by
  unfold pathComps
  rw [splitSlash_render segs t h]
  have hkeep : segs.filter (fun p => !(p = [] || p = dot)) = segs := by
    apply List.filter_eq_self.mpr
    intro s hs
    obtain ⟨h1, h2, _, _⟩ := h s hs
    simp [h1, h2]
  by_cases hseg : segs = []
  · subst hseg; cases t <;> simp [dot]
  · rw [if_neg hseg, List.cons_append, List.filter_cons, List.filter_append, hkeep]
    cases t <;> simp [dot]

theorem pathComps_canonical (raw : Cps) : pathComps (canonicalPath raw) = (canonSegs raw).1 := by
  unfold canonicalPath
  have := pathComps_render (canonSegs raw).1 (canonSegs raw).2 (canonSegs_clean raw)
  simpa using this

theorem joinSlash_last (segs : List Cps) (hne : segs ≠ []) (h : ∀ s ∈ segs, Clean s) :
    ∃ c, (joinSlash segs).getLast? = some c ∧ c ≠ 47 := by
  induction segs with
  | nil => exact absurd rfl hne
  | cons s rest ih =>
    cases rest with
    | nil =>
      obtain ⟨h1, _, _, h4⟩ := h s (by simp)
      refine ⟨s.getLast h1, by simp [joinSlash, List.getLast?_eq_some_getLast h1], ?_⟩
      intro e; exact h4 (e ▸ List.getLast_mem h1)
    | cons s2 rest2 =>
      obtain ⟨c, hc, hne47⟩ := ih (by simp) (fun x hx => h x (by simp [hx]))
      refine ⟨c, ?_, hne47⟩
      rw [joinSlash_cons2, List.getLast?_append]
      simp [List.getLast?_cons, hc]

end Fs.Canon
