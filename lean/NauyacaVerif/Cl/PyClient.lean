import NauyacaVerif.Cl.Client
/-!
Operations the TRANSLATION of `GeminiClientProtocol.data_received` (`Gen/Fn/ClientDataReceived.lean`) is written in.
The translated code runs directly on the model's state record `Cl.CSt` (`buffer` ↦ `buf`, `header_received` ↦
`headerReceived`, `status`); `_set_error`, `_parse_header` and `transport.close()` are the model's `setError`,
`parseHeader` and the `closeReq` flag; the decoded header text is represented by the bytes it was decoded from
(`_parse_header` is modelled on bytes), `decode` fails exactly when `env.utf8Ok` says so.
-/
namespace Cl

/-- `CRLF` -/
def crlf : Bytes := [13, 10]
/-- `CRLF in data` -/
def hasCRLF (b : Bytes) : Bool := (findCRLF b).isSome
/-- `data.split(CRLF, 1)` behind `CRLF in data` -/
def cutCRLF (b : Bytes) : Bytes × Bytes :=
  match findCRLF b with
  | some i => (b.take i, b.drop (i + 2))
  | none => (b, [])
/-- `data.find(CRLF)`: the index, or -1 -/
def findInt (b : Bytes) : Int :=
  match findCRLF b with
  | some i => (i : Int)
  | none => -1
/-- `header_line.decode("utf-8")` -/
def decodeE (env : Env) (b : Bytes) : Except Unit Bytes := if env.utf8Ok b then .ok b else .error ()
/-- `self.transport.close()` -/
def closeTransport (s : CSt) : CSt := { s with closeReq := true }
/-- `GeminiResponse(status=self.status, meta=self.meta, body=None, url=…)`: what a header line makes up, once a status is parsed -/
def headerResponse (s : CSt) : Option Fut := s.status.map (fun st => .response st s.mta none false)
/-- `self.response_future.set_result(r)` -/
def setResult (s : CSt) (r : Option Fut) : CSt :=
  match r with
  | some f => { s with fut := f }
  | none => s
/-- `len(t) == 2 and t.isascii() and t.isdigit()` -/
def twoDigits (t : Bytes) : Bool := (statusOf t).isSome
/-- `int(t)` of two ASCII digits -/
def intOf (t : Bytes) : Nat := (statusOf t).getD 0

end Cl
