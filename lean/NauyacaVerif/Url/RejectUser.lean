import NauyacaVerif.Url.RejectFrag
import NauyacaVerif.Url.Canon

/-! C08: the user-info clause of the must-reject specification, on the raw (clean) line. -/
namespace Url

theorem rsplitOnce_hit {c : Char} {a b : Str} (h : c ∉ b) : rsplitOnce c (a ++ c :: b) = some (a, b) := by
  unfold rsplitOnce
  have hr : (a ++ c :: b).reverse = b.reverse ++ c :: a.reverse := by simp
  rw [hr, splitOnce_hit (by simpa using h)]
  simp

/-- where `findIdx` hits: the list splits there and the hit satisfies the predicate -/
theorem findIdx_split (p : Char → Bool) (l : Str) (i : Nat) (h : findIdx p l = some i) :
    ∃ c, l = l.take i ++ c :: l.drop (i + 1) ∧ p c = true := by
  induction l generalizing i with
  | nil => simp [findIdx] at h
  | cons d ds ih =>
    simp only [findIdx] at h
    split at h
    · rename_i hd; simp at h; subst h; exact ⟨d, by simp, hd⟩
    · simp at h; obtain ⟨j, hj, rfl⟩ := h
      obtain ⟨c, hc, hp⟩ := ih j hj
      exact ⟨c, by simp only [List.take_succ_cons, List.drop_succ_cons, List.cons_append]; rw [← hc], hp⟩

theorem splitOnce_decomp (c : Char) (s a b : Str) (h : splitOnce c s = some (a, b)) : s = a ++ c :: b := by
  unfold splitOnce at h
  cases hf : findIdx (· = c) s with
  | none => simp [hf] at h
  | some i =>
    simp only [hf, Option.some.injEq, Prod.mk.injEq] at h
    obtain ⟨d, hd, hp⟩ := findIdx_split (· = c) s i hf
    have : d = c := by simpa using hp
    rw [← h.1, ← h.2, ← this]; exact hd

/-- the credentials `urllib` reports for a user-info part: both empty only for `""` and `":"` -/
theorem userinfo_nonempty (ui rest : Str) (hr : '@' ∉ rest) (h1 : ui ≠ []) (h2 : ui ≠ [':']) :
    ((userinfo (ui ++ '@' :: rest)).1.getD []).length > 0 ∨ ((userinfo (ui ++ '@' :: rest)).2.getD []).length > 0 := by
  unfold userinfo
  rw [rsplitOnce_hit hr]
  simp only
  cases hs : splitOnce ':' ui with
  | none =>
    left
    simp only [Option.getD_some]
    exact List.length_pos_iff.mpr h1
  | some up =>
    obtain ⟨u, p⟩ := up
    simp only [Option.getD_some]
    have hdecomp := splitOnce_decomp ':' ui u p hs
    by_cases hu : u = []
    · by_cases hp : p = []
      · subst hu; subst hp; exact absurd hdecomp h2
      · right; exact List.length_pos_iff.mpr hp
    · left; exact List.length_pos_iff.mpr hu

theorem parseSplit_userinfo (env : Env) (sp : Split)
    (h : ((userinfo sp.netloc).1.getD []).length > 0 ∨ ((userinfo sp.netloc).2.getD []).length > 0) :
    ∃ e, parseSplit env sp = .error e := by
  unfold parseSplit
  by_cases h1 : sp.scheme.isEmpty = true
  · exact ⟨_, by rw [if_pos h1]⟩
  rw [if_neg h1]
  by_cases h2 : sp.scheme ≠ gemini
  · exact ⟨_, by rw [if_pos h2]⟩
  rw [if_neg h2]
  cases hh : hostname env sp.netloc with
  | none => exact ⟨_, rfl⟩
  | some host => exact ⟨_, by simp only; rw [if_pos h]⟩

/-- C08: a line whose authority carries non-empty credentials (`user@`, `user:pw@`, `:pw@`) is refused by
    `parse_url`, whatever the opaque checks say -/
theorem reject_userinfo (env : Env) (l : Str) (hc : CleanLine l) (ui rest : Str)
    (ha : authority l = ui ++ '@' :: rest) (hr : '@' ∉ rest) (h1 : ui ≠ []) (h2 : ui ≠ [':']) :
    ∃ e, parseUrl env l = .error e := by
  apply parseUrl_of_split env l (fun sp => sp.scheme ≠ gemini ∨ sp.netloc = [] ∨
    (((userinfo sp.netloc).1.getD []).length > 0 ∨ ((userinfo sp.netloc).2.getD []).length > 0))
  · intro sp hsp
    by_cases hs : sp.scheme = gemini
    · right
      have hsc := urlsplit_scheme env l hc sp hsp
      have hne : (splitScheme l).1 ≠ [] := by rw [← hsc, hs]; decide
      have hnl : sp.netloc = if (afterColon l).take 2 = ['/', '/'] then authority l else [] := by
        rw [urlsplit_netloc env l hc sp hsp, splitScheme_snd l hne, splitNetloc_fst]; rfl
      by_cases h2s : (afterColon l).take 2 = ['/', '/']
      · right
        rw [hnl, if_pos h2s, ha]
        exact userinfo_nonempty ui rest hr h1 h2
      · left; rw [hnl, if_neg h2s]
    · left; exact hs
  · intro sp hp
    rcases hp with hp | hp | hp
    · exact parseSplit_badScheme env sp hp
    · exact parseSplit_noHost env sp hp
    · exact parseSplit_userinfo env sp hp
end Url
