import NauyacaVerif.Mw.HistoryWindow
import NauyacaVerif.Gen.Params
import NauyacaVerif.Gen.MwParams

/-! # C10  Rate limiting bounds admitted requests per address in every window

Model (`Mw/Bucket.lean`): `consume` mirrors `TokenBucket.consume` over `Rat`; `request` mirrors
`RateLimiter.process_request` (per-address store, a missing bucket is created full); `cleanup` is one
pass of `RateLimiter._cleanup_loop`; a history is an arbitrary list of `req ip t` / `cleanup t` events
with non-decreasing times (`Mono`): any number of addresses, any interleaving, clean-up passes at any
times (in particular at the multiples of the real period).  `obsFor c a [] es` lists, for a fresh
limiter fed the history `es`, the pair (arrival time, admitted?) for every request of address `a`.
Every theorem holds for every configuration with `0 ≤ refill_rate`, `0 ≤ capacity` and for every
history, without length bound. -/

namespace NauyacaVerif.C10
open Mw

/-- a fresh bucket: what `TokenBucket.__init__` builds at time `t0` -/
def fresh (c : LCfg) (t0 : Rat) : Bucket := { tokens := c.cap, last := t0 }

/-- requests of `a` admitted at times within `[x, y]` along a history of a fresh limiter -/
def admittedIn (c : LCfg) (a : Ip) (es : List LEv) (x y : Rat) : Nat :=
  (obsFor c a [] es).countP (admitIn x y)

/-- `0 ≤ tokens ≤ capacity` along every time-ordered run of a bucket -/
theorem bucket_inv (c : LCfg) (hr : 0 ≤ c.rate) (hc : 0 ≤ c.cap) (t0 : Rat) (ts : List Rat) (hs : Sorted t0 ts) :
    0 ≤ (bucketAfter c (fresh c t0) ts).tokens ∧ (bucketAfter c (fresh c t0) ts).tokens ≤ c.cap :=
  bucket_inv_run c hr (fresh c t0) ts hs ⟨hc, le_refl _⟩

/-- the per-address view is exactly the part of the executable run `runL` that belongs to the address,
    paired with its arrival times (so the theorems below talk about what the driver computes) -/
theorem obs_is_run (c : LCfg) (a : Ip) (es : List LEv) :
    obsFor c a [] es = (timesOf a es).zip (((reqIps es).zip (runL c [] es)).filterMap (pick a)) := by
  rw [obsFor_zip, runL_decisionsFor]

/-- along any history — other addresses' traffic and clean-up passes included — the decisions for an
    address are exactly those of one private token bucket fed with its own requests -/
theorem private_bucket (c : LCfg) (hr : 0 ≤ c.rate) (a : Ip) (t0 : Rat) (es : List LEv) (hm : Mono t0 es) :
    obsFor c a [] es = bucketObs c (fresh c t0) (timesOf a es) :=
  obs_refines c hr a [] (fresh c t0) t0 es (by simp [Keys]) hm (sim_init c hr a t0)

/-- the number of requests admitted from one address in any time window `[x, y]` never exceeds
    `capacity + refill_rate × (y − x)` -/
theorem window_bound (c : LCfg) (hr : 0 ≤ c.rate) (hc : 0 ≤ c.cap) (a : Ip) (t0 : Rat) (es : List LEv)
    (hm : Mono t0 es) (x y : Rat) (hxy : x ≤ y) :
    (admittedIn c a es x y : Rat) ≤ c.cap + c.rate * (y - x) := by
  have := limiter_window c hr a [] (fresh c t0) t0 es (by simp [Keys]) hm (sim_init c hr a t0)
    ⟨hc, le_refl _⟩ x y hxy
  unfold admittedIn
  linarith

/-- the same with the window given by its start and its length `T` -/
theorem window_bound_length (c : LCfg) (hr : 0 ≤ c.rate) (hc : 0 ≤ c.cap) (a : Ip) (t0 : Rat) (es : List LEv)
    (hm : Mono t0 es) (x T : Rat) (hT : 0 ≤ T) :
    (admittedIn c a es x (x + T) : Rat) ≤ c.cap + c.rate * T := by
  have := window_bound c hr hc a t0 es hm x (x + T) (by linarith)
  have e : x + T - x = T := by ring
  rwa [e] at this

/-- a request is refused only when the address's allowance is exhausted (fewer than one token after
    the lazy refill; a full bucket when it holds none), and then the answer is the 44 line carrying the
    configured retry hint; an admitted request gets no line -/
theorem refuse_only_empty (c : LCfg) (s : Store) (ip : Ip) (t : Rat) (retry : Int) :
    ((request c s ip t).2 = false ↔ eff c s ip t < 1) ∧
    limiterResponse retry (request c s ip t).2 =
      (if eff c s ip t < 1 then some (Gen.rateLimitPrefix ++ intDigits retry ++ Gen.rateLimitSuffix) else none) := by
  have h := request_refused_iff c s ip t
  refine ⟨h, ?_⟩
  unfold limiterResponse rateLimitLine
  by_cases hl : eff c s ip t < 1
  · simp only [h.mpr hl, hl, ↓reduceIte, Bool.false_eq_true]
    rfl
  · have : (request c s ip t).2 = true := by
      cases hq : (request c s ip t).2 with
      | true => rfl
      | false => exact absurd (h.mp hq) hl
    simp only [this, hl, ↓reduceIte]

/-- traffic from other addresses never alters the outcome for an address: its decisions along the
    whole history equal its decisions when its own requests are replayed alone -/
theorem noninterference (c : LCfg) (hr : 0 ≤ c.rate) (a : Ip) (t0 : Rat) (es : List LEv) (hm : Mono t0 es) :
    decisionsFor c a [] (es.filter (fun e => match e with | .req ip _ => ip == a | .cleanup _ => false)) =
      decisionsFor c a [] es :=
  decisions_filter c hr a t0 es hm _ (fun t => by simp)

/-- background clean-up never hands an address more (or less) allowance: every decision is the same
    as in the history with the clean-up passes removed -/
theorem cleanup_refines (c : LCfg) (hr : 0 ≤ c.rate) (a : Ip) (t0 : Rat) (es : List LEv) (hm : Mono t0 es) :
    decisionsFor c a [] (es.filter (fun e => match e with | .req _ _ => true | .cleanup _ => false)) =
      decisionsFor c a [] es :=
  decisions_filter c hr a t0 es hm _ (fun t => by simp)

/-- one clean-up pass leaves every address's allowance at every later time unchanged
    (it evicts only buckets whose lazy refill has reached capacity) -/
theorem cleanup_keeps_allowance (c : LCfg) (hr : 0 ≤ c.rate) (s : Store) (hn : (Keys s).Nodup) (now : Rat)
    (ip : Ip) (t : Rat) (ht : now ≤ t) : eff c (cleanup c s now) ip t = eff c s ip t :=
  cleanup_eff c hr s hn now ip ht

/-! ### ties to the current source (extraction) -/

/-- the idle age of the model is the literal in `_cleanup_loop` -/
theorem age_tie : ({ cap := 0, rate := 0 } : LCfg).age = (Gen.cleanupAge : Rat) := by decide
/-- the period between clean-up passes (the theorems allow passes at any times; the harness places them
    at the multiples of this period) -/
theorem period_tie : Mw.cleanupPeriod = (Gen.cleanupPeriod : Rat) ∧ 0 < Gen.cleanupPeriod := by decide
/-- `_cleanup_loop` evicts only buckets that have refilled: without this `cleanup_keeps_allowance` is false -/
theorem evict_tie : Gen.evictOnlyRefilled = true := by decide
/-- no `await` inside `TokenBucket.consume` / `RateLimiter.process_request`: concurrent calls are
    serialised by the event loop, every schedule is one of the sequential histories above -/
theorem atomic_tie : Gen.limiterAtomic = true := by decide
/-- the refusal line of the model is the f-string of `RateLimiter.process_request` -/
theorem line_tie : rlPrefix = Gen.rateLimitPrefix ∧ rlSuffix = Gen.rateLimitSuffix ∧
    Gen.rateLimitHole = [114, 101, 116, 114, 121, 95, 97, 102, 116, 101, 114] := by decide

/-! ### non-vacuity -/
def c1 : LCfg := { cap := 2, rate := 1 / 2 }
def h1 : List LEv := [.req 1 0, .req 1 0, .req 1 0, .req 2 0, .cleanup 300, .req 2 300, .req 1 301, .req 1 301, .req 1 301]
example : Mono 0 h1 := by simp [Mono, evTime, h1]; norm_num
example : runL c1 [] h1 = [true, true, false, true, true, true, true, false] := by decide +kernel
example : admittedIn c1 1 h1 0 0 = 2 ∧ admittedIn c1 1 h1 0 301 = 4 ∧ admittedIn c1 1 h1 301 301 = 2 := by decide +kernel
example : (request c1 [] 1 0).2 = true ∧ (request c1 (request c1 (request c1 [] 1 0).1 1 0).1 1 0).2 = false := by decide +kernel
example : limiterResponse 30 false = some (rlPrefix ++ [51, 48] ++ rlSuffix) := by decide +kernel
/-- a slow refill (capacity / rate = 1024 s > idle age): the drained bucket is NOT evicted, the request after
    the clean-up pass is still refused -/
example : runL { cap := 1, rate := 1 / 1024 } [] [.req 1 0, .cleanup 900, .req 1 901] = [true, false] := by decide +kernel
end NauyacaVerif.C10
