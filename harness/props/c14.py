"""C14  Titan uploads change only the authorised target, exactly as sent

Correspondence: the real `FileUploadHandler.handle_upload` (family `direct`) and the real
`GeminiServerProtocol` on a fake transport fed with the Titan request line + content in chunks
(family `proto`), on a temporary tree (upload directory `uploads`, a prefix-sharing sibling
`uploads-evil`, an outside directory `out`, symlinks in all directions), with storage faults
injected into `nauyaca.server.handler`'s namespace (`sim/store_tree.py`), against `Fs.handleUpload`
/ `Fs.protoUpload` over the symlink-tree instance of the abstract OS.

Dimensions beyond request / tree / configuration: how the handler object is built (`via`: constructor, `ServerConfig(...)`,
`ServerConfig.from_toml(file)` -> `get_upload_handler()`), lists that hold only blank entries, storage that takes only the
first k bytes (`fsize`: the real kernel's short count under RLIMIT_FSIZE, besides the stand-in file object of `write`), and
the smallest size limits (0 = closed / delete-only, 1), entries NEXT TO the target whose name is derived from the target's name
(`neighbour`: ".NAME.upload", "NAME.part", "NAME~" ... as file, directory or link - they are not the target), and
time (`timing`: the request completes `lead` seconds after the connection was made, a middleware chain in front of the
handler answers after `mw` seconds, on a virtual clock; `stall`: the peer goes quiet past the request timeout).

Observation: response status + the difference between recursive snapshots (paths, types, link
targets, file bytes) of the WHOLE temporary area before and after the request.
"""
from __future__ import annotations

import asyncio
import os
import random
import shutil
import tempfile

from .. import core
from ..core import Family, cps
from ..sim import store_tree as T

ID = "C14"
READY = True
LEAN_TARGETS = ["NauyacaVerif.Props.C14"]
THEOREMS = [f"NauyacaVerif.C14.{t}" for t in
            ("upload_effects", "upload_target_canonical", "tree_target_resolved", "upload_confined", "upload_content", "upload_guarded", "success_guarded",
             "nonsuccess_no_change", "nonsuccess_no_dirs", "success_upload", "success_delete")]
LEAN_TARGETS = LEAN_TARGETS + ["NauyacaVerif.Props.Tr.UploadGate"]
TRANSLATED = ["uploadGate"]
THEOREMS = THEOREMS + ["NauyacaVerif.Translated.uploadGate_eq", "NauyacaVerif.Translated.handleUpload_gate"]
EXTRACT: list[str] = []
ASSUMPTIONS = [
    "that the target is fully resolved is no longer assumed of Path.resolve(): the handler checks realpath(target) == target and the theorems carry that fixpoint (upload_target_canonical); for the symlink-tree instance it is PROVED that such a fixpoint (reached without a loop) has no symlink among its prefixes and that the kernel-style walk ends at the target itself (tree_target_resolved)",
    "still assumed: the real kernel and os.path.realpath agree with the tree model (the port of posixpath._joinrealpath 3.12.1 and the kernel-style walk are tied to the real filesystem by this differential run only), i.e. an operation on a path without symlink components touches that path only",
    "no concurrent modification of the upload tree between resolve() and the write (single request at a time)",
    "the file map of the theorems is consistent with the OS (a path holding a file has an lstat entry): then the exclusively created temporary file never coincides with an existing entry; the harness pins secrets.token_hex and os.getpid-style names so that collisions ARE generated",
    "the Titan line is parsed by the URL model with an ASCII host; Python's int()/str.strip() are modelled on their ASCII + Unicode-whitespace fragment",
]
LEVEL_TEXT = "partial"
LEVEL_NOTE = ("theorems hold for every abstract OS, configuration, request and fault combination; the OS path-resolution contract is assumed and the "
              "executable tree port is only tested against the real filesystem, so the end-to-end claim is proof over the model + differential testing")
TECHNIQUE = ("Lean 4 proof over an effect-list model of FileUploadHandler (abstract OS, injected storage faults, file map replay) + differential "
             "testing of the real handler and protocol on temp trees with recursive before/after snapshots and fault injection")

UP = "uploads"
TOKEN = "s3cret"
TAG = "nvtmp"          # what secrets.token_hex returns inside the handler during a case
TMPNAME = "." + TAG + ".upload"
SAFE_NAMES = ["a", "b", "sub", "x y", "ü", "f.txt", "é%41", "d1", ".hid", "-n"]


# ----------------------------------------------------------------------------------------------
# running the real code
# ----------------------------------------------------------------------------------------------
def config_toml(updir: str, docroot: str, cfg: dict) -> str:
    """the deployment's configuration file for this upload configuration (written by hand: no TOML writer involved)"""
    import json

    def arr(xs):
        return "[" + ", ".join(json.dumps(x) for x in xs) + "]"

    lines = ["[server]", f"document_root = {json.dumps(docroot)}", "", "[titan]", "enabled = true", f"upload_dir = {json.dumps(updir)}",
             f"max_upload_size = {cfg['max']}", f"enable_delete = {'true' if cfg['delete'] else 'false'}"]
    if cfg["types"] is not None:
        lines.append(f"allowed_mime_types = {arr(cfg['types'])}")
    if cfg["tokens"] is not None:
        lines.append(f"auth_tokens = {arr(cfg['tokens'])}")
    return "\n".join(lines) + "\n"


def make_handler(base: str, cfg: dict, via: str = "ctor", up: str | None = None):
    """the upload handler for configuration `cfg`, built the way `via` says:
    ctor    FileUploadHandler(...) called directly
    config  ServerConfig(...).get_upload_handler()                    (what `nauyaca serve` does with its options)
    toml    ServerConfig.from_toml(<file>).get_upload_handler()       (what `nauyaca serve --config` does)"""
    hm = T.patch_handler_module()
    updir = os.path.join(base, up or UP)
    if via == "ctor":
        return hm.FileUploadHandler(upload_dir=updir, max_size=cfg["max"], allowed_types=cfg["types"],
                                    auth_tokens=set(cfg["tokens"]) if cfg["tokens"] is not None else None, enable_delete=cfg["delete"])
    from pathlib import Path

    from nauyaca.server.config import ServerConfig

    side = base + "-cfg"          # next to the observed area, not inside it
    os.makedirs(os.path.join(side, "capsule"), exist_ok=True)
    try:
        if via == "config":
            sc = ServerConfig(document_root=Path(side) / "capsule", enable_titan=True, titan_upload_dir=updir, titan_max_upload_size=cfg["max"],
                              titan_allowed_mime_types=None if cfg["types"] is None else list(cfg["types"]),
                              titan_auth_tokens=None if cfg["tokens"] is None else list(cfg["tokens"]), titan_enable_delete=cfg["delete"])
        else:
            f = os.path.join(side, "config.toml")
            with open(f, "w", encoding="utf-8") as fh:
                fh.write(config_toml(updir, os.path.join(side, "capsule"), cfg))
            sc = ServerConfig.from_toml(Path(f))
        h = sc.get_upload_handler()
    finally:
        shutil.rmtree(side, ignore_errors=True)
    if h is None:
        raise RuntimeError("the configuration enables Titan but yields no upload handler")
    return h


def run_direct(base: str, case: dict) -> str:
    from nauyaca.protocol.request import TitanRequest

    try:
        req = TitanRequest.from_line(case["line"])
    except ValueError:
        return "badline"
    req.content = bytes.fromhex(case["content"])
    try:
        h = make_handler(base, case["cfg"], case.get("via", "ctor"))
    except ValueError:
        return "noserver"      # the configuration layer refuses this configuration: no server, no request, no change
    T.set_fault(case.get("fault"), case.get("tag", TAG))
    try:
        resp = asyncio.run(h.handle_upload(req))
        return str(resp.status)
    except Exception:
        return "raised"
    finally:
        T.set_fault(None)


DENY_LINE = "53 Proxy request refused\r\n"


def run_proto(base: str, case: dict) -> str:
    from nauyaca.protocol.response import GeminiResponse
    from nauyaca.server.protocol import GeminiServerProtocol

    try:
        h = make_handler(base, case["cfg"], case.get("via", "ctor"))
    except ValueError:
        return "noserver"      # the configuration layer refuses this configuration: no server, no request, no change
    data = case["line"].encode("utf-8") + b"\r\n" + bytes.fromhex(case["content"])
    cuts = sorted(set(c for c in case.get("cuts", []) if 0 < c < len(data)))
    chunks = [data[i:j] for i, j in zip([0] + cuts, cuts + [len(data)])]
    tr = T.FakeTransport()

    stall = case.get("stall")
    timing = case.get("timing")
    hangup = case.get("hangup")       # None | k: the peer closes the connection k loop passes after its last piece was delivered

    class Chain:
        """a middleware chain that takes its time (a rate limiter's store, a certificate look-up, an access log on a slow disk)
        and then lets the request through - or refuses it"""

        async def process_request(self, url, ip, fp=None):
            if timing["mw"] > 0:
                await asyncio.sleep(timing["mw"])
            return (False, DENY_LINE) if timing.get("deny") else (True, None)

    async def settle(n=3):
        for _ in range(n):
            await asyncio.sleep(0)

    async def go():
        loop = asyncio.get_running_loop()
        proto = GeminiServerProtocol(lambda r: GeminiResponse(status=20, meta="text/gemini", body="x"), Chain() if timing else None, h)
        proto.connection_made(tr)
        for i, ch in enumerate(chunks):
            if stall is not None and i == stall + 1:
                # the peer goes quiet for longer than the request timeout before sending the rest; what it sends afterwards
                # still reaches data_received (sslproto's FLUSHING state reads once more after close())
                loop.advance(31)
                await settle()
            if timing and i == len(chunks) - 1 and timing["lead"] > 0:
                # the request trickles in: its last piece arrives `lead` seconds after the connection was made
                for _ in range(4):
                    loop.advance(timing["lead"] / 4)
                    await settle()
            proto.data_received(ch)
            if hangup is not None and i == len(chunks) - 1:
                # the peer does not wait for the answer: it closes right after its last piece (the chain / the upload task may
                # still be queued); nothing can be delivered to it any more, but whatever is stored must be what it sent
                await settle(hangup)
                proto.connection_lost(None)
                lost.append(True)
            await settle()
        if timing:
            # time passes (in half-second steps) until the chain and the handler have certainly finished and every timer has fired
            horizon = timing["lead"] + max(timing["mw"], 31.0) + 5
            while loop.time() < horizon:
                loop.advance(0.5)
                await settle(6)
        for _ in range(30):
            if tr.closed:
                break
            await asyncio.sleep(0)
        if not lost:
            proto.connection_lost(None)

    lost: list = []
    T.set_fault(case.get("fault"), case.get("tag", TAG))
    try:
        if stall is None and not timing:
            asyncio.run(go())
        else:
            from ..sim.srv import VLoop
            loop = VLoop()
            try:
                loop.run_until_complete(go())
            finally:
                loop.close()
    finally:
        T.set_fault(None)
    if not tr.out:
        return "pending"
    return tr.out[0][:2].decode("latin-1")


# ----------------------------------------------------------------------------------------------
# an independent reading of the request line (for the direct oracle only)
# ----------------------------------------------------------------------------------------------
def line_params(line: str) -> dict:
    """every value given for each parameter name after the first ';' (names and values stripped)"""
    out: dict = {}
    if ";" not in line:
        return out
    for part in line.split(";")[1:]:
        if "=" in part:
            k, v = part.split("=", 1)
            out.setdefault(k.strip(), []).append(v.strip())
    return out


def declared_sizes(line: str) -> list[int]:
    out = []
    for v in line_params(line).get("size", []):
        try:
            out.append(int(v))
        except ValueError:
            pass
    return out


def denoted(base: str, up: str, line: str):
    """what the path of the request line denotes according to the operating system (relative to `base`), if that lies inside
    the upload directory `up`; None otherwise"""
    try:
        from nauyaca.protocol.request import TitanRequest

        p = TitanRequest.from_line(line).path
        full = os.path.realpath(os.path.join(base, up, p.lstrip("/")))
        for _ in range(8):          # realpath (non-strict) can stop short of a fixpoint: iterate
            nxt = os.path.realpath(full)
            if nxt == full:
                break
            full = nxt
        root = os.path.realpath(os.path.join(base, up))
        if full == root or full.startswith(root + "/"):
            return os.path.relpath(full, base)
    except Exception:
        pass
    return None


class UploadFamily(Family):
    mode = "direct"

    def impl(self, case):
        T.patch_handler_module()
        base = tempfile.mkdtemp(prefix="nv-")
        try:
            T.build(base, case["tree"])
            before = T.snapshot(base)
            if before != T.sim_build(case["tree"]):
                raise RuntimeError("tree builder and its pure version disagree")
            # what the path denotes according to the operating system, before anything happens
            rel = None
            try:
                from nauyaca.protocol.request import TitanRequest

                p = TitanRequest.from_line(case["line"]).path
                full = os.path.realpath(os.path.join(base, UP, p.lstrip("/")))
                for _ in range(8):          # realpath (non-strict) can stop short of a fixpoint: iterate
                    nxt = os.path.realpath(full)
                    if nxt == full:
                        break
                    full = nxt
                root = os.path.join(base, UP)
                if full == root or full.startswith(root + "/"):
                    rel = os.path.relpath(full, base)
            except Exception:
                rel = None
            status = run_direct(base, case) if self.mode == "direct" else run_proto(base, case)
            after = T.snapshot(base)
            obs = {"status": status, "diff": T.diff(before, after), "denotes": rel}
            if case.get("hangup") is not None:
                obs["hung"] = True
            return obs
        finally:
            shutil.rmtree(base, ignore_errors=True)

    # ---- model ------------------------------------------------------------------------------
    def model(self, case):
        if case.get("nomodel"):
            return None
        ents = []
        fid = 1
        st = T.sim_build(case["tree"])
        for p, node in st.items():
            if node[0] == "d":
                ents.append(f"d:{p}")
            elif node[0] == "f":
                ents.append(f"f:{p}:{fid}")
                fid += 1
            else:
                ents.append(f"l:{p}:{node[1]}")
        cfg = case["cfg"]

        def lst(x):
            if x is None:
                return "N"
            if not x:
                return "E"
            return "|".join(cps(v) for v in x)

        f = case.get("fault")
        if f and f[0] == "fsize" and declared_sizes(case["line"]) and f[1] >= declared_sizes(case["line"])[-1]:
            f = None          # room for everything that will be stored: no fault at all
        cfgs = ";".join([str(cfg["max"]), lst(cfg["types"]), lst(sorted(set(cfg["tokens"])) if cfg["tokens"] else []), str(int(cfg["delete"])), case.get("tag", TAG)])
        # (`fsize`: storage takes the first k bytes only - for the model the same as a write that fails after k bytes)
        fs = "-" if not f else {"mkdir": f"mkdir:{f[1] if len(f) > 1 else 0}", "write": f"write:{f[1] if len(f) > 1 else 0}", "open": "open",
                                "rename": "rename", "unlink": "unlink", "fsize": f"write:{f[1] if len(f) > 1 else 0}"}[f[0]]
        return "\t".join(["upload", self.mode, ";".join(ents), cfgs, cps(case["line"]), case["content"] or "-", fs])

    def expect(self, case, out):
        if not out.startswith("ok "):
            return {"model": out}
        _, status, effs = out.split(" ")
        st = dict(T.sim_build(case["tree"]))
        before = dict(st)
        if effs != "-":
            for e in effs.split(";"):
                f = e.split(":")
                if f[0] == "mk":
                    st[core.uncps(f[1])] = ["d"]
                elif f[0] == "wt":
                    st[core.uncps(f[1])] = ["f", "" if f[2] == "-" else f[2]]
                elif f[0] == "rn":
                    if f[3] == "1":
                        st[core.uncps(f[2])] = st.pop(core.uncps(f[1]))
                elif f[0] == "ul":
                    if f[2] == "1":
                        st.pop(core.uncps(f[1]), None)
                elif f[0] == "rd":
                    st.pop(core.uncps(f[1]), None)
        if status == "raised" and self.mode == "proto":
            status = "40"
        return {"status": status, "diff": T.diff(before, st)}

    def same(self, expected, obs):
        return expected.get("status") == obs.get("status") and expected.get("diff") == obs.get("diff")

    # ---- the property, evaluated directly ---------------------------------------------------
    def oracle(self, case, obs):
        diff, status = obs["diff"], obs["status"]
        before = obs["before"] if "before" in obs else T.sim_build(case["tree"])
        up = case.get("up", UP)          # the upload directory of the handler that got the request
        line, cfg = case["line"], case["cfg"]
        buf = bytes.fromhex(case["content"])
        desc = f"{line!r} (status {status}, fault {case.get('fault')})"
        if case.get("hangup") is not None:
            desc += (f" [the peer closed the connection {case['hangup']} loop passes after its last piece ({len(buf)} content bytes sent in all) "
                     f"without waiting for the answer]")
            if status == "pending":
                # no answer could be delivered. The request was either not carried out (no change at all) or it was carried out:
                # then everything the property says about a carried-out request holds - guarded, the one target, exactly the bytes sent
                if not diff:
                    return None
                status = "20"
        if case.get("fault") and case["fault"][0] == "fsize":
            desc += f" [storage has room for {case['fault'][1]} bytes of the file: the kernel stores those and reports a short count]"
        if case.get("via", "ctor") != "ctor":
            desc += f" [handler built via {case['via']} from max={cfg['max']} types={cfg['types']!r} tokens={cfg['tokens']!r} delete={cfg['delete']}]"
        if case.get("timing"):
            tm = case["timing"]
            desc += (f" [request complete {tm['lead']} s after the connection was made, middleware chain "
                     f"{'refuses' if tm.get('deny') else 'allows'} after {tm['mw']} s]")
        outside = [d for d in diff if not (d[1] == up or d[1].startswith(up + "/"))]
        if outside:
            return ("outside-upload-dir", f"{desc} changed something outside the upload directory: {outside[:3]!r}")
        def tmpname(p):
            n = p.rsplit("/", 1)[-1]
            return n.startswith(".") and n.endswith(".upload")

        pre_tmp = [d for d in diff if d[1] in before and tmpname(d[1]) and d[1] != obs.get("denotes")]
        if pre_tmp:
            return ("temp-name-collision", f"{desc} altered an existing entry that happens to carry the handler's temporary name: {pre_tmp[:2]!r}")
        if status != "20":
            if not diff:
                return None
            if all(d[0] == "+d" for d in diff):
                return ("nonsuccess-left-directories", f"{desc} was refused/failed but left new directories behind: {[d[1] for d in diff]!r}")
            if any(d[0] in ("~f", "-", "~") for d in diff):
                return ("nonsuccess-damaged-file", f"{desc} was refused/failed but altered existing entries: {[d[:2] for d in diff if d[0] in ('~f', '-', '~')]!r}")
            if any(d[0] == "+f" and d[1].endswith(".upload") for d in diff):
                return ("nonsuccess-left-temp-file", f"{desc} was refused/failed but left a temporary file: {[d[1] for d in diff]!r}")
            return ("nonsuccess-created-file", f"{desc} was refused/failed but created {[d[:2] for d in diff]!r}")
        # ---- success: who was allowed to do what
        params = line_params(line)
        sizes = declared_sizes(line)
        if cfg["tokens"]:
            if not any(t and t in cfg["tokens"] for t in params.get("token", [])):
                return ("unauthorised-change", f"{desc} succeeded without a valid token (configured: yes)")
        if cfg["types"]:
            mimes = params.get("mime", []) or ["text/gemini"]
            if not any(m in cfg["types"] for m in mimes):
                return ("type-not-allowed", f"{desc} succeeded with media type {mimes!r}, allowed {cfg['types']!r}")
        if not any(s <= cfg["max"] for s in sizes):
            return ("oversize-accepted", f"{desc} succeeded with declared sizes {sizes!r}, limit {cfg['max']}")
        den = obs.get("denotes")
        files = [d for d in diff if d[0] != "+d"]
        dirs = [d[1] for d in diff if d[0] == "+d"]
        if 0 in sizes and not any(s > 0 for s in sizes) or (0 in sizes and files and files[0][0] == "-"):
            # delete
            if not cfg["delete"]:
                return ("delete-while-disabled", f"{desc}: zero-byte request succeeded although deletion is disabled")
            if len(files) != 1 or files[0][0] != "-" or files[0][2] != "f" or dirs:
                return ("success-extra-changes", f"{desc}: a delete changed {diff!r}")
            if den is None or files[0][1] != den:
                return ("success-wrong-target", f"{desc}: deleted {files[0][1]!r}, the path denotes {den!r}")
            return None
        # upload
        if den is None:
            return ("success-wrong-target", f"{desc}: success although the path denotes nothing inside the upload directory; changes {diff!r}")
        want = [buf[:s].hex() for s in sizes if 0 < s <= cfg["max"] and len(buf) >= s]
        for d in dirs:
            if not (den.startswith(d + "/")):
                return ("success-extra-changes", f"{desc}: created directory {d!r}, not an ancestor of the target {den!r}")
        if len(files) > 1:
            return ("success-extra-changes", f"{desc}: more than one file changed: {[f[:2] for f in files]!r}")
        if files:
            f = files[0]
            if f[1] != den:
                return ("success-wrong-target", f"{desc}: wrote {f[1]!r}, the path denotes {den!r}")
            if f[0] not in ("+f", "~f"):
                return ("success-extra-changes", f"{desc}: target changed as {f!r}")
            if f[2] not in want:
                return ("success-wrong-content", f"{desc}: stored {f[2][:40]!r}…, expected the first declared-size bytes after the request line {[w[:40] for w in want]!r}")
        else:
            cur = before.get(den)
            if not cur or cur[0] != "f" or cur[1] not in want:
                return ("success-wrong-content", f"{desc}: success reported but the target {den!r} does not hold the declared bytes")
        return None

    def key(self, case, obs):
        f = case.get("fault")
        d = obs["diff"]
        kind = "none" if not d else "+".join(sorted(set(x[0] for x in d)))
        blank = bool(case["cfg"]["tokens"]) and not any(t.strip() for t in case["cfg"]["tokens"])
        tm = case.get("timing")
        tms = "" if not tm else f" lead={int(tm['lead'])} mw={'<' if tm['lead'] + tm['mw'] < 30 else '>'}30{'deny' if tm.get('deny') else ''}"
        hs = "" if case.get("hangup") is None else f" hangup={case['hangup']}"
        return f"{self.mode} {obs['status']} {case.get('cls', '?')} fault={f[0] if f else '-'} diff={kind} via={case.get('via', 'ctor')}{' blanktok' if blank else ''}{tms}{hs}"


# ----------------------------------------------------------------------------------------------
# generators
# ----------------------------------------------------------------------------------------------
def hexs(b: bytes) -> str:
    return b.hex()


def gen_tree(rng: random.Random):
    ents = [["d", UP], ["d", "uploads-evil"], ["d", "out"], ["f", "out/secret", hexs(b"SECRET")], ["f", "uploads-evil/e", hexs(b"EVIL")]]
    dirs = [UP]
    for _ in range(rng.randint(0, 10)):
        parent = rng.choice(dirs)
        name = rng.choice(SAFE_NAMES)
        p = parent + "/" + name
        if any(e[1] == p for e in ents):
            continue
        depth = parent.count("/") + 1          # uploads = 1
        k = rng.random()
        if k < 0.25:
            ents.append(["d", p])
            dirs.append(p)
        elif k < 0.6:
            ents.append(["f", p, hexs(("OLD-" + name).encode() * rng.choice([1, 1, 40]))])
        else:
            tk = rng.random()
            if tk < 0.2:
                tgt = rng.choice(SAFE_NAMES)                                  # sibling (inside)
            elif tk < 0.35:
                tgt = "/" + rng.choice(dirs + [e[1] for e in ents if e[1].startswith(UP)])   # absolute, inside
            elif tk < 0.5:
                tgt = "/out" if rng.random() < 0.5 else "/out/secret"         # absolute, outside
            elif tk < 0.62:
                tgt = "../" * depth + rng.choice(["out", "out/secret", "uploads-evil", "uploads-evil/e"])   # relative, outside
            elif tk < 0.7:
                tgt = "/uploads-evil"
            elif tk < 0.78:
                tgt = name                                                    # self loop
            elif tk < 0.86:
                tgt = "nonexistent" if rng.random() < 0.5 else "/out/newfile"  # dangling (inside / outside)
            elif tk < 0.93 and depth >= 2:
                tgt = ".."                                                    # parent (inside)
            else:
                tgt = "."
            ents.append(["l", p, tgt])
    if rng.random() < 0.2:
        # pseudo-loop: a link whose target lexically passes through the link itself; Path.resolve() (non-strict) then
        # hands back a path in which the following component is left unresolved - combined with a second link
        d = rng.choice(dirs)
        depth = d.count("/") + 1
        n, x = rng.choice([("p", "dd"), ("a", "d1"), ("q", "ev")])
        if not any(e[1] in (d + "/" + n, d + "/" + x) for e in ents):
            k = rng.random()
            if k < 0.3:
                second, tail = "../" * depth + "out", "/secret"                       # directory link to outside
            elif k < 0.5:
                second, tail = "../" * depth + "out/secret", ""                       # file link to outside
            elif k < 0.65:
                second, tail = "/uploads-evil", "/e"
            elif k < 0.8:
                second, tail = "/" + rng.choice(dirs), "/" + rng.choice(SAFE_NAMES)   # directory link to inside
            else:
                inside_files = [e[1] for e in ents if e[0] == "f" and e[1].startswith(UP + "/")]
                second, tail = ("/" + rng.choice(inside_files) if inside_files else "nonexistent"), ""   # file link to inside
            ents.append(["l", d + "/" + n, rng.choice(["./", ""]) + n + "/../" + x + tail])
            ents.append(["l", d + "/" + x, second])
    if rng.random() < 0.12:                                   # something already carries the temporary name
        d = rng.choice(dirs)
        k = rng.random()
        ents.append(["f", d + "/" + TMPNAME, hexs(b"PRECIOUS")] if k < 0.4 else ["d", d + "/" + TMPNAME] if k < 0.55 else
                    ["l", d + "/" + TMPNAME, rng.choice(["/out/secret", "/out/via-temp-link", "nonexistent", "/uploads-evil/e"])])
    return ents


def gen_path(rng: random.Random, ents) -> tuple[str, str]:
    inside = [e[1][len(UP):] for e in ents if e[1].startswith(UP + "/")]
    links = [e[1][len(UP):] for e in ents if e[0] == "l" and e[1].startswith(UP + "/")]
    dirs = [e[1][len(UP):] for e in ents if e[0] == "d" and e[1].startswith(UP + "/")]
    r = rng.random()
    if r < 0.16:
        return rng.choice(["/new.txt", "/n2", "/ü.gmi", "/sp ace", "/a", "/b", "/f.txt"]), "plain"
    if r < 0.28 and inside:
        return rng.choice(inside), "existing"
    if r < 0.36:
        return rng.choice(["/nd/f", "/nd/deep/er/f", "/sub/new", "/d1/x/y"] + [d + "/nf" for d in dirs]), "newdirs"
    if r < 0.46:
        return rng.choice(["/../out/secret", "/../uploads-evil/e", "/../uploads-evil/new", "/../../etc/nv-x", "/sub/../../out/secret", "/..", "/../", "/a/../..",
                           "/../uploads/a", "/./../out/new", "//../out/secret", "/../out/../uploads-evil/e", "/../uploads-evil"]), "traversal"
    if r < 0.52:
        return rng.choice(["/%2e%2e/out/secret", "/..%2fout%2fsecret", "/%2e%2e", "/a%2fb", "/%61", "/a%00b", "/%2E%2E/%2E%2E/x"]), "percent"
    if r < 0.58:
        return rng.choice(["//etc/nv-abs", "///out/secret", "//", "/uploads/x", "//uploads-evil/e"]), "absolute"
    if r < 0.72 and links:
        l = rng.choice(links)
        return rng.choice([l, l + "/f", l + "/secret", l + "/new/f", l + "/../f", l + "/e", l + "/"]), "symlink"
    if r < 0.79:
        return rng.choice(["", "/", "/.", "/./", "//./", "/sub/.."] + [d + "/.." for d in dirs]), "root"
    if r < 0.85 and dirs:
        return rng.choice(dirs) + rng.choice(["", "/"]), "directory"
    if r < 0.95:
        return rng.choice(["/nul\x00x", "/a:b", "/back\\slash", "/\x7f", "/tab\tx", "/nl\nx", "/sp  ace ", "/q?x=1", "/日本/語", "/" + "n" * 255, "/" + "n" * 256,
                           "/" + "n" * 244, "/nd2/" + "n" * 250, "/" + "d" * 300 + "/f", "/nd3/" + "d" * 256 + "/f", "/" + "é" * 127, "/" + "é" * 128, "/a|b", "/*",
                           "/.a.$PID.upload", "/‮", "/a\u0000", "/-", "/~", "/a;b"]), "odd"
    segs = [rng.choice(SAFE_NAMES + ["..", ".", "", "nw"]) for _ in range(rng.randint(1, 4))]
    return "/" + "/".join(segs), "random"


def gen_request(rng: random.Random, ents, proto: bool):
    # (lists that hold nothing but blank entries - an unset "${TITAN_TOKEN}" of a deployment template, a revoked token blanked
    # out - are still lists: tokens ARE configured and no request can present one of them)
    # (a limit of 0 is a legal configuration - a drop box that is closed, or open for deletions only: every non-empty upload is over it)
    cfg = {"max": rng.choice([8, 8, 16, 100, 2000, 8, 16, 100, 2000, 20000, 0, 0, 1]),
           "types": rng.choice([None, None, None, None, None, None, [], ["text/plain"], ["text/plain"], ["text/gemini", "text/plain"], ["image/png"],
                                ["image/png"], [""], [" "], ["", "text/plain"]]),
           "tokens": rng.choice([None, None, None, None, None, None, [], [TOKEN], [TOKEN], [TOKEN], ["", TOKEN], ["t1", "t2"], ["t1", "t2"],
                                 [""], [" "], ["", " "], ["\t"]]),
           "delete": rng.random() < 0.65}
    path, cls = gen_path(rng, ents)
    path = T.subst(path)
    mx = cfg["max"]
    size = rng.choice([1, 3, mx - 1, mx, mx, mx + 1, 0, 0, 0, 5, mx // 2, 7])
    size = max(size, 0)
    params = []
    sr = rng.random()
    if sr < 0.86:
        params.append(f"size={size}")
    elif sr < 0.9:
        params += [f"size={mx + 5}", f"size={size}"]                  # duplicated: the last one counts
        cls += "+dupsize"
    elif sr < 0.93:
        params += [f"size={size}", f"size={mx + 5}"]
        cls += "+dupsize"
    elif sr < 0.96:
        params.append(rng.choice([f" size = {size} ", f"size=+{size}", f"size=0{size}", f"size={size}_0" if size else "size=0_0"]))
        cls += "+oddsize"
    else:
        params.append(rng.choice(["size=-1", "size=abc", "size=", "Size=3", "size=1.5", "sizes=3", "size=0x10", "size=1e3"]))
        cls += "+badsize"
    mr = rng.random()
    if mr < 0.45:
        pass
    elif mr < 0.75:
        params.append("mime=text/plain")
    elif mr < 0.85:
        params.append("mime=image/png")
    elif mr < 0.92:
        params += ["mime=image/png", "mime=text/plain"]
    elif mr < 0.96:
        params.append(rng.choice(["mime= text/plain ", "mime=", "MIME=text/plain", "mime=text/gemini"]))
    else:
        # near misses of an allowed entry: extension, proper prefix, differing case, an encoded parameter, a path-like tail
        base = rng.choice(cfg["types"] or ["text/plain"])
        params.append("mime=" + rng.choice([base + "x", base + "+php", base + "%3Bcharset=utf-8", base + "/../x", base[:-1], base.split("/")[0], base.upper(),
                                             base + " ", "x" + base, base + "/", "*/*", base.split("/")[0] + "/*"]))
        cls += "+nearmime"
    tr = rng.random()
    want_tok = bool(cfg["tokens"])
    if tr < (0.6 if want_tok else 0.2):
        params.append("token=" + rng.choice(cfg["tokens"] or [TOKEN]))
        cls += "+tok"
    elif tr < 0.65:
        cls += "+notok"
    elif tr < 0.75:
        good = (cfg["tokens"] or [TOKEN])[-1] or TOKEN
        # wrong in every way a sloppy comparison might let through: unrelated, proper prefix (down to one character),
        # extension, differing case, differing only in the last character
        params.append("token=" + rng.choice(["wrong", good[:1], good[:-1], good + "x", good + good, good.upper(), good[:-1] + "_", " " + good[1:]]))
        cls += "+badtok"
    elif tr < 0.8:
        params.append("token=")
        cls += "+emptytok"
    elif tr < 0.87:
        params += [f"token={TOKEN}", "token=" + rng.choice(["wrong", TOKEN[:1], TOKEN[:-1], TOKEN + "x"])]
        cls += "+duptok"
    elif tr < 0.94:
        params += ["token=wrong", f"token={TOKEN}"]
        cls += "+duptok"
    else:
        params.append(rng.choice([f"token = {TOKEN} ", f"Token={TOKEN}", f"token=={TOKEN}", f"xtoken={TOKEN}", f"token={TOKEN};"]))
        cls += "+oddtok"
    rng.shuffle(params) if rng.random() < 0.3 else None
    line = "titan://h" + path + ";" + ";".join(params)
    sizes = declared_sizes(line)
    eff = sizes[-1] if sizes else size
    body = rng.randbytes(min(max(eff, 0), 20000))
    return cfg, line, body, eff, cls


def gen_fault(rng: random.Random, size: int):
    r = rng.random()
    if r < 0.62:
        return None
    if size == 0:
        return ["unlink"] if r < 0.9 else ["rename"]
    if r < 0.72:
        return ["write", rng.choice([0, 1, max(size // 2, 0), max(size - 1, 0)])]
    if r < 0.8:
        # the storage has room for k < size bytes
        ks = [k for k in (0, 1, 1, size // 2, size - 1, size - 1) if 0 <= k < size]
        return ["fsize", rng.choice(ks)] if ks else ["write", 0]
    if r < 0.85:
        return ["open"]
    if r < 0.93:
        return ["rename"]
    return ["mkdir", rng.choice([0, 0, 1, 2])]


# names a program might give to a working copy / a leftover of the file NAME it is about to store (editors, download managers,
# an upload handler that derives its temporary name from the target): they are other people's entries, not the target
NEIGHBOUR_NAMES = [".{n}.upload", ".{n}.upload", ".{n}.upload", ".{n}.tmp", "{n}.tmp", "{n}.upload", "{n}.part", "{n}~", ".{n}.swp", ".{n}", "{n}.new",
                   ".{n}.$PID.upload", "{n}.bak", ".#{n}", "#{n}#", ".{n}.lock"]


def neighbour_entries(rng: random.Random, ents, line: str):
    """tree entries that sit NEXT TO what the request line names and carry a name derived from its name (appended to the
    tree description, so an entry that cannot exist - missing parent, name taken - is simply skipped by the builder)"""
    path = line[len("titan://h"):].split(";", 1)[0]
    segs = [s for s in path.split("/") if s not in ("", ".")]
    if not segs or ".." in segs or any(c in ":;|%\\?" or not c.isprintable() for s in segs for c in s):
        return []
    name = rng.choice(NEIGHBOUR_NAMES).replace("{n}", segs[-1])
    if len(name.encode("utf-8")) > 240:
        return []
    parent = "/".join([UP] + segs[:-1])
    if T.sim_build(ents).get(parent) != ["d"]:
        return []          # (a directory the request would create is empty; one behind a link is covered by the fixed cases)
    p = parent + "/" + name
    k = rng.random()
    if k < 0.4:
        return [["f", p, hexs(b"PRECIOUS")]]
    if k < 0.5:
        return [["d", p]]
    if k < 0.6:
        return [["d", p], ["f", p + "/kept", hexs(b"PRECIOUS")]]
    return [["l", p, rng.choice(["/out/secret", "/out/secret", "/out/via-temp-link", "nonexistent", "/uploads-evil/e", "a", "/out"])]]


VIAS = ["ctor", "ctor", "config", "toml"]
LEADS = [0, 0, 10, 25, 29]                                     # seconds; the request timeout is 30 s from connection_made
CHAIN_DELAYS = [0, 0.25, 4.75, 19.75, 28.5, 31.25, 45, 100]    # seconds; never ending on the deadline itself


FIXED_TREE = [["d", UP], ["d", "uploads-evil"], ["d", "out"], ["f", "out/secret", hexs(b"SECRET")], ["f", "uploads-evil/e", hexs(b"EVIL")],
              ["f", "uploads/a", hexs(b"OLD-a")], ["d", "uploads/sub"], ["l", "uploads/lout", "/out"], ["l", "uploads/lin", "sub"],
              ["l", "uploads/lsec", "../out/secret"], ["l", "uploads/dang", "/out/created-through-link"]]
OPEN = {"max": 100, "types": None, "tokens": None, "delete": True}
# links whose target passes through the link itself (p, q, r, s), each combined with a second link
PSEUDO_TREE = FIXED_TREE + [["d", "uploads/g"],
                            ["l", "uploads/g/p", "./p/../d/secret"], ["l", "uploads/g/d", "../../out"],          # directory link to outside
                            ["l", "uploads/g/q", "./q/../evil"], ["l", "uploads/g/evil", "../../out/secret"],    # file link to outside
                            ["l", "uploads/g/r", "r/../din/x"], ["l", "uploads/g/din", "../sub"],                # directory link to inside
                            ["l", "uploads/g/s", "./s/../fin"], ["l", "uploads/g/fin", "../a"],                  # file link to inside
                            ["l", "uploads/g/t", "./t/../gone/x"]]                                                # nothing behind it


def fixed_cases(mode: str):
    c = hexs(b"NEWDATA")
    out = [
        ("titan://h/a;size=7", c, None, "existing"), ("titan://h/new;size=7", c, None, "plain"), ("titan://h/nd/x/f;size=7", c, None, "newdirs"),
        ("titan://h/a;size=7", c, ["write", 3], "existing"), ("titan://h/a;size=7", c, ["write", 0], "existing"), ("titan://h/a;size=7", c, ["rename"], "existing"),
        ("titan://h/nd/x/f;size=7", c, ["write", 3], "newdirs"), ("titan://h/nd/x/f;size=7", c, ["mkdir", 1], "newdirs"),
        ("titan://h/lout/secret;size=7", c, None, "symlink"), ("titan://h/lsec;size=7", c, None, "symlink"), ("titan://h/dang;size=7", c, None, "symlink"),
        ("titan://h/lin/f;size=7", c, None, "symlink"), ("titan://h/../uploads-evil/e;size=7", c, None, "traversal"), ("titan://h/;size=7", c, None, "root"),
        ("titan://h;size=7", c, None, "root"), ("titan://h/sub;size=7", c, None, "directory"), ("titan://h/a;size=0", "", None, "existing"),
        ("titan://h/a;size=0", "", ["unlink"], "existing"), ("titan://h/lsec;size=0", "", None, "symlink"), ("titan://h/lin;size=0", "", None, "symlink"),
        ("titan://h/;size=0", "", None, "root"), ("titan://h/sub;size=0", "", None, "directory"), ("titan://h/nd/" + "n" * 250 + ";size=7", c, None, "odd"),
    ]
    for line, content, fault, cls in out:
        yield {"tree": FIXED_TREE, "cfg": OPEN, "line": line, "content": content, "fault": fault, "cls": cls + "+fixed"}
    yield {"tree": FIXED_TREE, "cfg": {"max": 100, "types": None, "tokens": [TOKEN], "delete": False}, "line": "titan://h/a;size=7;token=", "content": c, "fault": None, "cls": "existing+emptytok+fixed"}
    for bad in (TOKEN[:1], TOKEN[:-1], TOKEN + "x", TOKEN + ";token=" + TOKEN[:1], "x" + TOKEN, TOKEN.upper()):
        for sz, body in ((7, c), (0, "")):
            yield {"tree": FIXED_TREE, "cfg": {"max": 100, "types": None, "tokens": [TOKEN, "other-token"], "delete": True},
                   "line": f"titan://h/a;size={sz};token={bad}", "content": body, "fault": None, "cls": "existing+badtok+fixed"}
    yield {"tree": FIXED_TREE, "cfg": {"max": 100, "types": None, "tokens": [TOKEN], "delete": False}, "line": "titan://h/a;size=0;token=" + TOKEN, "content": "", "fault": None, "cls": "existing+tok+fixed"}
    for name in ("p", "q", "r", "s", "t", "p/x", "d/secret", "din/x", "fin"):
        yield {"tree": PSEUDO_TREE, "cfg": OPEN, "line": f"titan://h/g/{name};size=7", "content": c, "fault": None, "cls": "pseudoloop+fixed"}
        yield {"tree": PSEUDO_TREE, "cfg": OPEN, "line": f"titan://h/g/{name};size=0", "content": "", "fault": None, "cls": "pseudoloop+fixed"}
    # token / media-type lists that hold only blank entries, handler built by the configuration layer: nothing may get through
    for toks in ([""], [" "], ["", " "]):
        for via in ("ctor", "config", "toml"):
            for line, body in (("titan://h/a;size=7", c), ("titan://h/a;size=7;token=", c), ("titan://h/nd/new;size=7;token=guess", c), ("titan://h/a;size=0", "")):
                yield {"tree": FIXED_TREE, "cfg": {"max": 100, "types": None, "tokens": toks, "delete": True}, "line": line, "content": body, "fault": None,
                       "cls": "existing+blanktok+fixed", "via": via}
    for via in ("ctor", "config", "toml"):
        yield {"tree": FIXED_TREE, "cfg": {"max": 100, "types": [""], "tokens": None, "delete": True}, "line": "titan://h/a;size=7", "content": c, "fault": None,
               "cls": "existing+blanktype+fixed", "via": via}
        yield {"tree": FIXED_TREE, "cfg": {"max": 100, "types": ["text/plain"], "tokens": [TOKEN], "delete": True}, "line": "titan://h/a;size=7;mime=text/plain;token=" + TOKEN,
               "content": c, "fault": None, "cls": "existing+tok+fixed", "via": via}
    # storage that takes only the first k bytes (the kernel reports a short count, the error would come with the next write)
    for k in (0, 1, 3, 6):
        yield {"tree": FIXED_TREE, "cfg": OPEN, "line": "titan://h/a;size=7", "content": c, "fault": ["fsize", k], "cls": "existing+fixed"}
        yield {"tree": FIXED_TREE, "cfg": OPEN, "line": "titan://h/nd/x/f;size=7", "content": c, "fault": ["fsize", k], "cls": "newdirs+fixed"}
    big = hexs(bytes(range(256)) * 64)
    for k in (1, 8192, 16383):
        yield {"tree": FIXED_TREE, "cfg": dict(OPEN, max=20000), "line": "titan://h/a;size=16384", "content": big, "fault": ["fsize", k], "cls": "existing+fixed"}
    # entries that carry a name the handler might pick for its temporary file (the predictable .NAME.PID.upload of
    # older revisions, and the name token_hex is made to return here): they must never be opened, replaced or removed
    col = [[["f", "uploads/.a.$PID.upload", hexs(b"PRECIOUS")]], [["f", "uploads/" + TMPNAME, hexs(b"PRECIOUS")]], [["d", "uploads/" + TMPNAME]],
           [["l", "uploads/" + TMPNAME, "/out/secret"]], [["l", "uploads/" + TMPNAME, "/out/via-temp-link"]],
           [["f", "uploads/sub/" + TMPNAME, hexs(b"PRECIOUS")]], [["l", "uploads/.a.$PID.upload", "/out/secret"]]]
    for extra in col:
        for line in ("titan://h/a;size=7", "titan://h/sub/n;size=7", "titan://h/" + TMPNAME + ";size=7"):
            yield {"tree": FIXED_TREE + extra, "cfg": OPEN, "line": line, "content": c, "fault": None, "cls": "tempcollision+fixed"}
    yield {"tree": FIXED_TREE + col[1], "cfg": OPEN, "line": "titan://h/nd/x/f;size=7", "content": c, "fault": ["write", 2], "cls": "tempcollision+fixed"}
    # ... and entries whose name is DERIVED from the name of the target (what an interrupted upload, an editor or a download manager
    # leaves next to a file): regular file, directory, link to outside / to nothing / to a sibling - next to an existing target, next to
    # a new one, next to one reached through a directory link; also with the storing failing part-way
    for pat in (".{n}.upload", ".{n}.tmp", "{n}.part", "{n}~"):
        for tdir, line in (("uploads", "titan://h/a;size=7"), ("uploads", "titan://h/fresh;size=7"), ("uploads/sub", "titan://h/lin/f;size=7")):
            nm = tdir + "/" + pat.replace("{n}", line[len("titan://h"):].split(";")[0].rsplit("/", 1)[-1])
            for extra in ([["f", nm, hexs(b"PRECIOUS")]], [["l", nm, "/out/secret"]], [["l", nm, "/out/via-temp-link"]], [["d", nm], ["f", nm + "/kept", hexs(b"PRECIOUS")]]):
                for fault in (None, ["write", 3]) if pat.startswith(".{n}.") else (None,):
                    yield {"tree": FIXED_TREE + extra, "cfg": OPEN, "line": line, "content": c, "fault": fault, "cls": "neighbour+fixed"}
    # the size limit at its smallest values, for every way of building the handler: sizes at and just above the limit, and a deletion
    for mx in (0, 1):
        for via in ("ctor", "config", "toml"):
            for sz in (mx, mx + 1, mx + 6):
                for line in (f"titan://h/a;size={sz}", f"titan://h/nd/new;size={sz}"):
                    yield {"tree": FIXED_TREE, "cfg": dict(OPEN, max=mx), "line": line, "content": hexs(b"NEWDATA!"[:sz]), "fault": None, "cls": "existing+smallmax+fixed", "via": via}


class Direct(UploadFamily):
    name = "direct"
    mode = "direct"
    quick_n = 6000
    thorough_n = 120000

    def gen(self, rng, n):
        count = 0
        for c in self.share(list(fixed_cases("direct"))):
            yield c
            count += 1
        while count < n:
            ents = gen_tree(rng)
            for _ in range(6):
                cfg, line, body, eff, cls = gen_request(rng, ents, False)
                case = {"tree": ents, "cfg": cfg, "line": line, "content": hexs(body), "fault": gen_fault(rng, eff), "cls": cls, "via": rng.choice(VIAS)}
                if rng.random() < 0.15:
                    nb = neighbour_entries(rng, ents, line)
                    if nb:
                        case["tree"], case["cls"] = ents + nb, cls + "+neighbour"
                yield case
                count += 1


class Proto(UploadFamily):
    name = "proto"
    mode = "proto"
    quick_n = 1600
    thorough_n = 30000

    def gen(self, rng, n):
        count = 0
        for c in self.share(list(fixed_cases("proto"))):
            c = dict(c)
            c["content"] = c["content"] + hexs(b"TRAILING")           # bytes after the declared content
            c["cuts"] = [5, 20]
            yield c
            count += 1
        timed = []
        for lead in LEADS[1:]:
            for mw in CHAIN_DELAYS:
                for line, body in (("titan://h/a;size=7", hexs(b"NEWDATA")), ("titan://h/nd/x/f;size=7", hexs(b"NEWDATA")), ("titan://h/a;size=0", "")):
                    timed.append({"tree": FIXED_TREE, "cfg": OPEN, "line": line, "content": body, "fault": None, "cls": "existing+fixed+timed", "cuts": [5, len(line) + 3],
                                  "timing": {"lead": lead, "mw": mw, "deny": False}})
        for c in self.share(timed):
            yield c
            count += 1
        # the peer closes the connection right after its last piece, without waiting for the answer: with no chain, with a chain
        # that answers at once / after a while; the request in one piece or in several; the close 0, 1, 2 loop passes later
        gone = []
        for line, body in (("titan://h/a;size=7", hexs(b"NEWDATA")), ("titan://h/nd/x/f;size=7", hexs(b"NEWDATA")), ("titan://h/a;size=0", ""),
                           ("titan://h/a;size=7", hexs(b"NEWDATA-and-more")), ("titan://h/sub/big;size=5000", hexs(bytes(range(250)) * 20))):
            for tm in (None, {"lead": 0, "mw": 0, "deny": False}, {"lead": 0, "mw": 0.25, "deny": False}, {"lead": 10, "mw": 4.75, "deny": False},
                       {"lead": 0, "mw": 0, "deny": True}):
                for after in (0, 1, 2):
                    for cuts in ([], [5, len(line) + 3]):
                        c = {"tree": FIXED_TREE, "cfg": dict(OPEN, max=20000), "line": line, "content": body, "fault": None, "cls": "existing+fixed+hangup", "cuts": cuts,
                             "hangup": after}
                        if tm:
                            c["timing"] = tm
                        gone.append(c)
        for c in self.share(gone):
            yield c
            count += 1
        while count < n:
            ents = gen_tree(rng)
            for _ in range(6):
                cfg, line, body, eff, cls = gen_request(rng, ents, True)
                if len(line.encode("utf-8")) > 1000 or "\n" in line or "\r" in line:
                    continue
                r = rng.random()
                if r < 0.4:
                    buf, cls2 = body, "exact"
                elif r < 0.75:
                    buf, cls2 = body + bytes(rng.randrange(256) for _ in range(rng.choice([1, 2, 9, 300]))), "trailing"
                else:
                    buf, cls2 = body[: max(0, len(body) - rng.choice([1, 1, 2, len(body)]))], "short"
                total = len(line.encode("utf-8")) + 2 + len(buf)
                cuts = sorted(rng.sample(range(1, max(total, 2)), k=min(rng.choice([0, 0, 1, 2, 4]), max(total - 1, 0))))
                case = {"tree": ents, "cfg": cfg, "line": line, "content": hexs(buf), "fault": gen_fault(rng, eff), "cls": cls + "+" + cls2, "cuts": cuts,
                        "via": rng.choice(VIAS)}
                if rng.random() < 0.15:
                    nb = neighbour_entries(rng, ents, line)
                    if nb:
                        case["tree"], case["cls"] = ents + nb, case["cls"] + "+neighbour"
                late = [k for k, c in enumerate(cuts) if c >= len(line.encode("utf-8")) + 2]
                if late and rng.random() < 0.5:
                    # the peer stalls past the request timeout at one of the cuts inside the content
                    case["stall"] = rng.choice(late)
                    case["cls"] += "+stall"
                elif rng.random() < 0.45:
                    # time: the last piece of the request arrives `lead` seconds after the connection was made (always within the
                    # request timeout), and the middleware chain in front of the upload handler takes `mw` seconds to answer
                    case["timing"] = {"lead": rng.choice(LEADS), "mw": rng.choice(CHAIN_DELAYS), "deny": rng.random() < 0.2}
                    case["cls"] += "+timed"
                if case.get("stall") is None and rng.random() < 0.2:
                    # the peer closes the connection a few loop passes after its last piece, whatever the state of the request
                    case["hangup"] = rng.choice([0, 0, 0, 1, 2, 3])
                    case["cls"] += "+hangup"
                yield case
                count += 1

    def _before_stall(self, case):
        cut = sorted(set(c for c in case.get("cuts", []) if 0 < c < len(case["line"].encode("utf-8")) + 2 + len(case["content"]) // 2))[case["stall"]]
        c = dict(case)
        c["content"] = case["content"][: 2 * (cut - len(case["line"].encode("utf-8")) - 2)]
        return c

    def model(self, case):
        # what had arrived when the peer went quiet decides: a complete request was dispatched (what follows is ignored,
        # C07), an incomplete one is answered 40 at the deadline and what follows is ignored as well
        if (case.get("timing") or {}).get("deny"):
            return None       # the model has no middleware chain: a chain that lets the request through is no chain, one that refuses is the oracle's
        return super().model(self._before_stall(case) if case.get("stall") is not None else case)

    def expect(self, case, out):
        e = super().expect(case, out)
        # (a request that was complete within the time limit is carried out however long the chain takes; one that never
        # becomes complete is answered 40 when the limit is reached)
        if (case.get("stall") is not None or case.get("timing")) and e.get("status") == "pending" and case.get("hangup") is None:
            return {"status": "40", "diff": []}
        return e

    def same(self, expected, obs):
        if obs.get("hung") and "diff" in expected:
            # the peer went away: the answer may or may not have been written before that; what happened to the files is unaffected
            return expected.get("diff") == obs.get("diff") and obs.get("status") in (expected.get("status"), "pending")
        return super().same(expected, obs)


# ----------------------------------------------------------------------------------------------
# several upload handlers in one process (one per host / user), each with its own upload directory and configuration
# ----------------------------------------------------------------------------------------------
TENANT_DIRS = ["uploads", "uploads-evil", "uploads/sub", "out", "uploads/sub/deep"]      # siblings, prefix-sharing siblings, nested
TENANT_TREE = [["d", "uploads"], ["d", "uploads-evil"], ["d", "out"], ["d", "uploads/sub"], ["d", "uploads/sub/deep"],
               ["f", "out/secret", hexs(b"SECRET")], ["f", "uploads-evil/e", hexs(b"EVIL")], ["f", "uploads/a", hexs(b"OLD-a")],
               ["f", "uploads-evil/notes.gmi", hexs(b"OLD-notes-of-evil")], ["f", "uploads/notes.gmi", hexs(b"OLD-notes")],
               ["f", "uploads/sub/n", hexs(b"OLD-n")], ["f", "uploads/sub/deep/z", hexs(b"OLD-z")], ["f", "out/notes.gmi", hexs(b"OLD-notes-out")]]
TENANT_NAMES = ["notes.gmi", "a", "e", "n", "z", "secret", "new.txt", "nd/f"]


def tenant_path(frm: str, to: str, name: str) -> str:
    """the request path that - read lexically - leads from upload directory `frm` to `name` inside directory `to`"""
    return "/" + "../" * (frm.count("/") + 1) + to + "/" + name


class Tenants(UploadFamily):
    """SEQUENCES of requests over two or more FileUploadHandler objects living in one process, with different (sibling, prefix-sharing,
    nested) upload directories and different configurations, the requests alternating between them. Every request is judged by the
    property against the upload directory and the configuration of the handler that received it, on snapshots of the whole area
    taken before and after that request. (No model line: the Lean model is one handler, one request - covered by `direct`.)"""
    name = "tenants"
    mode = "direct"
    quick_n = 400
    thorough_n = 8000

    def impl(self, case):
        from nauyaca.protocol.request import TitanRequest

        T.patch_handler_module()
        base = tempfile.mkdtemp(prefix="nv-")
        try:
            T.build(base, case["tree"])
            hs = [make_handler(base, h["cfg"], h.get("via", "ctor"), up=h["dir"]) for h in case["handlers"]]
            steps = []
            for st in case["steps"]:
                up = case["handlers"][st["h"]]["dir"]
                before = T.snapshot(base)
                den = denoted(base, up, st["line"])
                try:
                    req = TitanRequest.from_line(st["line"])
                    req.content = bytes.fromhex(st["content"])
                    T.set_fault(None)
                    try:
                        status = str(asyncio.run(hs[st["h"]].handle_upload(req)).status)
                    except Exception:
                        status = "raised"
                except ValueError:
                    status = "badline"
                steps.append({"status": status, "diff": T.diff(before, T.snapshot(base)), "denotes": den, "before": before})
            return {"steps": steps}
        finally:
            shutil.rmtree(base, ignore_errors=True)

    def model(self, case):
        return None

    def oracle(self, case, obs):
        told = []
        for st, o in zip(case["steps"], obs["steps"]):
            h = case["handlers"][st["h"]]
            one = {"tree": case["tree"], "cfg": h["cfg"], "up": h["dir"], "line": st["line"], "content": st["content"], "fault": None, "via": h.get("via", "ctor")}
            v = super().oracle(one, o)
            if v is not None:
                dirs = [x["dir"] for x in case["handlers"]]
                return (v[0], f"upload handlers for {dirs!r} in one process; after {told!r}, the handler of {h['dir']!r} "
                              f"(max={h['cfg']['max']} tokens={h['cfg']['tokens']!r} types={h['cfg']['types']!r} delete={h['cfg']['delete']}) got {v[1]}")
            told.append((h["dir"], st["line"], o["status"]))
        return None

    def key(self, case, obs):
        sts = [o["status"] for o in obs["steps"]]
        cross = sum(1 for st in case["steps"] if "/../" in st["line"])
        changed = sum(1 for o in obs["steps"] if o["diff"])
        return f"tenants handlers={len(case['handlers'])} steps={len(sts)} climbing={min(cross, 3)} changed={min(changed, 3)} last={sts[-1]}"

    def shrink(self, case, bad):
        cur = case
        again = True
        while again:
            again = False
            for i in range(len(cur["steps"])):
                c2 = dict(cur, steps=cur["steps"][:i] + cur["steps"][i + 1:])
                if c2["steps"] and bad(c2):
                    cur, again = c2, True
                    break
        return cur

    @staticmethod
    def request(rng, hs, k, path, body=None):
        """a request line for handler k of `hs` (its own token mostly; sometimes none, or the token of another handler)"""
        cfg = hs[k]["cfg"]
        if body is None:
            body = rng.choice([b"", b"NEW", b"NEWDATA", b"NEWDATA-" + bytes(str(k), "ascii") * 3])
        params = [f"size={len(body)}"]
        if rng.random() < 0.3:
            params.append("mime=" + rng.choice(["text/plain", "image/png"]))
        r = rng.random()
        if cfg["tokens"] and r < 0.8:
            params.append("token=" + cfg["tokens"][0])
        elif r < 0.9:
            other = [t for h in hs for t in (h["cfg"]["tokens"] or []) if not cfg["tokens"] or t not in cfg["tokens"]]
            if other:
                params.append("token=" + rng.choice(other))
        return {"h": k, "line": "titan://h" + path + ";" + ";".join(params), "content": hexs(body)}

    def gen(self, rng, n):
        count = 0
        fixed = []
        # a file is written (or removed, or just asked for) through its own handler; then another handler is asked for the very same file
        for a, b in (("uploads-evil", "uploads"), ("uploads", "uploads-evil"), ("uploads", "uploads/sub"), ("uploads/sub", "uploads"), ("out", "uploads"),
                     ("uploads/sub/deep", "uploads/sub"), ("uploads", "out")):
            for name in ("notes.gmi", "fresh"):
                for first in (7, 0):
                    for second in (7, 0):
                        hs = [{"dir": a, "cfg": OPEN}, {"dir": b, "cfg": OPEN}]
                        steps = [{"h": 0, "line": f"titan://h/{name};size={first}", "content": hexs(b"NEWDAT1") if first else ""},
                                 {"h": 1, "line": f"titan://h{tenant_path(b, a, name)};size={second}", "content": hexs(b"NEWDAT2") if second else ""},
                                 {"h": 0, "line": f"titan://h/{name};size=7", "content": hexs(b"NEWDAT3")}]
                        fixed.append({"tree": TENANT_TREE, "handlers": hs, "steps": steps})
        for x in self.share(fixed):
            yield x
            count += 1
        while count < n:
            dirs = rng.sample(TENANT_DIRS, rng.choice([2, 2, 3, 4]))
            hs = []
            for i, d in enumerate(dirs):
                hs.append({"dir": d, "via": rng.choice(VIAS),
                           "cfg": {"max": rng.choice([100, 100, 2000, 8, 3]), "types": rng.choice([None, None, None, ["text/plain"], ["image/png"]]),
                                   "tokens": rng.choice([None, None, [f"tok-{i}"], [f"tok-{i}", f"alt-{i}"]]), "delete": rng.random() < 0.6}})
            tree = list(TENANT_TREE)
            for _ in range(rng.randint(0, 3)):          # links between the directories
                d = rng.choice(dirs)
                tree.append(["l", d + "/" + rng.choice(["lk", "ln", "new.txt"]), rng.choice(["/" + x for x in TENANT_DIRS] + ["/out/secret", "/uploads-evil/e", "a", "nonexistent"])])
            steps = []
            for _ in range(rng.randint(2, 6)):
                k = rng.randrange(len(hs))
                r = rng.random()
                name = rng.choice(TENANT_NAMES)
                if r < 0.35 or not steps:
                    path = "/" + name                                                  # its own file
                elif r < 0.75:
                    # a file some earlier step named, now asked of another handler (climbing out of its own directory if need be)
                    prev = rng.choice(steps)
                    pd = hs[prev["h"]]["dir"]
                    pname = prev["line"][len("titan://h"):].split(";")[0].rsplit("/", 1)[-1] or name
                    path = tenant_path(hs[k]["dir"], pd, pname)
                    if pd.startswith(hs[k]["dir"] + "/") and rng.random() < 0.5:
                        path = pd[len(hs[k]["dir"]):] + "/" + pname                     # ... or going down into a nested one (allowed)
                elif r < 0.9:
                    path = tenant_path(hs[k]["dir"], rng.choice(TENANT_DIRS), name)
                else:
                    path = rng.choice(["/lk", "/ln/" + name, "/lk/" + name, "/..", "/", "/../" + name])
                steps.append(self.request(rng, hs, k, path))
            yield {"tree": tree, "handlers": hs, "steps": steps}
            count += 1


FAMILIES = [Direct(), Proto(), Tenants()]
