import NauyacaVerif.Misc.TofuTxn
import NauyacaVerif.Misc.SqlEnv
/-!
The statement recorder: the world in which the TRANSLATED `TOFUDatabase` methods are run to obtain the SQL statements
they issue, in order, together with their effect on the connection (`TofuTxn.execStmt`).  What it yields for a method is
compared with the hand-written script of the same operation (`TofuTxn.script`) in `Props/Tr/TofuScript.lean`.
-/
namespace TofuTxn

structure Rec where
  db : Db
  log : List Stmt
deriving Repr

/-- a freshly opened connection on the durable store `s` -/
def Rec.opened (s : Store) : Rec := ⟨⟨s, s⟩, []⟩

def Rec.exec (w : Rec) (st : Stmt) : Rec := ⟨execStmt w.db st, w.log ++ [st]⟩

def recEnv (now : Nat) : Misc.SqlEnv Rec Host where
  selectFp w h p := (w.exec (.select h p), (lookup w.db.working h p).map (·.fp))
  insert w h p fp :=
    (w.exec (.insert ⟨h, p, fp, now, now⟩), if (lookup w.db.working h p).isSome then .error .integrity else .ok ())
  updateFp w fp h p := w.exec (.updateFp h p fp now)
  touch w h p := w.exec (.touch h p now)
  delete w h p := (w.exec (.delete h p), (w.db.working.filter (fun r => r.hasKey h p)).length)
  deleteHost w h := (w.exec (.deleteHost h), (w.db.working.filter (fun r => r.host == h)).length)
  deleteAll w := (w.exec .deleteAll, w.db.working.length)
  commit w := w.exec .commit
  close w := ⟨⟨w.db.durable, w.db.durable⟩, w.log⟩

end TofuTxn
