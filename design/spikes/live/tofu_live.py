import asyncio, ssl, tempfile, datetime, base64, os, sys, pathlib
import nauyaca.protocol
import structlog
structlog.configure(wrapper_class=structlog.make_filtering_bound_logger(50))
from cryptography import x509
from cryptography.hazmat.primitives import hashes, serialization
from cryptography.hazmat.primitives.asymmetric import ec, rsa, ed25519
from cryptography.x509.oid import NameOID
from nauyaca.client.session import GeminiClient
from nauyaca.security.tofu import CertificateChangedError

def make_cert(kind, d, tag, hostile=False):
    key={'ec':lambda: ec.generate_private_key(ec.SECP256R1()),'rsa':lambda: rsa.generate_private_key(65537,2048),'ed':lambda: ed25519.Ed25519PrivateKey.generate()}[kind]()
    name=x509.Name([x509.NameAttribute(NameOID.COMMON_NAME,"localhost")]); now=datetime.datetime.now(datetime.timezone.utc)
    b=(x509.CertificateBuilder().subject_name(name).issuer_name(name).public_key(key.public_key()).serial_number(x509.random_serial_number())
       .not_valid_before(now).not_valid_after(now+datetime.timedelta(days=5)).add_extension(x509.BasicConstraints(ca=True,path_length=None),critical=True))
    cert=b.sign(key, None if kind=='ed' else hashes.SHA256())
    der=cert.public_bytes(serialization.Encoding.DER)
    if hostile: der=der.replace(b"\x01\x01\xff",b"\x01\x01\x01",1)
    cp=f"{d}/{tag}.pem"; kp=f"{d}/{tag}.key"
    open(cp,"wb").write(b"-----BEGIN CERTIFICATE-----\n"+base64.encodebytes(der)+b"-----END CERTIFICATE-----\n")
    open(kp,"wb").write(key.private_bytes(serialization.Encoding.PEM,serialization.PrivateFormat.PKCS8,serialization.NoEncryption()))
    return cp,kp,der

class Peer:
    """scripted TLS server: records every application byte it receives"""
    def __init__(self, certfile, keyfile, response=b"20 text/gemini\r\nhello"):
        self.ctx=ssl.SSLContext(ssl.PROTOCOL_TLS_SERVER); self.ctx.load_cert_chain(certfile,keyfile)
        self.received=[]; self.conns=0; self.response=response
    async def handle(self, r, w):
        self.conns+=1; buf=b""
        try:
            while b"\r\n" not in buf:
                chunk=await asyncio.wait_for(r.read(4096), 1.0)
                if not chunk: break
                buf+=chunk
        except (asyncio.TimeoutError, ConnectionError, ssl.SSLError): pass
        self.received.append(buf)
        if b"\r\n" in buf:
            w.write(self.response)
        try: w.close(); await w.wait_closed()
        except Exception: pass
    async def start(self, port=0):
        self.server=await asyncio.start_server(self.handle,"127.0.0.1",port,ssl=self.ctx)
        self.port=self.server.sockets[0].getsockname()[1]; return self
    async def stop(self): self.server.close(); await self.server.wait_closed()

async def main():
    d=tempfile.mkdtemp()
    A=make_cert('ec',d,'a'); B=make_cert('rsa',d,'b'); E=make_cert('ed',d,'e'); H=make_cert('ec',d,'h',hostile=True)
    db=pathlib.Path(d)/"tofu.db"
    async def fetch(port, what='get'):
        c=GeminiClient(timeout=3, tofu_db_path=db)
        try:
            if what=='get': r=await c.get(f"gemini://127.0.0.1:{port}/secret?token=T")
            else: r=await c.upload(f"gemini://127.0.0.1:{port}/up", b"CONTENT", token="TOK")
            return ('ok',r.status)
        except CertificateChangedError as e: return ('changed', e.old_fingerprint[:14], e.new_fingerprint[:14])
        except Exception as e: return ('err',type(e).__name__, str(e)[:50])
    p1=await Peer(A[0],A[1]).start()
    print("first use:", await fetch(p1.port), p1.received)
    print("same cert:", await fetch(p1.port), len(p1.received))
    port=p1.port; await p1.stop()
    p2=await Peer(B[0],B[1]).start(port)
    print("changed cert get   :", await fetch(port), "peer saw:", p2.received)
    print("changed cert upload:", await fetch(port,'up'), "peer saw:", p2.received)
    await p2.stop()
    p3=await Peer(H[0],H[1]).start()
    print("unreadable cert, unpinned host:", await fetch(p3.port), "peer saw:", p3.received)
    await p3.stop()
    p4=await Peer(E[0],E[1]).start()
    print("ed25519 first use:", await fetch(p4.port,'up'), p4.received)
    await p4.stop()
asyncio.run(main())
