#!/venv/bin/python
"""Confirm a seeded change produced by an independent sub-agent and run the property's check against it.

    tools/evalseed.py <adv-worktree> <k> <Cxx> [--tier quick|thorough] [--skip-tests]

1. in a scratch worktree at the adv worktree's base revision: demo exits 0 on the clean tree, 1 with the patch,
   and the repository's own test suite still passes with the patch;
2. the check is run against the patched tree (tools/mutant.sh); rc 1 + VIOLATION = detected;
3. the change is kept as /verif/seeded/<Cxx>-s<k>/ {patch.diff, demo.py, README.txt, meta.json}.
"""
import json, os, shutil, subprocess, sys, re
adv, k, pid = sys.argv[1], sys.argv[2], sys.argv[3]
tier = "quick"
if "--tier" in sys.argv: tier = sys.argv[sys.argv.index("--tier") + 1]
skip_tests = "--skip-tests" in sys.argv
name = f"{pid}-s{k}" + (sys.argv[sys.argv.index("--suffix") + 1] if "--suffix" in sys.argv else "")
src = f"{adv}/seeded/{k}"
base = subprocess.run(["git", "-C", adv, "rev-parse", "HEAD"], capture_output=True, text=True).stdout.strip()
if not os.path.isdir(src):
    # the adversary's worktree is gone: re-evaluate from the copy kept under /verif/seeded (same patch, same demo, same base revision)
    kept = f"/verif/seeded/{name}"
    if not os.path.isdir(kept):
        sys.exit(f"neither {src} nor {kept} exists")
    src = "/tmp/evsrc-" + name
    shutil.rmtree(src, ignore_errors=True)
    shutil.copytree(kept, src)
    base = json.load(open(f"{kept}/meta.json"))["base_revision"]
wt = f"/tmp/evs-{name}"
def sh(cmd, **kw): return subprocess.run(cmd, shell=True, capture_output=True, text=True, **kw)
sh(f"git -C /repo worktree remove --force {wt}; rm -rf {wt}")
sh(f"git -C /repo worktree add -q --detach {wt} {base}")
env = f"cd {wt} && PYTHONPATH={wt}/src"
r0 = sh(f"{env} timeout 600 /venv/bin/python {src}/demo.py")
ap = sh(f"git -C {wt} apply {src}/patch.diff")
r1 = sh(f"{env} timeout 600 /venv/bin/python {src}/demo.py")
tests = "skipped"
prev = f"/verif/seeded/{name}/meta.json"
if skip_tests and os.path.exists(prev):
    tests = json.load(open(prev))["confirmed"]["test_suite_with_patch"]   # confirmed in an earlier run of this tool
if not skip_tests:
    t = sh(f"{env} timeout 1500 /venv/bin/python -m pytest -q -p no:cacheprovider --timeout=900 -x 2>&1 | tail -1")
    tests = t.stdout.strip()
sh(f"git -C /repo worktree remove --force {wt}; rm -rf {wt}")
confirmed = r0.returncode == 0 and r1.returncode == 1 and ap.returncode == 0 and re.search(r"\b466 passed", tests) is not None
print(f"[{name}] demo clean rc={r0.returncode} patched rc={r1.returncode} apply={ap.returncode} tests: {tests} -> confirmed={confirmed}")
# run the check: prefer applying on /repo HEAD, fall back to the base revision
head_ok = sh(f"git -C /repo apply --check {src}/patch.diff").returncode == 0
# always evaluate at the revision the change was written against (later fix: commits may mask or conflict with it)
what = f"{base}+{src}/patch.diff"
sh(f"git -C /repo worktree remove --force /tmp/nvm-{name}/repo; rm -rf /tmp/nvm-{name}")
c = sh(f"cd /verif && tools/mutant.sh {name} {what} {pid} --tier {tier}")
out = c.stdout + c.stderr
viol = [l for l in out.splitlines() if l.startswith("VIOLATION")]
sig = [l for l in out.splitlines() if "failing input (" in l or "broken obligation" in l][:3]
print(f"[{name}] check rc={c.returncode} {viol[:1]} {sig[:2]}")
replay = None
if viol:
    m = re.search(r"replay=(\S+)", viol[0])
    if m and os.path.exists(f"/tmp/nvm-{name}/out/{m.group(1)}"):
        replay = json.load(open(f"/tmp/nvm-{name}/out/{m.group(1)}"))
sh(f"git -C /repo worktree remove --force /tmp/nvm-{name}/repo; rm -rf /tmp/nvm-{name}")
d = f"/verif/seeded/{name}"
os.makedirs(d, exist_ok=True)
for f in ("patch.diff", "demo.py", "README.txt"):
    if os.path.exists(f"{src}/{f}"): shutil.copy(f"{src}/{f}", f"{d}/{f}")
meta = {"property": pid, "source": "independent sub-agent given only the property text and its own worktree", "base_revision": base,
        "needs_to_manifest": open(f"{src}/README.txt").read() if os.path.exists(f"{src}/README.txt") else "",
        "confirmed": {"demo_clean_rc": r0.returncode, "demo_patched_rc": r1.returncode, "patch_applies": ap.returncode == 0, "test_suite_with_patch": tests, "ok": confirmed},
        "check": {"cmd": f"tools/mutant.sh {name} {base[:7]}+seeded/{name}/patch.diff {pid} --tier {tier}", "patch_applies_to_current_head": head_ok, "rc": c.returncode, "violation_line": viol[:1],
                  "detected": c.returncode == 1 and bool(viol), "how": sig, "no_failing_input_found": bool(viol) and "no-failing-input-found" in viol[0],
                  "replay_signature": (replay or {}).get("signature"), "replay_family": (replay or {}).get("family")}}
json.dump(meta, open(f"{d}/meta.json", "w"), indent=1)
