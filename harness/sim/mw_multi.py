"""Several connections of one server sharing ONE middleware chain (C04, family `concurrent`).

Every connection is a real `GeminiServerProtocol` on a fake transport; all of them hold the same real
`MiddlewareChain` whose components (real RateLimiter / AccessControl / CertificateAuth, scripted constant, slow and
quota components) are wrapped by recording spies.  A schedule says in which event-loop iteration each connection's
bytes are delivered: `["d", i]` delivers connection i's request (no loop iteration in between two consecutive
deliveries: both `data_received` calls happen before any chain task has started), `["y", k]` lets the loop run k
iterations.  Every connection has its own counting handler and upload handler, so a handler run is attributed to the
connection it served.
"""
from __future__ import annotations

import asyncio

from . import srv as sim


class Quota:
    """scripted stateful component: admits the first `k` requests it is shown, refuses every later one with `line`;
    `delay` loop iterations pass before it looks at its counter (a component that waits for something)"""

    def __init__(self, k, line, delay):
        self.k, self.line, self.delay, self.seen = k, line, delay, 0

    async def process_request(self, url, ip, fp=None):
        for _ in range(self.delay):
            await asyncio.sleep(0)
        self.seen += 1
        if self.seen <= self.k:
            return True, None
        return False, self.line


def spy_on(comp, log, idx):
    """record what component `comp` is shown and what it answers (its bound process_request is replaced on the
    instance: the object keeps its class and every other attribute)"""
    inner = comp.process_request

    async def process_request(url, ip, fp=None):
        try:
            ok, resp = await inner(url, ip, fp)
        except Exception:
            log.append([idx, [url, ip, fp], "raise", None])
            raise
        log.append([idx, [url, ip, fp], "allow" if ok else "deny", resp if isinstance(resp, str) or resp is None else repr(resp)])
        return ok, resp

    comp.process_request = process_request
    return comp


def wire_bytes(line: str) -> bytes:
    content = b"abc" if "size=3" in line else b"xy" if "size=2" in line else b""
    return line.encode() + b"\r\n" + content


async def run_multi(loop, case, components):
    """components: the chain's component objects in order.  Returns the observation (JSON-able)."""
    from nauyaca.protocol.response import GeminiResponse
    from nauyaca.server.middleware import MiddlewareChain
    from nauyaca.server.protocol import GeminiServerProtocol

    complog: list = []
    spies = [spy_on(c, complog, i) for i, c in enumerate(components)]
    chain = MiddlewareChain(spies)
    consults: list = []
    orig = chain.process_request

    async def recording(url, ip, fp=None):
        consults.append([url, ip, fp])
        return await orig(url, ip, fp)

    chain.process_request = recording  # type: ignore[method-assign]
    excs: list = []
    loop.set_exception_handler(lambda lp, ctx: excs.append(str(ctx.get("exception") or ctx.get("message"))[:120]))
    certs = sim.cert_pool()
    conns = []
    for cn in case["conns"]:
        log = {"h": 0, "u": 0}

        def h(req, log=log):
            log["h"] += 1
            return GeminiResponse(status=20, meta="text/gemini", body="served")

        class Up:
            max_size = 8
            upload_dir = "/nonexistent"
            allowed_types = None
            auth_tokens = None
            enable_delete = True

            async def handle_upload(self, req, log=log):
                log["u"] += 1
                return GeminiResponse(status=20, meta="text/gemini", body="stored")

        p = GeminiServerProtocol(h, chain, Up())
        peer = cn["peer"]
        t = sim.FakeTransport(peer=(peer, 4000 + len(conns)) if ":" not in peer else (peer, 4000 + len(conns), 0, 0),
                              cert_der=None if cn.get("cert") is None else certs[cn["cert"]][0])
        p.connection_made(t)
        conns.append((p, t, log))
    for e in case["sched"]:
        if e[0] == "d":
            p, t, _ = conns[e[1]]
            try:
                p.data_received(wire_bytes(case["conns"][e[1]]["line"]))
            except Exception as ex:  # noqa: BLE001
                excs.append(f"{type(ex).__name__}: {ex}"[:120])
        else:
            for _ in range(e[1]):
                await asyncio.sleep(0)
    for _ in range(60):
        await asyncio.sleep(0)
    out = []
    for p, t, log in conns:
        raw = b"".join(bytes.fromhex(a[1]) for a in t.acts if a[0] == "w")
        out.append({"st": raw[:2].decode("latin1"), "h": log["h"], "u": log["u"], "closed": t.closed})
        if p.timeout_handle is not None:
            p.timeout_handle.cancel()
        try:
            p.connection_lost(None)
        except Exception:  # noqa: BLE001
            pass
    loop.set_exception_handler(lambda lp, ctx: None)
    for _ in range(4):
        await asyncio.sleep(0)
    return {"conns": out, "consults": consults, "comp": complog, "exc": excs}
