import NauyacaVerif.Gen.Fn.FindRule
import NauyacaVerif.Gen.Fn.CertProcess
import NauyacaVerif.Mw.Cert

/-! Translated `CertificateAuth._find_matching_rule` and `CertificateAuth.process_request` = the hand-written model
(`Mw.Cert.firstCover`, `Mw.Cert.process`).  `Gen/Fn/FindRule.lean` and `Gen/Fn/CertProcess.lean` are produced on every run by
`harness/translate.py` from the Python AST of the CURRENT source tree.  The request path (`_extract_path`, i.e. the canonical
path) is a parameter; the rule lookup inside `process_request` is the function `find`, instantiated with the translated lookup. -/
namespace NauyacaVerif.Translated
open NauyacaVerif.Gen Mw.Cert

/-- `_find_matching_rule` (translated) is the model's first covering rule -/
theorem findRule_eq (rules : List Rule) (path : Str) : Fn.findRule rules path = firstCover rules path := by
  unfold Fn.findRule
  induction rules with
  | nil => rfl
  | cons r rs ih =>
    simp only [List.find?_cons, firstCover]
    cases h : r.pre.isPrefixOf path with
    | true => rfl
    | false => simpa using ih

/-- the pair `(allow, response)` the middleware returns for a decision of the model -/
def pairOf : Decision → Bool × Option (List Nat)
  | .allow => (true, none)
  | .d60 => (false, some line60)
  | .d61 => (false, some line61)

/-- the loop body of `process_request` for the rule found, as the translation spells it -/
def bodyT (r : Rule) (fp : Option Fp) : Option (Bool × Option (List Nat)) :=
  if (r.requireCert && fp.isNone) = true then some (false, some line60)
  else match r.allowed with
    | none => none
    | some l => match fp with
      | none => some (false, some line60)
      | some f => if (!l.contains f) = true then some (false, some line61) else none

theorem body_eq (r : Rule) (fp : Option Fp) :
    bodyT r fp = (if applyRule r fp = .allow then none else some (pairOf (applyRule r fp))) := by
  unfold applyRule bodyT
  cases hq : r.requireCert <;> cases fp <;> cases ha : r.allowed <;> simp [pairOf]
  all_goals (split <;> simp_all [pairOf])

/-- the translated function, re-read: a first-result search over the candidates (definitional) -/
theorem certProcess_unfold (find : List Nat → Option Rule) (path : Str) (fp : Option Fp) :
    Fn.certProcess find path fp =
      match (if ([47] : List Nat).isSuffixOf path then [path] else [path, path ++ [47]]).findSome?
          (fun c => match find c with | none => none | some r => bodyT r fp) with
      | some r => r
      | none => (true, none) := rfl

theorem suffix_slash (path : Str) : (([47] : List Nat).isSuffixOf path = true) ↔ path.getLast? = some 47 := by
  rw [List.isSuffixOf_iff_suffix]
  constructor
  · rintro ⟨t, rfl⟩; simp
  · intro h
    refine ⟨path.dropLast, ?_⟩
    induction path with
    | nil => simp at h
    | cons a t ih =>
      cases t with
      | nil => simp at h; simp [h]
      | cons b u =>
        have : (b :: u).getLast? = some 47 := by simpa [List.getLast?_cons_cons] using h
        simp only [List.dropLast_cons₂, List.cons_append]
        rw [ih this]

/-- one candidate: nothing (move on) when the model's policy admits, its refusal otherwise -/
def cand (rules : List Rule) (fp : Option Fp) (c : Str) : Option (Bool × Option (List Nat)) :=
  if policy rules c fp = .allow then none else some (pairOf (policy rules c fp))

/-- `process_request` (translated), with the translated lookup, is the model's `process`: same verdict, same response line -/
theorem certProcess_eq (rules : List Rule) (path : Str) (fp : Option Fp) :
    Fn.certProcess (Fn.findRule rules) path fp = pairOf (process rules path fp) := by
  have hf : (fun c : List Nat => match Fn.findRule rules c with | none => none | some r => bodyT r fp) = cand rules fp := by
    funext c
    rw [findRule_eq]
    unfold cand policy
    cases firstCover rules c with
    | none => simp
    | some r => exact body_eq r fp
  rw [certProcess_unfold, hf]
  unfold process stricter
  by_cases hs : ([47] : List Nat).isSuffixOf path = true
  · have hl := (suffix_slash path).mp hs
    simp only [hs, hl, ↓reduceIte, List.findSome?_cons, List.findSome?_nil, cand]
    cases hp : policy rules path fp <;> simp [pairOf]
  · have hl : ¬ path.getLast? = some 47 := fun h => hs ((suffix_slash path).mpr h)
    simp only [hs, hl, ↓reduceIte, List.findSome?_cons, List.findSome?_nil, cand, Bool.false_eq_true]
    cases hp : policy rules path fp <;> cases hq : policy rules (path ++ [47]) fp <;> simp [pairOf]

/-- non-vacuity: a protected directory asked for without trailing slash and without certificate is refused with 60 -/
example : Fn.certProcess (Fn.findRule [⟨[47, 97, 47], true, none⟩]) [47, 97] none = (false, some line60) := by decide
end NauyacaVerif.Translated
