import NauyacaVerif.Mw.LimiterProof
import NauyacaVerif.Mw.WindowProof
namespace Mw

/-! # C10 over whole limiter histories: per address, the limiter behaves like one private bucket -/

def evTime : LEv → Rat | .req _ t => t | .cleanup t => t

/-- times never go backwards -/
def Mono : Rat → List LEv → Prop
  | _, [] => True
  | a, e :: es => a ≤ evTime e ∧ Mono (evTime e) es

/-- decisions taken for address `a` along a history -/
def decisionsFor (c : LCfg) (a : Ip) : Store → List LEv → List Bool
  | _, [] => []
  | s, .req ip t :: es =>
    let r := request c s ip t
    (if ip = a then [r.2] else []) ++ decisionsFor c a r.1 es
  | s, .cleanup t :: es => decisionsFor c a (cleanup c s t) es

/-- the private bucket: decisions when only `a`'s own requests are replayed on one bucket -/
def privateRun (c : LCfg) (a : Ip) : Bucket → List LEv → List Bool
  | _, [] => []
  | b, .req ip t :: es =>
    if ip = a then (consume c b t).2 :: privateRun c a (consume c b t).1 es else privateRun c a b es
  | b, .cleanup _ :: es => privateRun c a b es

/-- the simulation relation: from now on the store gives `a` exactly what bucket `b` would -/
def Sim (c : LCfg) (s : Store) (a : Ip) (b : Bucket) (now : Rat) : Prop :=
  b.last ≤ now ∧ ∀ t, now ≤ t → eff c s a t = b.level c t

theorem keys_set (s : Store) (ip : Ip) (b : Bucket) (h : (Keys s).Nodup) : (Keys (s.set ip b)).Nodup := by
  unfold Store.set Keys
  simp only [List.map_cons, List.nodup_cons]
  refine ⟨?_, ?_⟩
  · intro hm
    simp only [List.mem_map, List.mem_filter] at hm
    obtain ⟨p, ⟨_, hp⟩, he⟩ := hm
    simp [he] at hp
  · exact List.Nodup.sublist (List.Sublist.map _ List.filter_sublist) h

theorem keys_cleanup (c : LCfg) (s : Store) (t : Rat) (h : (Keys s).Nodup) : (Keys (cleanup c s t)).Nodup := by
  unfold cleanup Keys
  exact List.Nodup.sublist (List.Sublist.map _ List.filter_sublist) h

theorem level_after_consume (c : LCfg) (b : Bucket) (now t : Rat) :
    (consume c b now).1.level c t =
      min c.cap ((if b.level c now ≥ 1 then b.level c now - 1 else b.level c now) + (t - now) * c.rate) := by
  unfold consume
  simp only
  split <;> simp [Bucket.level]

theorem eff_after_request_self (c : LCfg) (s : Store) (a : Ip) (now t : Rat) :
    eff c (request c s a now).1 a t =
      min c.cap ((if eff c s a now ≥ 1 then eff c s a now - 1 else eff c s a now) + (t - now) * c.rate) := by
  have hl := level_getD c s a now
  unfold request
  simp only [eff, find_set_self]
  rw [level_after_consume, hl]
  rfl

/-- C10: along any time-ordered history with clean-ups and other addresses' traffic, the decisions
    for address `a` are exactly those of one private token bucket fed with `a`'s own requests -/
theorem limiter_refines_private (c : LCfg) (hr : 0 ≤ c.rate) (a : Ip) (s : Store) (b : Bucket) (now : Rat)
    (es : List LEv) (hn : (Keys s).Nodup) (hm : Mono now es) (hsim : Sim c s a b now) :
    decisionsFor c a s es = privateRun c a b es := by
  induction es generalizing s b now with
  | nil => rfl
  | cons e es ih =>
    obtain ⟨hle, hm'⟩ := hm
    cases e with
    | cleanup t =>
      simp only [decisionsFor, privateRun]
      simp only [evTime] at hle hm'
      apply ih _ _ t (keys_cleanup c s t hn) hm'
      refine ⟨le_trans hsim.1 hle, fun t' ht' => ?_⟩
      rw [cleanup_eff c hr s hn t a ht']
      exact hsim.2 t' (le_trans hle ht')
    | req ip t =>
      simp only [evTime] at hle hm'
      simp only [decisionsFor, privateRun]
      by_cases hip : ip = a
      · subst hip
        simp only [↓reduceIte, List.singleton_append]
        have hdec : (request c s ip t).2 = (consume c b t).2 := by
          rw [request_decision, hsim.2 t hle]
          unfold consume; simp only
          by_cases h : b.level c t ≥ 1 <;> simp [h]
        rw [hdec]
        congr 1
        apply ih _ _ t (by unfold request; exact keys_set _ _ _ hn) hm'
        refine ⟨by unfold consume; simp only; split <;> exact le_refl _, fun t' ht' => ?_⟩
        rw [eff_after_request_self, level_after_consume, hsim.2 t hle]
      · simp only [hip, ↓reduceIte, List.nil_append]
        apply ih _ _ t (by unfold request; exact keys_set _ _ _ hn) hm'
        refine ⟨le_trans hsim.1 hle, fun t' ht' => ?_⟩
        rw [request_eff_other c s ip a t t' hip]
        exact hsim.2 t' (le_trans hle ht')

/-- a fresh limiter gives every address a full private bucket -/
theorem sim_init (c : LCfg) (hr : 0 ≤ c.rate) (a : Ip) (t0 : Rat) : Sim c [] a { tokens := c.cap, last := t0 } t0 := by
  refine ⟨le_refl _, fun t ht => ?_⟩
  simp only [eff, Store.find, List.find?_nil, Option.map_none, Bucket.level]
  have : 0 ≤ (t - t0) * c.rate := mul_nonneg (by linarith) hr
  exact (min_eq_left (by linarith)).symm
end Mw
