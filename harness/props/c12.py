"""C12  The trust store changes atomically and survives export/import

Correspondence: the real `TOFUDatabase` on a temporary SQLite file, with `sqlite3` replaced in
`nauyaca.security.tofu`'s namespace by `sim/store_sqlshim.py` (statement / commit script, fault at
every boundary), `datetime` by a fixed clock and `get_certificate_fingerprint` by the identity,
against the transaction-script model `TofuTxn` (`lean/NauyacaVerif/Misc/TofuTxn.lean`).

One case = one (store, operation): the operation is run to its end (script, outcome, resulting
table) and then once more per statement boundary with the fault at that boundary — an injected
exception (family `fault`) or `os._exit` in a forked child followed by reopening the file (family
`kill`).  Family `roundtrip` exports a store and imports the file into an empty one - in this process, or (dimension
`env`) in a child interpreter started under another locale (`sim/store_child.py`).

Family `sqlerr` is `fault` with faults that look like SQLite's own errors (`SQL_ERRORS`: "database is locked", "disk I/O error",
"database or disk is full", "UNIQUE constraint failed", ... with type, message and error code as sqlite3 sets them), raised once:
code that recognises such an error and deals with it (waits and repeats the statement, rolls back, carries on) must still leave
the store as before or as after.  The `session` family draws its injected errors from the same table.

Family `session` runs HISTORIES of 2..6 operations through one long-lived store object (some failing: defective import
file, raising callback, injected SQL error), reading the table after every step both from the file and through the object;
family `bulk` runs stores / import files of thousands of hosts (transactions of several megabytes) with the process killed
at one late statement boundary, then reads the table back and looks every old pin up through a fresh store object.
"""
from __future__ import annotations

import hashlib
import os
import random
import re
import shutil
import tempfile
import types

from .. import core
from ..core import Family, cps

ID = "C12"
READY = True
LEAN_TARGETS = ["NauyacaVerif.Props.C12"]
THEOREMS = [f"NauyacaVerif.C12.{t}" for t in
            ("script_complete", "crash_atomic", "import_all_or_nothing", "bad_entry_fails", "frame",
             "key_injective", "key_injective_chars", "export_import", "export_import_any_order")]
LEAN_TARGETS = LEAN_TARGETS + ["NauyacaVerif.Props.Tr.TofuScript"]
TRANSLATED = ["tofuVerify", "tofuTrust", "tofuRevoke", "tofuRevokeHost", "tofuClear"]
THEOREMS = THEOREMS + [f"NauyacaVerif.Translated.{t}" for t in (
    "tofuTrust_script", "tofuVerify_script", "tofuRevoke_script", "tofuRevokeHost_script", "tofuClear_script",
    "tofuTrust_crash", "tofuVerify_crash", "tofuRevoke_crash", "tofuRevokeHost_crash", "tofuClear_crash")]
EXTRACT: list[str] = []
ASSUMPTIONS = [
    "SQLite: a transaction is atomic and durable at commit(); a connection closed (or a process killed) without commit rolls back — exercised by the kill family (os._exit at every boundary, file reopened) and, for transactions larger than SQLite's page cache, by the bulk family (one late boundary per case), not proved",
    "tomllib.load(tomli_w.dump(d)) == d for string keys/values and integers (opaque; exercised by the roundtrip family with IPv6 literals, colons, quotes, control characters, non-ASCII, TOML metacharacters, also in interpreters started under non-UTF-8 locales)",
    "every operation opens its own connection (the model has no state between operations): exercised by the session family (histories through one store object, a step of each compared with the model from the observed state)",
    "fingerprints already in the store are well formed (they come from get_certificate_fingerprint or passed import validation); ports are 1..65535 for the round trip (import_toml refuses others)",
    "the conflict callback is modelled as an arbitrary function of the entry position returning update / skip / raise",
    "crash points are statement boundaries (execute / commit calls); a crash inside SQLite's commit is SQLite's contract",
]
LEVEL_TEXT = "proof"
LEVEL_NOTE = ("crash_atomic, import_all_or_nothing, frame, export_import proved for every store, operation, import file, callback and crash point "
              "of the transaction-script model; SQLite's atomic commit is assumed and exercised by kill tests; the model is tied to tofu.py by the "
              "statement script comparison at every run")
TECHNIQUE = ("Lean 4 proof over a statement-script model of TOFUDatabase (association list, transactions as statement lists, crashAt k) + "
             "differential testing of the real class on SQLite through a sqlite3 shim with fault / process-kill injection at every statement boundary")

# ----------------------------------------------------------------------------------------------
# token encodings shared by impl and model
# ----------------------------------------------------------------------------------------------
FP_RE = re.compile(r"^sha256:[0-9a-f]{64}$")
T_RE = re.compile(r"^T[0-9]{8}$")


def fp_str(n: int) -> str:
    return "sha256:" + "%064x" % n


def fp_id(s) -> int:
    if isinstance(s, str) and FP_RE.match(s):
        return int(s[7:], 16)
    return 2 ** 256 + int.from_bytes(hashlib.sha1(repr(s).encode()).digest()[:6], "big")


def t_str(n: int) -> str:
    return "T%08d" % n


def t_id(s) -> int:
    if isinstance(s, str) and T_RE.match(s):
        return int(s[1:])
    return 10 ** 9 + int.from_bytes(hashlib.sha1(repr(s).encode()).digest()[:4], "big")


HOSTS = ["example.com", "a", "b.example", "::1", "[::1]", "2001:db8::7", "a:1", "a:1:2", "a:1965", 'q"uote', "q'uote", "ünï.çödé", "日本語.jp",
         "xn--bcher-kva.de", "sp ace", "tab\there", "nl\nhost", "cr\rhost", "back\\slash", "[hosts]", "hosts.x", "a.b=c", "#hash", "", "nul\x00x",
         "\x7f", "\x1f", "\x85", "\u2028", "\ufeff", "\U0010ffff", "emoji😀", " ", '"""', "'''", "a]b", "{x}", "k = 1", "A", "EXAMPLE.com", "a" * 300,
         # names an importer might take for something else: service labels and lone underscores (`_metadata` is the file's own table),
         # look-alikes of the file's keys and of TOML's literals
         "_gemini._tcp.example.org", "_", "_metadata", "__", "hosts", "version", "true", "0", "-", "."]
PORTS = [1965, 1, 65535, 1966, 300]


def enc_row(r) -> str:
    return f"{cps(r[0])}:{r[1]}:{r[2]}:{r[3]}:{r[4]}"


def enc_store(rows) -> str:
    return ";".join(enc_row(r) for r in rows) if rows else "-"


def dec_store(s: str):
    if s == "-":
        return []
    out = []
    for r in s.split(";"):
        h, p, fp, f, l = r.split(":")
        out.append([core.uncps(h), int(p), int(fp), int(f), int(l)])
    return sorted(out)


# ----------------------------------------------------------------------------------------------
# the instrumented implementation
# ----------------------------------------------------------------------------------------------
class CbBoom(Exception):
    pass


class _Clock:
    value = 0


class _Stamp:
    def __init__(self, v):
        self.v = v

    def isoformat(self):
        return t_str(self.v)


class _DT:
    @staticmethod
    def now(tz=None):
        return _Stamp(_Clock.value)


_SHIM = None

# What SQLite itself reports when a statement cannot run (type, message, sqlite_errorcode, sqlite_errorname).  A fault of the
# families `sqlerr` / `session` is one of these, raised ONCE at a statement boundary by the statement that was about to run - the
# same statement (or any other) works when it is issued again, as after a lock held by another process or a full disk that was
# cleaned up.  (The older faults are an exception class of the harness's own, which no code can mistake for something it knows.)
SQL_ERRORS = {
    "locked": ("OperationalError", "database is locked", 5, "SQLITE_BUSY"),
    "tablelocked": ("OperationalError", "database table is locked", 6, "SQLITE_LOCKED"),
    "busysnapshot": ("OperationalError", "database is locked", 517, "SQLITE_BUSY_SNAPSHOT"),
    "ioerr": ("OperationalError", "disk I/O error", 10, "SQLITE_IOERR"),
    "full": ("OperationalError", "database or disk is full", 13, "SQLITE_FULL"),
    "readonly": ("OperationalError", "attempt to write a readonly database", 8, "SQLITE_READONLY"),
    "interrupted": ("OperationalError", "interrupted", 9, "SQLITE_INTERRUPT"),
    "cantopen": ("OperationalError", "unable to open database file", 14, "SQLITE_CANTOPEN"),
    "corrupt": ("DatabaseError", "database disk image is malformed", 11, "SQLITE_CORRUPT"),
    "notadb": ("DatabaseError", "file is not a database", 26, "SQLITE_NOTADB"),
    "unique": ("IntegrityError", "UNIQUE constraint failed: known_hosts.hostname, known_hosts.port", 1555, "SQLITE_CONSTRAINT_PRIMARYKEY"),
    "toobig": ("DataError", "string or blob too big", 18, "SQLITE_TOOBIG"),
}


def sql_error(name: str) -> BaseException:
    """the exception object sqlite3 raises for that condition (marked so that the harness can tell it from one that SQLite raised)"""
    import sqlite3

    tname, msg, code, ename = SQL_ERRORS[name]
    e = getattr(sqlite3, tname)(msg)
    try:
        e.sqlite_errorcode, e.sqlite_errorname = code, ename
    except AttributeError:
        pass
    e.nv_injected = name
    return e


def err_text(name) -> str:
    if name is None:
        return "an injected exception"
    tname, msg, _, ename = SQL_ERRORS[name]
    return f"sqlite3.{tname}({msg!r}) [{ename}], raised once"


_SHIM_CLASS = None


def shim_class():
    """the statement shim, extended by faults that look like SQLite's own errors (mode `raise:<name>`)"""
    global _SHIM_CLASS
    if _SHIM_CLASS is None:
        from ..sim.store_sqlshim import Shim

        class ErrShim(Shim):
            def boundary(self, conn_id, tag):
                if self.k is not None and self.n == self.k and not self.fired and self.mode.startswith("raise:"):
                    self.fired = True
                    raise sql_error(self.mode[6:])
                super().boundary(conn_id, tag)

        _SHIM_CLASS = ErrShim
    return _SHIM_CLASS


def fault_mode(err) -> str:
    return "raise" if err is None else f"raise:{err}"


def instrument():
    """(idempotent) substitute sqlite3, datetime and the fingerprint function inside nauyaca.security.tofu"""
    global _SHIM
    import datetime as real_dt

    from nauyaca.security import tofu

    if _SHIM is None or tofu.sqlite3 is not _SHIM:
        _SHIM = shim_class()()
        tofu.sqlite3 = _SHIM
        tofu.datetime = types.SimpleNamespace(datetime=_DT, timezone=real_dt.timezone, timedelta=real_dt.timedelta)
        tofu.get_certificate_fingerprint = lambda cert: cert
    return tofu, _SHIM


def read_rows(path: str):
    import sqlite3

    c = sqlite3.connect(path)
    try:
        try:
            rows = c.execute("SELECT hostname, port, fingerprint, first_seen, last_seen FROM known_hosts").fetchall()
        except sqlite3.OperationalError as e:
            if "no such table" not in str(e):
                raise
            rows = []          # the table itself is gone: the store holds no pin at all (the oracles judge that)
    finally:
        c.close()
    return sorted([r[0], r[1], fp_id(r[2]), t_id(r[3]), t_id(r[4])] for r in rows)


def make_db(path: str, rows) -> None:
    tofu, shim = instrument()
    shim.reset()
    from pathlib import Path

    tofu.TOFUDatabase(Path(path))
    import sqlite3

    c = sqlite3.connect(path)
    try:
        for h, p, fp, f, l in rows:
            c.execute("INSERT INTO known_hosts VALUES (?,?,?,?,?)", (h, p, fp_str(fp), t_str(f), t_str(l)))
        c.commit()
    finally:
        c.close()


def toml_str(s: str) -> str:
    """a TOML basic string (written by hand so that the import files do not depend on tomli_w)"""
    import json

    return json.dumps(s, ensure_ascii=False).replace("\x7f", "\\u007f")


def toml_val(v) -> str:
    if isinstance(v, bool):
        return "true" if v else "false"
    if isinstance(v, (int, float)):
        return repr(v)
    return toml_str(v)


def entry_toml(e: dict) -> str:
    """one import entry as an inline table (or a bare integer: the entry is not a table)"""
    d = e.get("defect")
    if d == "notable":
        return "5"
    t = {"hostname": e["host"], "port": e["port"], "fingerprint": e["fpraw"] if "fpraw" in e else fp_str(e["fp"]),
         "first_seen": t_str(e["first"]), "last_seen": t_str(e.get("last", e["first"]))}
    if d and d.startswith("missing:"):
        del t[d.split(":", 1)[1]]
    return "{ " + ", ".join(f"{k} = {toml_val(v)}" for k, v in t.items()) + " }"


def write_import_file(dirpath: str, op: dict) -> str:
    kind = op.get("file", "ok")
    path = os.path.join(dirpath, "import.toml")
    if kind == "missingfile":
        return path
    if kind == "isdir":
        os.mkdir(path)
        return path
    lines, keys = [], set()
    for i, e in enumerate(op["entries"]):
        key = f"{e.get('host', '')}:{e.get('port', '')}"
        if key in keys:
            key += f"#{i}"
        keys.add(key)
        lines.append(f"{toml_str(key)} = {entry_toml(e)}")
    head = '[_metadata]\nversion = "1.0"\n\n'
    if kind == "nohosts":
        text = head + "[other]\n" + "\n".join(lines) + "\n"
    elif kind == "hostsnottable":
        text = "hosts = 5\n\n" + head
    else:
        text = head + "[hosts]\n" + "\n".join(lines) + "\n"
    data = text.encode()
    if kind == "badtoml":
        data += b"\n[hosts\n"
    elif kind == "dupkey":
        data += b'"dup:1" = { hostname = "dup", port = 1 }\n"dup:1" = { hostname = "dup", port = 1 }\n'
    elif kind == "badutf8":
        data += b'\n# \xff\xfe\n'
    with open(path, "wb") as f:
        f.write(data)
    return path


def make_callback(op: dict):
    """the conflict callback: what it does is a function of the POSITION of the entry it is called for.
    The position is read off the shim: every entry reached so far issued exactly one look-up."""
    spec = op.get("cb")
    if spec is None:
        return None

    def on_conflict(hostname, port, old, new):
        _, shim = instrument()
        i = sum(1 for _, t in shim.script if t[0] in ("S", "Q")) - 1
        c = spec[i] if 0 <= i < len(spec) else "s"
        if c == "r":
            raise CbBoom("conflict callback raised")
        if c == "k":
            raise CbInterrupt("interrupted at the conflict prompt")     # not an Exception: Ctrl-C / SystemExit
        return c == "u"

    return on_conflict


class CbInterrupt(BaseException):
    """what a Ctrl-C at the interactive conflict prompt (KeyboardInterrupt) or sys.exit() in the callback looks like"""


def classify_exc(e: BaseException) -> str:
    from ..sim.store_sqlshim import Injected

    m = str(e)
    if isinstance(e, Injected) or getattr(e, "nv_injected", None):
        return "fault"
    if isinstance(e, (CbBoom, CbInterrupt)):
        return "fail:callback"
    if isinstance(e, ValueError) and "missing required field" in m:
        return "fail:missing"
    if isinstance(e, TypeError) and "not iterable" in m:
        return "fail:missing"
    if isinstance(e, ValueError) and "invalid port" in m:
        return "fail:badport"
    if isinstance(e, ValueError) and "invalid fingerprint" in m:
        return "fail:badfp"
    if isinstance(e, AttributeError) and "lower" in m:
        return "fail:badfp"
    if isinstance(e, (FileNotFoundError, IsADirectoryError, UnicodeDecodeError)):
        return "fail:unreadable"
    if type(e).__name__ == "TOMLDecodeError":
        return "fail:unreadable"
    if isinstance(e, ValueError) and ("missing 'hosts'" in m or "must be a table" in m):
        return "fail:unreadable"
    return f"fail:other:{type(e).__name__}:{m[:60]}"


def apply_op(db, op: dict, args) -> str:
    """one operation on an existing store object; returns the outcome"""
    kind = op["kind"]
    try:
        if kind == "trust":
            db.trust(op["host"], op["port"], fp_str(op["fp"]))
            out = "ok"
        elif kind == "verify":
            db.verify(op["host"], op["port"], fp_str(op["fp"]))
            out = "ok"
        elif kind == "revoke":
            db.revoke(op["host"], op["port"])
            out = "ok"
        elif kind == "revokehost":
            db.revoke_by_hostname(op["host"])
            out = "ok"
        elif kind == "clear":
            db.clear()
            out = "ok"
        elif kind == "import":
            r = db.import_toml(args[0], merge=args[1], on_conflict=args[2])
            out = "ok:%d,%d,%d" % tuple(r)
        else:
            raise RuntimeError("unknown op " + kind)
    except (Exception, CbInterrupt) as e:
        out = classify_exc(e)
    return out


def run_op(dbpath: str, op: dict, now: int, workdir: str, k=None, mode="raise", db=None) -> tuple[str, list]:
    """run one operation of the real class (on a fresh store object, or on `db`); returns (outcome, script)"""
    from pathlib import Path

    tofu, shim = instrument()
    kind = op["kind"]
    _Clock.value = now
    args = None
    if kind == "import":
        args = (Path(write_import_file(workdir, op)), op["merge"], make_callback(op))
    if kind == "init":
        shim.reset(k, mode)
        try:
            tofu.TOFUDatabase(Path(dbpath))
            out = "ok"
        except Exception as e:
            out = classify_exc(e)
        script = list(shim.script)
        shim.reset()
        return out, script
    shim.reset()
    if db is None:
        db = tofu.TOFUDatabase(Path(dbpath))
    shim.reset(k, mode)
    out = apply_op(db, op, args)
    script = list(shim.script)
    shim.reset()
    return out, script


def _tok(v, kind):
    if kind == "h":
        return cps(v) if isinstance(v, str) else "!" + repr(v)
    if kind == "fp":
        return str(fp_id(v))
    if kind == "t":
        return str(t_id(v))
    return str(v)


def script_str(script) -> str:
    """canonical text of a recorded script, same form as the driver's"""
    if not script:
        return "-"
    out, last = [], None
    for cid, tag in script:
        k = tag[0]
        if k == "S" or k == "D":
            s = f"{k}:{_tok(tag[1], 'h')}:{tag[2]}"
        elif k == "I":
            s = f"I:{_tok(tag[1], 'h')}:{tag[2]}:{_tok(tag[3], 'fp')}:{_tok(tag[4], 't')}:{_tok(tag[5], 't')}"
        elif k == "U":
            s = f"U:{_tok(tag[1], 'h')}:{tag[2]}:{_tok(tag[3], 'fp')}:{_tok(tag[4], 't')}"
        elif k == "T":
            s = f"T:{_tok(tag[1], 'h')}:{tag[2]}:{_tok(tag[3], 't')}"
        elif k == "DH":
            s = f"DH:{_tok(tag[1], 'h')}"
        else:
            s = k
        out.append(("|" if last is not None and cid != last else ";" if last is not None else "") + s)
        last = cid
    return "".join(out)


# ----------------------------------------------------------------------------------------------
# model encoding
# ----------------------------------------------------------------------------------------------
def entry_model(e: dict) -> str:
    d = e.get("defect")
    missing = 1 if d and (d.startswith("missing:") or d == "notable") else 0
    port = e.get("port", 0)
    port_is_int = isinstance(port, int) and not isinstance(port, bool)
    fp_ok = 0 if "fpraw" in e and not (isinstance(e["fpraw"], str) and FP_RE.match(e["fpraw"].lower())) else 1
    fp = fp_id(e["fpraw"]) if "fpraw" in e else e.get("fp", 0)
    host = e.get("host", "")
    return f"{cps(host)}/{port if port_is_int else 0}/{int(port_is_int)}/{fp}/{fp_ok}/{e.get('first', 0)}/{missing}"


def op_model(op: dict, now: int) -> str:
    k = op["kind"]
    if k in ("init", "clear"):
        return k
    if k in ("trust", "verify"):
        return f"{k}:{cps(op['host'])}:{op['port']}:{op['fp']}:{now}"
    if k == "revoke":
        return f"revoke:{cps(op['host'])}:{op['port']}"
    if k == "revokehost":
        return f"revokehost:{cps(op['host'])}"
    if k == "import":
        if op.get("file", "ok") != "ok":
            f = "X"
        else:
            f = ";".join(entry_model(e) for e in op["entries"]) if op["entries"] else "-"
        return f"import:{int(op['merge'])}:{now}:{op['cb'].replace('k', 'r') if op.get('cb') is not None else 'n'}:{f}"
    raise ValueError(k)


def named(op: dict, host, port) -> bool:
    """does the operation name this key? (straight from the operation's description)"""
    k = op["kind"]
    if k == "init":
        return False
    if k in ("trust", "verify", "revoke"):
        return op["host"] == host and op["port"] == port
    if k == "revokehost":
        return op["host"] == host
    if k == "clear":
        return True
    if k == "import":
        if not op["merge"]:
            return True
        return any(e.get("host") == host and e.get("port") == port for e in op["entries"])
    return True


# ----------------------------------------------------------------------------------------------
# generators
# ----------------------------------------------------------------------------------------------
def gen_store(rng: random.Random, nmax=5):
    n = rng.choice([0, 1, 1, 2, 3, 3, 4, nmax])
    rows, keys = [], set()
    pool = HOSTS if rng.random() < 0.6 else HOSTS[:6]
    for _ in range(n):
        h = rng.choice(pool)
        p = rng.choice(PORTS) if rng.random() < 0.5 else 1965
        if (h, p) in keys:
            continue
        keys.add((h, p))
        f = rng.randint(1, 400)
        # (last_seen BEFORE first_seen is what a store holds after a backup from a machine whose clock ran ahead was imported, or after the
        # clock was stepped back between trust and verify: the round trip must reproduce it as it is)
        rows.append([h, p, rng.randint(1, 6), f, max(0, f + rng.choice([0, 0, 5, 90, -1, -7, -400]))])
        if rng.random() < 0.35:                                   # the same host on another port
            p2 = rng.choice([q for q in PORTS if q != p])
            if (h, p2) not in keys:
                keys.add((h, p2))
                rows.append([h, p2, rng.randint(1, 6), f + 1, f + 1])
    return rows


BAD_FPS = ["sha256:" + "a" * 63, "sha256:" + "g" * 64, "md5:" + "a" * 64, "", "sha256:" + "a" * 65, "a" * 64, 12345]
BAD_PORTS = [0, -1, 65536, 70000, "1965", 1965.5]
FIELDS = ["hostname", "port", "fingerprint", "first_seen", "last_seen"]
FILE_DEFECTS = ["missingfile", "isdir", "badtoml", "dupkey", "badutf8", "nohosts", "hostsnottable"]


def good_entry(rng, store, hosts):
    r = rng.random()
    if store and r < 0.45:
        row = rng.choice(store)                       # existing host: same or conflicting fingerprint
        fp = row[2] if rng.random() < 0.4 else rng.randint(1, 8)
        return {"host": row[0], "port": row[1], "fp": fp, "first": rng.randint(1, 400)}
    e = {"host": rng.choice(hosts), "port": rng.choice(PORTS) if rng.random() < 0.4 else 1965, "fp": rng.randint(1, 8), "first": rng.randint(1, 400)}
    if rng.random() < 0.08:
        e["fpraw"] = fp_str(e["fp"]).upper() if rng.random() < 0.5 else "SHA256:" + fp_str(e["fp"])[7:]
    return e


def make_defect(rng, e, which):
    e = dict(e)
    if which == "missing":
        e["defect"] = "missing:" + rng.choice(FIELDS)
    elif which == "badfp":
        e["fpraw"] = rng.choice(BAD_FPS)
    elif which == "badport":
        e["port"] = rng.choice(BAD_PORTS)
    elif which == "notable":
        e["defect"] = "notable"
    return e


def gen_ops(rng: random.Random, n: int, share=lambda x: x):
    """(store, op, now) triples; every import defect is placed at every entry position"""
    count = 0
    # boundary shapes first
    first = [
        ([], {"kind": "init"}),
        ([], {"kind": "clear"}),
        ([["a", 1965, 1, 10, 10]], {"kind": "import", "merge": False, "entries": [{"host": "x", "port": 1965, "fp": 7, "first": 70}, {"host": "y", "port": 0, "fp": 8, "first": 80}], "cb": None}),
        ([["a", 1965, 1, 10, 10]], {"kind": "import", "merge": False, "entries": [], "cb": None}),
        ([["a", 1965, 1, 10, 10]], {"kind": "import", "merge": True, "entries": [{"host": "a", "port": 1965, "fp": 2, "first": 70}], "cb": "r"}),
        ([["a", 1965, 1, 10, 10], ["a", 1966, 2, 20, 20], ["b", 1965, 3, 30, 30]], {"kind": "revokehost", "host": "a"}),
    ]
    for st, op in share(first):
        yield {"store": st, "op": op, "now": 500}
        count += 1
    while count < n:
        store = gen_store(rng)
        now = rng.randint(401, 900)
        hosts = HOSTS if rng.random() < 0.5 else HOSTS[:6]
        r = rng.random()
        if r < 0.4:
            kind = rng.choice(["trust", "verify", "revoke", "revokehost", "clear", "init", "trust", "verify"])
            if store and rng.random() < 0.65:
                row = rng.choice(store)
                h, p, fp = row[0], row[1], (row[2] if rng.random() < 0.5 else rng.randint(1, 8))
                if rng.random() < 0.15:
                    p = rng.choice(PORTS + [0])       # trust / verify / revoke take any port number, 0 included (the command line passes it on)
            else:
                h, p, fp = rng.choice(hosts), rng.choice(PORTS + [0]), rng.randint(1, 8)
            op = {"kind": kind}
            if kind in ("trust", "verify"):
                op.update(host=h, port=p, fp=fp)
            elif kind == "revoke":
                op.update(host=h, port=p)
            elif kind == "revokehost":
                op.update(host=h)
            yield {"store": store, "op": op, "now": now}
            count += 1
            continue
        merge = rng.random() < 0.5
        m = rng.choice([0, 1, 2, 3, 4, 5])
        entries = [good_entry(rng, store, hosts) for _ in range(m)]
        if rng.random() < 0.3 and entries:                       # duplicate host inside the file
            d = dict(rng.choice(entries))
            if rng.random() < 0.6:
                d["fp"] = rng.randint(1, 8)
                d.pop("fpraw", None)
            entries.insert(rng.randint(0, len(entries)), d)
        cbr = rng.random()
        cb = None if cbr < 0.35 else "".join(rng.choice("usrk" if cbr > 0.7 else "us") for _ in range(len(entries) + 1))
        if r < 0.72:
            yield {"store": store, "op": {"kind": "import", "merge": merge, "entries": entries, "cb": cb}, "now": now}
            count += 1
        elif r < 0.8:
            yield {"store": store, "op": {"kind": "import", "merge": merge, "entries": entries, "cb": cb, "file": rng.choice(FILE_DEFECTS)}, "now": now}
            count += 1
        else:
            which = rng.choice(["missing", "badfp", "badport", "notable", "missing", "badport"])
            bad = make_defect(rng, good_entry(rng, store, hosts), which)
            for pos in range(len(entries) + 1):                  # the defect at every position, both modes
                es = entries[:pos] + [bad] + entries[pos:]
                cbx = None if cb is None else (cb + "ss")[: len(es) + 1]
                for mg in (True, False):
                    yield {"store": store, "op": {"kind": "import", "merge": mg, "entries": es, "cb": cbx}, "now": now}
                    count += 1


class TxnFamily(Family):
    mode = "raise"

    def gen(self, rng, n):
        i = 0
        for c in gen_ops(rng, n, self.share):
            if i >= n:
                break
            i += 1
            yield c

    def impl(self, case):
        d = tempfile.mkdtemp(prefix="nv-")
        try:
            base = os.path.join(d, "base.db")
            make_db(base, case["store"])
            before = read_rows(base)
            work = os.path.join(d, "work.db")
            shutil.copy(base, work)
            w0 = os.path.join(d, "w")
            os.mkdir(w0)
            outcome, script = run_op(work, case["op"], case["now"], w0)
            complete = read_rows(work)
            crashes, fouts = [], []
            for k in range(len(script)):
                for f in os.listdir(d):
                    if f.startswith("work.db"):
                        os.unlink(os.path.join(d, f))
                shutil.copy(base, work)
                wk = os.path.join(d, f"w{k}")
                os.mkdir(wk)
                if self.mode == "raise":
                    o, _ = run_op(work, case["op"], case["now"], wk, k, fault_mode(case.get("err")))
                else:
                    pid = os.fork()
                    if pid == 0:
                        try:
                            run_op(work, case["op"], case["now"], wk, k, "exit")
                        finally:
                            os._exit(0)
                    _, st = os.waitpid(pid, 0)
                    o = "killed" if os.WIFEXITED(st) and os.WEXITSTATUS(st) == 9 else f"child-status-{st}"
                fouts.append(o)
                crashes.append(read_rows(work))
            return {"before": before, "complete": complete, "outcome": outcome, "script": script_str(script), "crashes": crashes,
                    "faults": sorted(set(fouts))}
        finally:
            shutil.rmtree(d, ignore_errors=True)

    def model(self, case):
        return "\t".join(["txnall", enc_store(case["store"]), op_model(case["op"], case["now"])])

    def expect(self, case, out):
        if not out.startswith("ok "):
            return {"model": out}
        _, st, script, outcome, crashes = out.split(" ")
        cr = [] if crashes == "~" else [dec_store(c) for c in crashes.split("/")]
        return {"before": sorted([list(r) for r in case["store"]]), "complete": dec_store(st), "outcome": outcome, "script": script, "crashes": cr}

    def same(self, expected, obs):
        return all(expected.get(k) == obs.get(k) for k in ("before", "complete", "outcome", "script", "crashes"))

    def oracle(self, case, obs):
        before, complete = obs["before"], obs["complete"]
        op = case["op"]
        what = op["kind"] + (("-merge" if op["merge"] else "-replace") if op["kind"] == "import" else "")
        if obs["outcome"].startswith("fail") and complete != before:
            return ("failed-op-changed-store", f"{what} raised ({obs['outcome']}) but the store changed: before {before!r}, after {complete!r}")
        if op["kind"] == "import" and not op["merge"] and obs["outcome"].startswith("ok"):
            # "exactly as after the operation": what a replace-mode import that SUCCEEDED leaves is the file - every host:port of the
            # file and nothing else, never an empty or partly filled store
            want = sorted({(e["host"], e["port"]) for e in op["entries"]})      # a host:port named twice is a conflict inside the file, settled by the callback
            got = sorted({(r[0], r[1]) for r in complete})
            if got != want:
                return ("replace-import-not-the-file", f"{what} succeeded ({obs['outcome']}) on the store {before!r}: the file names {want!r}, the store afterwards holds "
                                                       f"{got!r} - neither the old store nor the file")
        how = "fault" if self.mode != "raise" or case.get("err") is None else f"fault ({err_text(case['err'])})"
        for k, st in enumerate(obs["crashes"]):
            if st != before and st != complete:
                return ("crash-not-atomic", f"{what}: {how} at statement boundary {k} of [{obs['script']}] left the store neither as before nor as after: "
                        f"{st!r} (before {before!r}, complete {complete!r})")
        for label, st in [("complete", complete)] + [(f"crash@{k}", s) for k, s in enumerate(obs["crashes"])]:
            b = {(r[0], r[1]): r for r in before if not named(op, r[0], r[1])}
            a = {(r[0], r[1]): r for r in st if not named(op, r[0], r[1])}
            if a != b:
                return ("frame", f"{what} ({label}) altered rows of hosts it does not name: {sorted(b.values())!r} -> {sorted(a.values())!r}")
        return None

    def key(self, case, obs):
        op = case["op"]
        k = op["kind"]
        if k == "import":
            k += ":" + ("merge" if op["merge"] else "replace") + ":" + (op.get("file") or "ok")
        odd = any(ord(ch) > 126 or ch in ':"\'\\[]=#\n\r\t\x00 ' for r in case["store"] for ch in r[0])
        return (f"{k} {obs['outcome'].split(',')[0][:16]} boundaries={min(len(obs['crashes']), 9)} odd={int(odd)} {','.join(obs['faults'])[:20]}"
                + (f" err={case['err']}" if case.get("err") else ""))


class Fault(TxnFamily):
    name = "fault"
    mode = "raise"
    quick_n = 1600
    thorough_n = 24000


class Kill(TxnFamily):
    name = "kill"
    mode = "exit"
    quick_n = 160
    thorough_n = 6000


class SqlErr(TxnFamily):
    """the fault at every statement boundary is one of the errors SQLite itself raises (`SQL_ERRORS`: database is locked, disk I/O
    error, database or disk is full, UNIQUE constraint failed, ...), raised once: whatever the operation does about it - give up,
    wait and issue the statement again, carry on - the store ends exactly as before or exactly as after the undisturbed operation.
    Imports of several entries (many writing statements in one transaction) in both modes make up most of the cases."""
    name = "sqlerr"
    mode = "raise"
    quick_n = 240
    thorough_n = 8000

    def gen(self, rng, n):
        names = sorted(SQL_ERRORS)
        st = [["old-a.example", 1965, 1, 10, 10], ["::1", 1965, 2, 20, 20], ["shared.example", 1965, 3, 30, 30]]
        ents = [{"host": "new-1.example", "port": 1965, "fp": 4, "first": 70}, {"host": "new-2.example", "port": 300, "fp": 5, "first": 71},
                {"host": "shared.example", "port": 1965, "fp": 6, "first": 72}, {"host": "bücher.example", "port": 1965, "fp": 7, "first": 73}]
        fixed = [{"store": st, "op": {"kind": "import", "merge": mg, "entries": ents, "cb": "uuuuu"}, "now": 500, "err": e}
                 for e in ("locked", "full", "unique") for mg in (True, False)]
        fixed += [{"store": st, "op": {"kind": "trust", "host": "::1", "port": 1965, "fp": 9}, "now": 500, "err": "locked"},
                  {"store": st, "op": {"kind": "revokehost", "host": "::1"}, "now": 500, "err": "ioerr"}]
        count = 0
        for c in self.share(fixed):
            yield c
            count += 1
        while count < n:
            store = gen_store(rng)
            now = rng.randint(401, 900)
            hosts = HOSTS if rng.random() < 0.5 else HOSTS[:6]
            err = names[count % len(names)] if rng.random() < 0.7 else "locked"
            if rng.random() < 0.25:
                kind = rng.choice(["trust", "verify", "revoke", "revokehost", "clear", "init"])
                row = rng.choice(store) if store and rng.random() < 0.7 else [rng.choice(hosts), rng.choice(PORTS), rng.randint(1, 8)]
                op = {"kind": kind}
                if kind in ("trust", "verify"):
                    op.update(host=row[0], port=row[1], fp=row[2] if rng.random() < 0.5 else rng.randint(1, 8))
                elif kind == "revoke":
                    op.update(host=row[0], port=row[1])
                elif kind == "revokehost":
                    op.update(host=row[0])
            else:
                entries = [good_entry(rng, store, hosts) for _ in range(rng.choice([1, 2, 3, 3, 4, 5, 6]))]
                if rng.random() < 0.2:
                    d = dict(rng.choice(entries))                     # duplicate host inside the file
                    d["fp"] = rng.randint(1, 8)
                    d.pop("fpraw", None)
                    entries.insert(rng.randint(0, len(entries)), d)
                if rng.random() < 0.2:                               # a defective entry behind entries that were written
                    bad = make_defect(rng, good_entry(rng, store, hosts), rng.choice(["missing", "badfp", "badport", "notable"]))
                    entries.insert(rng.randint(1, len(entries)), bad)
                cbr = rng.random()
                cb = None if cbr < 0.2 else "".join(rng.choice("uuus" if cbr < 0.85 else "usr") for _ in range(len(entries) + 1))
                op = {"kind": "import", "merge": rng.random() < 0.5, "entries": entries, "cb": cb}
            yield {"store": store, "op": op, "now": now, "err": err}
            count += 1


# ----------------------------------------------------------------------------------------------
# family `session`: several operations on ONE store object
# ----------------------------------------------------------------------------------------------
def own_rows(db):
    """the store as the application reads it through this very object (list_hosts)"""
    _, shim = instrument()
    shim.reset()
    try:
        hosts = db.list_hosts()
    except Exception as e:  # noqa: BLE001
        return [["!" + type(e).__name__, 0, 0, 0, 0]]
    finally:
        shim.reset()
    return sorted([h["hostname"], h["port"], fp_id(h["fingerprint"]), t_id(h["first_seen"]), t_id(h["last_seen"])] for h in hosts)


def gen_step(rng: random.Random, known: list, hosts) -> dict:
    """one operation for a session; `known` = rows the store may hold by now (initial rows + what earlier steps named)"""
    r = rng.random()
    if r < 0.45:
        kind = rng.choice(["trust", "verify", "verify", "verify", "revoke", "revokehost", "clear", "trust"])
        if known and rng.random() < 0.75:
            row = rng.choice(known)
            h, p, fp = row[0], row[1], (row[2] if rng.random() < 0.6 else rng.randint(1, 8))
        else:
            h, p, fp = rng.choice(hosts), rng.choice(PORTS), rng.randint(1, 8)
        op = {"kind": kind}
        if kind in ("trust", "verify"):
            op.update(host=h, port=p, fp=fp)
        elif kind == "revoke":
            op.update(host=h, port=p)
        elif kind == "revokehost":
            op.update(host=h)
        return op
    merge = rng.random() < 0.5
    entries = [good_entry(rng, known, hosts) for _ in range(rng.choice([0, 1, 2, 3, 4, 5]))]
    if rng.random() < 0.25 and entries:
        d = dict(rng.choice(entries))
        d["fp"] = rng.randint(1, 8)
        d.pop("fpraw", None)
        entries.insert(rng.randint(0, len(entries)), d)
    cbr = rng.random()
    cb = None if cbr < 0.35 else "".join(rng.choice("usrk" if cbr > 0.6 else "us") for _ in range(len(entries) + 2))
    op = {"kind": "import", "merge": merge, "entries": entries, "cb": cb}
    d = rng.random()
    if d < 0.45:
        bad = make_defect(rng, good_entry(rng, known, hosts), rng.choice(["missing", "badfp", "badport", "notable", "missing", "badport"]))
        entries.insert(rng.randint(0, len(entries)), bad)       # the defect at any position: before it, entries have been written
    elif d < 0.52:
        op["file"] = rng.choice(FILE_DEFECTS)
    return op


class Session(Family):
    """histories: 2..6 operations through one long-lived TOFUDatabase object (a client session, a GUI, the `tofu` commands of one
    process) - or, for comparison, a fresh object per operation - some of them failing (defective import file, raising conflict
    callback, injected SQL error at a statement boundary).  After every step the table is read from the file by an independent
    connection AND through the object itself.  A step of the history is compared with the model (`txn` on the state observed
    before it)."""
    name = "session"
    quick_n = 1000
    thorough_n = 20000
    model_from_obs = True

    def gen(self, rng, n):
        fixed = []
        st = [["a", 1965, 1, 10, 10], ["b.example", 1965, 2, 20, 20], ["::1", 1966, 3, 30, 30]]
        bad_tail = [{"host": "x", "port": 1965, "fp": 7, "first": 70}, {"host": "a", "port": 1965, "fp": 9, "first": 71}, {"host": "y", "port": 0, "fp": 8, "first": 80}]
        for merge in (True, False):
            for nxt in ({"kind": "verify", "host": "b.example", "port": 1965, "fp": 2}, {"kind": "trust", "host": "new", "port": 1965, "fp": 5},
                        {"kind": "revoke", "host": "::1", "port": 1966}, {"kind": "clear"},
                        {"kind": "import", "merge": True, "entries": [{"host": "z", "port": 1965, "fp": 4, "first": 40}], "cb": None}):
                for cb in (None, "uuu"):
                    fixed.append({"store": st, "reuse": True, "probe": 1,
                                  "steps": [{"op": {"kind": "import", "merge": merge, "entries": bad_tail, "cb": cb}, "now": 500}, {"op": nxt, "now": 510}]})
        # a callback that raises at the third entry, an injected SQL error in the middle of an import, then ordinary use
        fixed.append({"store": st, "reuse": True, "probe": 1,
                      "steps": [{"op": {"kind": "import", "merge": True, "entries": bad_tail[:2] + [{"host": "b.example", "port": 1965, "fp": 6, "first": 72}], "cb": "uur"}, "now": 500},
                                {"op": {"kind": "verify", "host": "::1", "port": 1966, "fp": 3}, "now": 510}]})
        fixed.append({"store": st, "reuse": True, "probe": 1,
                      "steps": [{"op": {"kind": "import", "merge": False, "entries": bad_tail[:2], "cb": "uu"}, "now": 500, "fault": 3},
                                {"op": {"kind": "verify", "host": "::1", "port": 1966, "fp": 3}, "now": 510}]})
        for merge in (True, False):
            for k in (3, 5):
                fixed.append({"store": st, "reuse": merge, "probe": 1,
                              "steps": [{"op": {"kind": "import", "merge": merge, "entries": bad_tail[:2] + [{"host": "w", "port": 1965, "fp": 3, "first": 73}], "cb": "uuu"},
                                         "now": 500, "fault": k, "err": "locked"},
                                        {"op": {"kind": "verify", "host": "::1", "port": 1966, "fp": 3}, "now": 510}]})
        count = 0
        for c in self.share(fixed):
            yield c
            count += 1
        while count < n:
            store = gen_store(rng)
            hosts = HOSTS if rng.random() < 0.5 else HOSTS[:6]
            known = [list(r) for r in store]
            steps, now = [], rng.randint(401, 500)
            for _ in range(rng.choice([2, 2, 3, 3, 4, 6])):
                op = gen_step(rng, known, hosts)
                now += rng.randint(1, 60)
                step = {"op": op, "now": now}
                if rng.random() < 0.15:
                    step["fault"] = rng.choice([0, 1, 2, 2, 3, 4, 6])      # an SQL error at this statement boundary of the step (if it has that many)
                    if rng.random() < 0.5:
                        step["err"] = rng.choice(sorted(SQL_ERRORS) + ["locked"] * 4)   # ... that looks like one of SQLite's own, raised once
                steps.append(step)
                if op["kind"] in ("trust",):
                    known.append([op["host"], op["port"], op["fp"], now, now])
                elif op["kind"] == "import":
                    known += [[e["host"], e["port"], e["fp"], e.get("first", 1), now] for e in op["entries"]
                              if isinstance(e.get("port"), int) and not isinstance(e.get("port"), bool) and 1 <= e["port"] <= 65535 and isinstance(e.get("host"), str) and "fp" in e]
            yield {"store": store, "steps": steps, "reuse": rng.random() < 0.8, "probe": rng.randrange(len(steps))}
            count += 1

    def impl(self, case):
        from pathlib import Path

        tofu, shim = instrument()
        d = tempfile.mkdtemp(prefix="nv-")
        try:
            path = os.path.join(d, "tofu.db")
            make_db(path, case["store"])
            shim.reset()
            db = tofu.TOFUDatabase(Path(path)) if case["reuse"] else None
            file_views = [read_rows(path)]
            own_views = [own_rows(db) if db is not None else file_views[0]]
            outcomes, fired, alone = [], [], []
            for i, step in enumerate(case["steps"]):
                w = os.path.join(d, f"w{i}")
                os.mkdir(w)
                cur = db if db is not None else tofu.TOFUDatabase(Path(path))
                k = step.get("fault")
                cp = os.path.join(d, f"alone{i}.db")
                if k is not None:
                    shutil.copy(path, cp)             # the (committed) state this step starts from
                out, script = run_op(path, step["op"], step["now"], w, k, fault_mode(step.get("err")), db=cur)
                outcomes.append(out)
                fired.append(out == "fault")
                file_views.append(read_rows(path))
                own_views.append(own_rows(cur))
                if k is not None:
                    # what the step does when nothing interferes: the same operation on the copy
                    wa = os.path.join(d, f"wa{i}")
                    os.mkdir(wa)
                    run_op(cp, step["op"], step["now"], wa)
                    alone.append(read_rows(cp))
                else:
                    alone.append(None)
            del db, cur
            obs = {"file": file_views, "own": own_views, "outcomes": outcomes, "fired": fired, "alone": alone}
            obs["probe"] = self._probe(case, obs)
            return obs
        finally:
            shutil.rmtree(d, ignore_errors=True)

    # ---- model: one step of the history, from the state observed before it ------------------
    def _probe(self, case, obs):
        outs = obs["outcomes"]
        for i in range(1, len(outs)):
            if outs[i - 1].startswith("fail") or outs[i - 1] == "fault":
                return i                                   # the step that follows a failed one
        return case.get("probe", 0) % max(len(outs), 1)

    def model_obs(self, case, obs):
        j = obs["probe"]
        before = obs["file"][j]
        if any(r[2] >= 2 ** 256 or r[3] >= 10 ** 9 or r[4] >= 10 ** 9 for r in before):
            return None
        step = case["steps"][j]
        k = str(step["fault"]) if obs["fired"][j] else "all"
        return "\t".join(["txn", enc_store(before), op_model(step["op"], step["now"]), k])

    def expect(self, case, out):
        if not out.startswith("ok "):
            return {"model": out}
        _, st, _script, outcome = out.split(" ")
        return {"after": dec_store(st), "outcome": outcome}

    def same(self, expected, obs):
        if "after" not in expected:
            return False
        j = obs["probe"]
        return obs["file"][j + 1] == expected["after"] and (obs["fired"][j] or obs["outcomes"][j] == expected["outcome"])

    # ---- the property ------------------------------------------------------------------------
    def oracle(self, case, obs):
        steps = case["steps"]
        how = "one store object" if case["reuse"] else "a fresh store object per step"
        for view, label in ((obs["file"], "the file"), (obs["own"], "the store as listed through the object")):
            hist = []
            for i, step in enumerate(steps):
                op, out = step["op"], obs["outcomes"][i]
                what = op["kind"] + (("-merge" if op["merge"] else "-replace") if op["kind"] == "import" else "")
                hist.append(f"{what}{'' if out.startswith('ok') else ' -> ' + out}")
                where = f"step {i + 1} of [{'; '.join(hist)}] on {how}"
                b, a = view[i], view[i + 1]
                if out.startswith("fail") and a != b:
                    return ("failed-op-changed-store", f"{where}: {what} raised ({out}) but {label} changed: before {b!r}, after {a!r}")
                if step.get("fault") is not None and not out.startswith("fail") and a != b and a != obs["alone"][i]:
                    # whether the error came out of the operation (out == "fault") or the operation dealt with it and went on
                    return ("crash-not-atomic", f"{where}: an SQL error ({err_text(step.get('err'))}) at statement boundary {step.get('fault')} of {what} left {label} neither as before nor "
                            f"as after: {a!r} (before {b!r}, after the undisturbed operation {obs['alone'][i]!r})")
                bb = {(r[0], r[1]): r for r in b if not named(op, r[0], r[1])}
                aa = {(r[0], r[1]): r for r in a if not named(op, r[0], r[1])}
                if aa != bb:
                    return ("frame", f"{where}: {what} ({out}) altered rows of hosts it does not name in {label}: {sorted(bb.values())!r} -> {sorted(aa.values())!r}")
        return None

    def key(self, case, obs):
        outs = obs["outcomes"]
        cls = "".join("F" if o.startswith("fail") else "X" if o == "fault" else "." for o in outs)
        after_fail = any(cls[i - 1] in "FX" and cls[i] == "." for i in range(1, len(cls)))
        return f"steps={cls} reuse={int(case['reuse'])} ok-after-fail={int(after_fail)}"


# ----------------------------------------------------------------------------------------------
# family `bulk`: large stores and large import files (thousands of hosts, megabytes), crash at a late boundary
# ----------------------------------------------------------------------------------------------
def bulk_name(salt: int, tag: str, i: int, length: int) -> str:
    """a host name of about `length` characters (DNS allows 253), spread evenly over the key space, distinct for distinct i"""
    h = hashlib.sha256(f"{salt}:{tag}:{i}".encode()).hexdigest()
    uniq = f"{h[:4]}{i:x}"
    body = (uniq + h * (length // 64 + 1))[: max(length - 8, len(uniq))]
    return ".".join(body[j:j + 60] for j in range(0, len(body), 60))[: max(length - 8, len(uniq))] + ".example"


def bulk_store(case: dict) -> list:
    b = case["bulk"]
    rows = [[h, 1965, i + 1, 10 + i, 20 + i] for i, h in enumerate(HOSTS[: min(b["store_n"], 12)])]
    rows += [[bulk_name(b["salt"], "old", i, b["store_len"]), 1965 + i % 3, 100 + i, 10 + i % 300, 20 + i % 300] for i in range(max(b["store_n"] - len(rows), 0))]
    return rows


def bulk_op(case: dict) -> dict:
    """the operation of a bulk case, written out (the case itself only holds the parameters)"""
    b = case["bulk"]
    if b["kind"] == "clear":
        return {"kind": "clear"}
    store = bulk_store(case)
    entries = []
    cb = []
    for i in range(b["n"]):
        if store and i % 97 == 96:
            row = store[(i // 97) % len(store)]           # an existing host, another fingerprint: the callback is asked
            entries.append({"host": row[0], "port": row[1], "fp": row[2] + 100000, "first": 300})
        else:
            entries.append({"host": bulk_name(b["salt"], "new", i, b["len"]), "port": 1965, "fp": 1000 + i, "first": 70 + i % 300})
        cb.append("u" if i % 2 else "s")
    if b["tail"] == "badport":
        entries.append({"host": "last.example", "port": 0, "fp": 5, "first": 70})
        cb.append("s")
    elif b["tail"] == "badfp":
        entries.append({"host": "last.example", "port": 1965, "fpraw": "sha256:xyz", "first": 70})
        cb.append("s")
    elif b["tail"] == "cbraise" and store:
        entries.append({"host": store[0][0], "port": store[0][1], "fp": 999999, "first": 70})
        cb.append("r")
    return {"kind": "import", "merge": b["merge"], "entries": entries, "cb": "".join(cb) + "s"}


def read_rows_safe(path: str):
    """(rows, error): a store file that SQLite can no longer read is an observation, not a harness failure"""
    import sqlite3

    try:
        return read_rows(path), None
    except sqlite3.DatabaseError as e:
        return [], f"{type(e).__name__}: {e}"


def summary(rows: list, before: list) -> dict:
    """a large table in few words: size, digest, and how it differs from `before`"""
    bset, rset = {json_key(r) for r in before}, {json_key(r) for r in rows}
    lost = [r for r in before if json_key(r) not in rset]
    extra = [r for r in rows if json_key(r) not in bset]
    return {"n": len(rows), "sha": hashlib.sha1(repr(rows).encode()).hexdigest()[:16], "lost_n": len(lost), "extra_n": len(extra),
            "lost": [[r[0][:40]] + r[1:] for r in lost[:3]], "extra": [[r[0][:40]] + r[1:] for r in extra[:3]]}


def json_key(r) -> tuple:
    return (r[0], r[1], r[2], r[3], r[4])


class Bulk(Family):
    """Stores and import files of thousands of hosts (names up to the 253 characters DNS allows): transactions of several
    megabytes.  One case = one operation, run to its end once and once more with the fault at ONE late statement boundary
    (`at` = fraction of the script; 1.0 = just before the commit): the process is killed there (or an SQL error is injected),
    the file is reopened, the table read back, and every pin of the old store is looked up through a fresh store object."""
    name = "bulk"
    thorough_n = 192
    model_from_obs = True

    quick_n = 8          # one case per process in the quick tier (a case takes seconds)
    FIXED = [
        {"kind": "import", "merge": True, "n": 3200, "len": 253, "store_n": 400, "store_len": 40, "tail": "ok", "at": 1.0, "mode": "exit"},
        {"kind": "import", "merge": False, "n": 3200, "len": 253, "store_n": 400, "store_len": 40, "tail": "ok", "at": 1.0, "mode": "exit"},
        {"kind": "import", "merge": True, "n": 5000, "len": 120, "store_n": 50, "store_len": 120, "tail": "cbraise", "at": 1.0, "mode": "exit"},
        {"kind": "import", "merge": True, "n": 2600, "len": 253, "store_n": 2000, "store_len": 200, "tail": "badport", "at": 0.97, "mode": "exit"},
        {"kind": "clear", "merge": True, "n": 0, "len": 0, "store_n": 5000, "store_len": 253, "tail": "ok", "at": 1.0, "mode": "exit"},
        {"kind": "import", "merge": False, "n": 3000, "len": 200, "store_n": 3000, "store_len": 253, "tail": "ok", "at": 0.9, "mode": "exit"},
        {"kind": "import", "merge": True, "n": 3200, "len": 253, "store_n": 400, "store_len": 40, "tail": "badfp", "at": 1.0, "mode": "raise"},
        {"kind": "import", "merge": True, "n": 9000, "len": 30, "store_n": 400, "store_len": 30, "tail": "ok", "at": 1.0, "mode": "exit"},
    ]

    def gen(self, rng, n):
        count = 0
        for b in self.share(self.FIXED):
            # the boundary shapes, each time with other names and a somewhat different size
            yield {"bulk": dict(b, n=int(b["n"] * rng.uniform(0.9, 1.25)), salt=rng.randrange(10 ** 6)), "now": rng.randint(401, 900)}
            count += 1
        while count < n:
            kind = "clear" if rng.random() < 0.12 else "import"
            ln = rng.choice([12, 60, 150, 253, 253])
            # between a few hundred kilobytes and ~8 MB of rows
            target = rng.choice([200_000, 800_000, 2_000_000, 3_000_000, 5_000_000, 8_000_000])
            nrows = max(50, min(target // (2 * ln + 130), 15000))
            b = {"kind": kind, "merge": rng.random() < 0.5, "n": 0 if kind == "clear" else nrows, "len": ln,
                 "store_n": nrows if kind == "clear" else rng.choice([0, 5, 50, 400, 400, 2000]), "store_len": rng.choice([20, 40, 120, 253]) if kind != "clear" else ln,
                 "tail": rng.choice(["ok", "ok", "ok", "badport", "badfp", "cbraise"]), "at": rng.choice([1.0, 1.0, 1.0, 0.99, 0.9, 0.6, 0.3]),
                 "mode": "exit" if rng.random() < 0.8 else "raise", "salt": rng.randrange(10 ** 6)}
            yield {"bulk": b, "now": rng.randint(401, 900)}
            count += 1

    def impl(self, case):
        from pathlib import Path

        b = case["bulk"]
        store, op = bulk_store(case), bulk_op(case)
        d = tempfile.mkdtemp(prefix="nv-")
        try:
            base = os.path.join(d, "base.db")
            make_db(base, store)
            before = read_rows(base)
            work = os.path.join(d, "work.db")
            shutil.copy(base, work)
            w0 = os.path.join(d, "w")
            os.mkdir(w0)
            outcome, script = run_op(work, op, case["now"], w0)
            complete = read_rows(work)
            n = len(script)
            k = min(int(b["at"] * n), n - 1)
            for f in os.listdir(d):
                if f.startswith("work.db"):
                    os.unlink(os.path.join(d, f))
            shutil.copy(base, work)
            wk = os.path.join(d, "wk")
            os.mkdir(wk)
            if b["mode"] == "raise":
                fo, _ = run_op(work, op, case["now"], wk, k, "raise")
            else:
                pid = os.fork()
                if pid == 0:
                    try:
                        run_op(work, op, case["now"], wk, k, "exit")
                    finally:
                        os._exit(0)
                _, st = os.waitpid(pid, 0)
                fo = "killed" if os.WIFEXITED(st) and os.WEXITSTATUS(st) == 9 else f"child-status-{st}"
            left = sorted(f for f in os.listdir(d) if f.startswith("work.db") and f != "work.db")
            crash, err = read_rows_safe(work)
            # every pin of the old store, looked up the way a client does (a fresh store object, get_host_info)
            tofu, shim = instrument()
            shim.reset()
            missing = []
            if err is None and crash != complete:
                try:
                    db = tofu.TOFUDatabase(Path(work))
                    for r in before:
                        info = db.get_host_info(r[0], r[1])
                        if info is None or fp_id(info["fingerprint"]) != r[2]:
                            missing.append([r[0][:40], r[1]])
                except Exception as e:  # noqa: BLE001
                    err = f"{type(e).__name__}: {e}"
            shim.reset()
            state = "unreadable" if err else "before" if crash == before else "complete" if crash == complete else "other"
            return {"before_n": len(before), "script_n": n, "k": k, "outcome": outcome.split(",")[0] if outcome.startswith("ok:") else outcome, "fault": fo,
                    "complete": summary(complete, before), "crash": summary(crash, before), "state": state, "error": err,
                    "lookup_missing": len(missing), "lookup_sample": missing[:3], "journal_left": left}
        finally:
            shutil.rmtree(d, ignore_errors=True)

    def model_obs(self, case, obs):
        return "\t".join(["txn", enc_store(bulk_store(case)), op_model(bulk_op(case), case["now"]), str(obs["k"])])

    def expect(self, case, out):
        if not out.startswith("ok "):
            return {"model": out[:200]}
        st = out.split(" ", 2)[1]
        before = sorted([list(r) for r in bulk_store(case)])
        return {"crash": summary(dec_store(st), before)}

    def same(self, expected, obs):
        return expected.get("crash") == obs.get("crash")

    def oracle(self, case, obs):
        b = case["bulk"]
        what = (f"import-{'merge' if b['merge'] else 'replace'} of {b['n']} hosts (names of {b['len']} characters, tail {b['tail']})" if b["kind"] == "import"
                else "clear") + f" on a store of {obs['before_n']} hosts"
        how = (f"process killed at statement boundary {obs['k']} of {obs['script_n']}" if b["mode"] == "exit" else f"SQL error at statement boundary {obs['k']} of {obs['script_n']}")
        if obs["outcome"].startswith("fail") and obs["complete"]["lost_n"] + obs["complete"]["extra_n"] > 0:
            return ("failed-op-changed-store", f"{what} raised ({obs['outcome']}) but the store changed: {obs['complete']['lost_n']} old rows gone or altered "
                    f"(e.g. {obs['complete']['lost']!r}), {obs['complete']['extra_n']} new (e.g. {obs['complete']['extra']!r})")
        if obs["state"] == "unreadable":
            return ("crash-store-unreadable", f"{what}, {how}: the store file can no longer be read ({obs['error']})")
        if obs["state"] == "other":
            c = obs["crash"]
            return ("crash-not-atomic", f"{what}, {how}, store reopened: neither as before nor as after the operation - {c['n']} hosts; {c['lost_n']} of the old rows "
                    f"are gone or altered (e.g. {c['lost']!r}), {c['extra_n']} rows of the unfinished operation are present (e.g. {c['extra']!r}); "
                    f"{obs['lookup_missing']} of the {obs['before_n']} old pins are not found by get_host_info() any more")
        if obs["state"] == "before" and obs["lookup_missing"]:
            return ("crash-lost-pins", f"{what}, {how}, store reopened: the table lists the old rows, but {obs['lookup_missing']} of the {obs['before_n']} old pins are not found by "
                    f"get_host_info() any more (e.g. {obs['lookup_sample']!r}): those hosts are back to first use")
        return None

    def key(self, case, obs):
        b = case["bulk"]
        size = (b["n"] * (2 * b["len"] + 130) + 0) if b["kind"] == "import" else b["store_n"] * (2 * b["store_len"] + 130)
        return (f"{b['kind']}{':merge' if b['merge'] and b['kind'] == 'import' else ':replace' if b['kind'] == 'import' else ''} tail={b['tail']} {b['mode']} "
                f"~{'<1' if size < 1e6 else '1-2' if size < 2e6 else '2-4' if size < 4e6 else '>4'}MB at={b['at']} {obs['outcome'][:12]} state={obs['state']}")


def store_child_env(name: str) -> str:
    from ..sim import store_child

    if name.startswith("locale:"):
        return f"LC_ALL={name[7:]} PYTHONUTF8=0 PYTHONCOERCECLOCALE=0"
    return " ".join(f"{k}={v}" for k, v in sorted(store_child.ENVIRONMENTS[name].items()) if k != "LANG")


def roundtrip_here(case: dict) -> dict:
    """build the store, export it, import the file into an empty store - in this process, in whatever environment it runs"""
    from pathlib import Path

    tofu, shim = instrument()
    shim.reset()
    d = tempfile.mkdtemp(prefix="nv-")
    try:
        db = tofu.TOFUDatabase(Path(d) / "a.db")
        for h, p, fp, f, l in case["rows"]:
            _Clock.value = f
            db.trust(h, p, fp_str(fp))
            if l != f:
                _Clock.value = l
                db.verify(h, p, fp_str(fp))
        rows1 = read_rows(os.path.join(d, "a.db"))
        out = Path(d) / "export.toml"
        try:
            _Clock.value = case["now"]
            n = db.export_toml(out)
            import tomllib

            with open(out, "rb") as fh:
                keys = sorted(tomllib.load(fh).get("hosts", {}).keys())
            db2 = tofu.TOFUDatabase(Path(d) / "b.db")
            ret = list(db2.import_toml(out, merge=True))
        except Exception as e:
            return {"rows1": rows1, "error": f"{type(e).__name__}: {str(e)[:120]}"}
        rows2 = read_rows(os.path.join(d, "b.db"))
        return {"rows1": rows1, "rows2": rows2, "ret": ret, "exported": n, "keys": keys}
    finally:
        shutil.rmtree(d, ignore_errors=True)


class RoundTrip(Family):
    name = "roundtrip"
    quick_n = 400
    thorough_n = 8000

    def gen(self, rng, n):
        yield {"rows": [], "now": 900}
        yield {"rows": [[h, 1965, i + 1, 10 + i, 20 + i] for i, h in enumerate(HOSTS)], "now": 901}
        yield {"rows": [["a:1", 2, 1, 10, 10], ["a", 12, 2, 20, 20], ["a:1", 12, 3, 30, 30], ["a", 1, 4, 40, 40]], "now": 902}
        yield {"rows": [["late.example", 1965, 1, 300, 20], ["b", 1965, 2, 21, 20], ["c", 7, 3, 399, 0]], "now": 905}        # first seen AFTER last seen
        # pairs that collide under plausible non-injective key formats (no separator, port dropped, host lower-cased, separator not last)
        yield {"rows": [["a1", 965, 1, 10, 10], ["a", 1965, 2, 20, 20], ["A", 1965, 3, 30, 30], ["a:19", 65, 4, 40, 40], ["a", 65, 5, 50, 50],
                        ["a", 19, 6, 60, 60], ["a:19:65", 1, 7, 70, 70]], "now": 903}
        # the process environment of `tofu export` / `tofu import`: the same stores, in interpreters started under other locales
        from ..sim import store_child

        envs = store_child.available()
        fixed = [{"rows": [[h, 1965, i + 1, 10 + i, 20 + i] for i, h in enumerate(hs)], "now": 904, "env": e}
                 for e in envs for hs in (HOSTS, ["example.com", "ünï.çödé"], ["plain.example", "a"])]
        for c in self.share(fixed):
            yield c
        for _ in range(max(0, n - 4)):
            rows, keys = [], set()
            for _ in range(rng.choice([1, 2, 3, 5, 8, 12])):
                r = rng.random()
                if r < 0.6:
                    h = rng.choice(HOSTS)
                elif r < 0.8:
                    h = "".join(rng.choice('ab:.[]"\'\\=# \t\n#é日{},') for _ in range(rng.randint(0, 8)))
                else:
                    h = "".join(chr(rng.choice([rng.randint(0, 0x7f), rng.randint(0x80, 0x7ff), rng.randint(0x800, 0xd7ff), rng.randint(0xe000, 0xffff), rng.randint(0x10000, 0x10ffff)]))
                                for _ in range(rng.randint(1, 5)))
                p = rng.choice(PORTS + [rng.randint(1, 65535)])
                if (h, p) in keys:
                    continue
                keys.add((h, p))
                f = rng.randint(1, 400)
                # (a last_seen BEFORE the first_seen: a store restored from a backup of a machine whose clock ran ahead, or a clock stepped back
                # between trust and verify - the round trip reproduces every first-seen value as it is, whatever its relation to last_seen)
                rows.append([h, p, rng.randint(1, 10 ** 9), f, max(0, f + rng.choice([0, 7, 7, -1, -30, -400]))])
            case = {"rows": rows, "now": rng.randint(401, 999)}
            if rng.random() < 0.06:
                case["env"] = rng.choice(envs)
            yield case

    def impl(self, case):
        env = case.get("env")
        if env is None:
            return roundtrip_here(case)
        # the whole round trip in an interpreter started in that environment
        from ..sim import store_child

        d = tempfile.mkdtemp(prefix="nv-")
        try:
            obs = store_child.run({"env": env, "do": "roundtrip", "case": {k: v for k, v in case.items() if k != "env"}}, d)
        finally:
            shutil.rmtree(d, ignore_errors=True)
        return obs

    def same(self, expected, obs):
        return "model" not in expected and all(expected.get(k) == obs.get(k) for k in ("rows1", "rows2", "ret", "exported", "keys")) and "error" not in obs

    def model(self, case):
        return "\t".join(["roundtrip", enc_store(case["rows"]), str(case["now"])])

    def expect(self, case, out):
        if not out.startswith("ok "):
            return {"model": out}
        _, st, keys = out.split(" ")
        rows1 = sorted([list(r) for r in case["rows"]])
        ks = [] if keys == "-" else sorted(core.uncps(k) for k in keys.split(";"))
        return {"rows1": rows1, "rows2": dec_store(st), "ret": [len(rows1), 0, 0], "exported": len(rows1), "keys": ks}

    def oracle(self, case, obs):
        where = "" if case.get("env") is None else f" in a process started with {store_child_env(case['env'])} (default text encoding {obs.get('locale_encoding', '?')})"
        if "error" in obs:
            return ("roundtrip-raises", f"export then import into an empty store{where} raised {obs['error']}; hosts in the store: {[r[0] for r in obs['rows1']]!r}")
        a = sorted(r[:4] for r in obs["rows1"])
        b = sorted(r[:4] for r in obs["rows2"])
        if a != b:
            lost = [r for r in a if r not in b]
            new = [r for r in b if r not in a]
            return ("roundtrip-differs", f"export then import into an empty store{where} lost {lost!r} and produced {new!r}")
        return None

    def key(self, case, obs):
        hs = [r[0] for r in case["rows"]]
        cls = []
        if any(":" in h for h in hs):
            cls.append("colon")
        if any('"' in h or "'" in h or "\\" in h for h in hs):
            cls.append("quote")
        if any(ord(c) > 127 for h in hs for c in h):
            cls.append("nonascii")
        if any(ord(c) < 32 or ord(c) == 127 for h in hs for c in h):
            cls.append("control")
        if any(c in "[]=#{}" for h in hs for c in h):
            cls.append("tomlmeta")
        env = "" if case.get("env") is None else f" env={case['env']}/{obs.get('locale_encoding', '?')}"
        return f"n={min(len(hs), 9)} {'+'.join(cls) or 'plain'} {'error' if 'error' in obs else 'ok'}{env}"


FAMILIES = [Fault(), Kill(), SqlErr(), Session(), Bulk(), RoundTrip()]
