import NauyacaVerif.Mw.Acl
namespace Mw

/-! # Lemmas for C09: what `contains` means, and the start-up path -/

/-- a network as `ipaddress` produces it: prefix within the family's width, no host bits set -/
def Net.WF (n : Net) : Prop :=
  n.plen ≤ n.fam.bits ∧ n.base % 2 ^ (n.fam.bits - n.plen) = 0

/-- number of addresses in the block -/
def Net.size (n : Net) : Nat := 2 ^ (n.fam.bits - n.plen)

theorem contains_fam (n : Net) (a : Addr) (h : n.contains a = true) : n.fam = a.fam := by
  unfold Net.contains at h
  simp only [Bool.and_eq_true, decide_eq_true_eq] at h
  exact h.1

theorem contains_cross_family (n : Net) (a : Addr) (h : n.fam ≠ a.fam) : n.contains a = false := by
  cases hc : n.contains a with
  | false => rfl
  | true => exact absurd (contains_fam n a hc) h

/-- `contains` is integer arithmetic: same family and the same quotient by the block size -/
theorem contains_div (n : Net) (a : Addr) :
    n.contains a = true ↔ n.fam = a.fam ∧ a.val / n.size = n.base / n.size := by
  unfold Net.contains Net.size
  simp only [Bool.and_eq_true, decide_eq_true_eq, beq_iff_eq, Nat.shiftRight_eq_div_pow]

/-- for a well-formed network, membership is the interval `base ≤ address < base + size`:
    the address one below `base` and the address `base + size` are outside, everything between is inside -/
theorem contains_interval (n : Net) (a : Addr) (hw : n.WF) :
    n.contains a = true ↔ n.fam = a.fam ∧ n.base ≤ a.val ∧ a.val < n.base + n.size := by
  rw [contains_div]
  have hk : 0 < n.size := Nat.pow_pos (by decide)
  have hm : n.base % n.size = 0 := hw.2
  have hb : n.size * (n.base / n.size) = n.base := by
    have := Nat.div_add_mod n.base n.size
    omega
  constructor
  · rintro ⟨hf, hq⟩
    refine ⟨hf, ?_⟩
    have h1 := (Nat.div_eq_iff hk).mp hq
    have : n.base / n.size * n.size = n.base := by rw [Nat.mul_comm]; exact hb
    omega
  · rintro ⟨hf, hlo, hhi⟩
    refine ⟨hf, ?_⟩
    apply (Nat.div_eq_iff hk).mpr
    have : n.base / n.size * n.size = n.base := by rw [Nat.mul_comm]; exact hb
    omega

/-! ### entries and start-up -/

theorem interpList_none_iff (es : List Entry) : interpList es = none ↔ ∃ e ∈ es, e.interp = none := by
  induction es with
  | nil => simp [interpList]
  | cons e es ih =>
    simp only [interpList, List.mem_cons, exists_eq_or_imp]
    cases he : e.interp with
    | none => simp
    | some n =>
      cases hr : interpList es with
      | none => simp only [reduceCtorEq, false_or, true_iff]; exact ih.mp hr
      | some ns =>
        simp only [reduceCtorEq, false_or, false_iff]
        intro h
        have := ih.mpr h
        rw [hr] at this
        exact absurd this (by simp)

theorem interpList_length (es : List Entry) (ns : List Net) (h : interpList es = some ns) : ns.length = es.length := by
  induction es generalizing ns with
  | nil => simp [interpList] at h; subst h; rfl
  | cons e es ih =>
    simp only [interpList] at h
    cases he : e.interp with
    | none => simp [he] at h
    | some n =>
      cases hr : interpList es with
      | none => simp [he, hr] at h
      | some ms =>
        simp only [he, hr, Option.some.injEq] at h
        subst h
        simp [ih ms hr]

theorem interpList_isEmpty (es : List Entry) (ns : List Net) (h : interpList es = some ns) : ns.isEmpty = es.isEmpty := by
  have := interpList_length es ns h
  cases ns <;> cases es <;> simp_all

theorem mkAcl_none_iff (allow deny : Option (List Entry)) (dflt : Bool) :
    mkAcl allow deny dflt = none ↔ ∃ e ∈ allow.getD [] ++ deny.getD [], e.interp = none := by
  unfold mkAcl
  cases ha : interpList (allow.getD []) with
  | none =>
    have := (interpList_none_iff _).mp ha
    obtain ⟨e, he, hn⟩ := this
    simp only [true_iff]
    exact ⟨e, List.mem_append_left _ he, hn⟩
  | some al =>
    have hna : ¬ ∃ e ∈ allow.getD [], e.interp = none := by
      intro h; have := (interpList_none_iff _).mpr h; rw [ha] at this; exact absurd this (by simp)
    cases hd : interpList (deny.getD []) with
    | none =>
      obtain ⟨e, he, hn⟩ := (interpList_none_iff _).mp hd
      simp only [true_iff]
      exact ⟨e, List.mem_append_right _ he, hn⟩
    | some dn =>
      have hnd : ¬ ∃ e ∈ deny.getD [], e.interp = none := by
        intro h; have := (interpList_none_iff _).mpr h; rw [hd] at this; exact absurd this (by simp)
      simp only [reduceCtorEq, false_iff]
      rintro ⟨e, he, hn⟩
      rcases List.mem_append.mp he with h | h
      · exact hna ⟨e, h, hn⟩
      · exact hnd ⟨e, h, hn⟩

theorem aclProcess_none_iff (acl : Acl) (a : Option Addr) : aclProcess acl a = none ↔ isAllowed acl a = true := by
  unfold aclProcess
  cases isAllowed acl a <;> simp

/-- with every entry interpretable, the running server holds exactly the interpreted policy
    (or no component at all when that policy admits everybody) -/
theorem start_running (c : RawCfg) (al dn : List Net)
    (ha : interpList (c.allow.getD []) = some al) (hd : interpList (c.deny.getD []) = some dn) :
    start c = .running (buildAcl ⟨c.enabled, some al, some dn, c.dflt⟩) := by
  have hea := interpList_isEmpty _ _ ha
  have hed := interpList_isEmpty _ _ hd
  unfold start buildAcl noPolicy mkAcl
  simp only [Option.getD_some, hea, hed, ha, hd]
  cases c.enabled <;> simp
  split <;> rfl

end Mw
