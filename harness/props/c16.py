"""C16  Redirect following is bounded, loop-free and stays on gemini://

Correspondence: the real `GeminiClient.get` / `_get_with_redirects` with
`_get_single` replaced by a redirect graph, against `Cl.get` in the Lean model.
"""
from __future__ import annotations

import asyncio
import itertools
import random

from .. import core
from ..core import Family, cps

ID = "C16"
READY = True
LEAN_TARGETS = ["NauyacaVerif.Props.C16"]
THEOREMS = [f"NauyacaVerif.C16.{t}" for t in
            ("redirect_bound", "redirect_scheme", "redirect_no_fake_final", "redirect_follows", "no_follow_single")]
EXTRACT = ["maxRedirects"]
ASSUMPTIONS = [
    "a 'connection' is a call of GeminiClient._get_single (the only place that opens a transport); the pin check of every hop is inside _get_single and is covered by C03/C11",
    "thorough tier additionally runs chains against scripted loopback TLS servers (family live)",
]

_CLIENT = None
POOL = ["gemini://a/", "gemini://b/", "gemini://c/x", "gemini://d:1966/", "gemini://a/y?q", "gemini://e/"]
ODD_TARGETS = ["", "/relative", "relative/path", "http://a/", "https://b/x", "titan://a/up;size=0", "GEMINI://a/", "gemini:/a", "gemini:a",
               "gemini://", "gemini://u@a/", "gemini://a/#frag", "gemini://a/" + "p" * 1100, "//a/", "gemini://a:99999/", "mailto:x@y", " gemini://a/"]


class Graph(Family):
    name = "graph"
    quick_n = 6000
    thorough_n = 120000

    def gen(self, rng: random.Random, n: int):
        # exhaustive part: all graphs over 3 URLs where each node is final or redirects to one of the 3 (or to an odd target)
        urls = POOL[:3]
        outs = [["f", 20], ["e"]] + [["r", 30, t] for t in urls] + [["r", 31, "http://a/"], ["r", 30, ""]]
        count = 0
        for combo in itertools.product(outs, repeat=3):
            g = dict(zip(urls, combo))
            for mx in (0, 1, 2, 3):
                yield {"max": mx, "start": urls[0], "graph": g, "follow": True}
                count += 1
                if count >= n // 2:
                    break
            if count >= n // 2:
                break
        for _ in range(n - count):
            k = rng.randint(1, len(POOL))
            urls = rng.sample(POOL, k)
            g = {}
            for u in urls:
                r = rng.random()
                if r < 0.2:
                    g[u] = ["f", rng.choice([20, 10, 40, 51, 59, 60, 29])]
                elif r < 0.27:
                    g[u] = ["e"]
                elif r < 0.85:
                    g[u] = ["r", rng.choice([30, 31, 39]), rng.choice(urls if rng.random() < 0.8 else POOL)]
                else:
                    g[u] = ["r", rng.choice([30, 31]), rng.choice(ODD_TARGETS)]
            yield {"max": rng.randint(0, 6), "start": rng.choice(urls), "graph": g, "follow": rng.random() < 0.9}

    def impl(self, case):
        from nauyaca.client.session import GeminiClient
        from nauyaca.protocol.response import GeminiResponse

        conns: list[str] = []
        graph = case["graph"]

        async def fake_single(url: str):
            conns.append(url)
            e = graph.get(url)
            if e is None or e[0] == "e":
                raise ConnectionError("stub: no such host")
            if e[0] == "f":
                return GeminiResponse(status=e[1], meta="text/gemini" if 20 <= e[1] < 30 else "meta", body="x" if 20 <= e[1] < 30 else None, url=url)
            return GeminiResponse(status=e[1], meta=e[2], url=url)

        async def go():
            global _CLIENT
            if _CLIENT is None:
                _CLIENT = GeminiClient(max_redirects=5, verify_ssl=False, trust_on_first_use=False)
            client = _CLIENT
            client.max_redirects = case["max"]
            client._get_single = fake_single  # type: ignore[method-assign]
            try:
                r = await client.get(case["start"], follow_redirects=case["follow"])
            except ValueError as ex:
                m = str(ex)
                kind = "loop" if "loop" in m.lower() else "toomany" if "aximum redirects" in m else "missing" if "missing URL" in m else "valueerror:" + m[:40]
                return ["error", kind]
            except ConnectionError:
                return ["error", "fetcherr"]
            if 30 <= r.status < 40:
                return ["redirect", r.status, r.meta]
            return ["final", r.status]

        res = asyncio.run(go())
        return {"r": res, "conns": conns}

    def model(self, case):
        if not case["follow"]:
            return None
        ents = []
        for u, e in case["graph"].items():
            if e[0] == "f":
                ents.append(f"{cps(u)}=f:{e[1]}")
            elif e[0] == "e":
                ents.append(f"{cps(u)}=e")
            else:
                ents.append(f"{cps(u)}=r:{e[1]}:{cps(e[2])}")
        return " ".join(["follow", str(case["max"]), cps(case["start"])] + ents)

    def expect(self, case, out):
        # ok <result> [<conns>]
        assert out.startswith("ok "), out
        body = out[3:]
        res, _, conns = body.partition(" [")
        conns = [core.uncps(c) for c in conns.rstrip("]").split(" ") if c]
        if res.startswith("final:"):
            r = ["final", int(res[6:])]
        elif res.startswith("redirect:"):
            _, st, t = res.split(":")
            r = ["redirect", int(st), core.uncps(t)]
        else:
            r = ["error", res]
        return {"r": r, "conns": conns}

    def oracle(self, case, obs):
        mx, g, start = case["max"], case["graph"], case["start"]
        conns, r = obs["conns"], obs["r"]
        if not case["follow"]:
            if conns != [start]:
                return ("nofollow-conns", f"follow_redirects=False made connections {conns}")
            e = g.get(start)
            if e and e[0] == "r" and r != ["redirect", e[1], e[2]]:
                return ("nofollow-changed", f"3x response not returned unchanged: {r}")
            return None
        if len(conns) > mx + 1:
            return ("bound", f"{len(conns)} connections with max_redirects={mx}")
        for c in conns:
            if not c.startswith("gemini://"):
                return ("scheme", f"connected to non-gemini URL {c!r}")
        if r[0] == "redirect" and r[2].startswith("gemini://"):
            return ("fake-final", f"gemini redirect returned as final content: {r}")
        # reference walk: a loop-free chain of <= max gemini redirects must be followed to its end
        chain, u = [], start
        while True:
            e = g.get(u)
            if u in chain or e is None or e[0] != "r" or not e[2].startswith("gemini://") or e[2] == "":
                break
            chain.append(u)
            u = e[2]
        e = g.get(u)
        if u not in chain and e is not None and e[0] == "f" and not (30 <= e[1] < 40) and len(chain) <= mx:
            if r != ["final", e[1]] or conns != chain + [u]:
                return ("not-followed", f"loop-free chain of {len(chain)} redirects (max {mx}) not followed to its final response: result {r}, connections {conns}")
        if u in chain and r[0] != "error":
            return ("loop-not-reported", f"redirect loop returned {r}")
        return None

    def key(self, case, obs):
        return f"{obs['r'][0]}:{obs['r'][1] if obs['r'][0] == 'error' else ''}:hops={len(obs['conns'])}:follow={case['follow']}"


FAMILIES = [Graph()]
