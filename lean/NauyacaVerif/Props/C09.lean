import NauyacaVerif.Mw.AclProof
import NauyacaVerif.Gen.Params
import NauyacaVerif.Gen.MwParams

/-! # C09  IP access control decides exactly as configured, for every address

Model (`Mw/Acl.lean`): `isAllowed` / `aclProcess` mirror `AccessControl._is_allowed` /
`process_request`; `Entry`, `interpList`, `mkAcl` mirror the parsing loops of
`AccessControl.__init__` (the three `ip_network` attempts per entry; text parsing itself is
`ipaddress`'s and stays outside); `start` mirrors `ServerConfig.get_access_control_config` plus the
chain assembly in `start_server`.  Addresses and networks are `(family, Nat[, prefix length])`.
Every theorem quantifies over all lists, defaults and addresses (no size bound). -/

namespace NauyacaVerif.C09
open Mw

/-- the property's admission rule, as a proposition -/
abbrev Admit (allow deny : List Net) (dflt : Bool) (a : Addr) : Prop := Spec allow deny dflt a

/-- the middleware admits an address exactly when no deny entry contains it and either an allow entry
    contains it or there is no allow list and the default policy is "allow" -/
theorem acl_iff (acl : Acl) (a : Addr) :
    isAllowed acl (some a) = true ↔
      (¬ ∃ d ∈ acl.deny, d.contains a = true) ∧
        ((∃ n ∈ acl.allow, n.contains a = true) ∨ (acl.allow = [] ∧ acl.dflt = true)) :=
  Mw.acl_iff acl a

/-- the response: nothing for an admitted peer, the 53 line for a refused one -/
theorem acl_response (acl : Acl) (a : Option Addr) :
    aclProcess acl a = (if isAllowed acl a = true then none else some denyLine) := by
  unfold aclProcess
  cases isAllowed acl a <;> rfl

/-- an address that cannot be parsed is refused, with the same 53 line as any denied one -/
theorem unparsed_refused (acl : Acl) : isAllowed acl none = false ∧ aclProcess acl none = some denyLine :=
  ⟨rfl, rfl⟩

/-- membership is integer arithmetic within one family: for a network as `ipaddress` builds it
    (no host bits) exactly the addresses `base … base + 2^(width − prefix) − 1` are inside -/
theorem contains_interval (n : Net) (a : Addr) (hw : n.WF) :
    n.contains a = true ↔ n.fam = a.fam ∧ n.base ≤ a.val ∧ a.val < n.base + n.size :=
  Mw.contains_interval n a hw

/-- never across address families (an IPv4-mapped IPv6 peer is an IPv6 address) -/
theorem cross_family_never (n : Net) (a : Addr) (h : n.fam ≠ a.fam) : n.contains a = false :=
  contains_cross_family n a h

/-- configuration layer: with access control enabled, what the running server does equals the written
    policy for every address (an absent list counts as empty) -/
theorem config_faithful (c : AclCfg) (h : c.enabled = true) (a : Addr) :
    serverAdmits c (some a) = true ↔ Admit (c.allow.getD []) (c.deny.getD []) c.dflt a :=
  Mw.config_faithful c h a

/-- in particular: no allow entries and default "deny" refuses everyone, parsed or not -/
theorem default_deny_refuses_all (allow deny : Option (List Net)) (h : allow.getD [] = []) (a : Option Addr) :
    serverAdmits ⟨true, allow, deny, false⟩ a = false := by
  cases a with
  | none =>
    unfold serverAdmits buildAcl
    simp [isAllowed]
  | some x =>
    cases hs : serverAdmits ⟨true, allow, deny, false⟩ (some x) with
    | false => rfl
    | true =>
      have := (Mw.config_faithful ⟨true, allow, deny, false⟩ rfl x).mp hs
      simp only [Spec, h] at this
      obtain ⟨_, h2⟩ := this
      rcases h2 with ⟨n, hn, _⟩ | ⟨_, hf⟩
      · simp at hn
      · simp at hf

/-- disabled access control admits everybody (that is what `enabled = false` configures) -/
theorem disabled_admits (c : AclCfg) (h : c.enabled = false) (a : Option Addr) : serverAdmits c a = true := by
  unfold serverAdmits buildAcl
  simp [h]

/-- TOML → running server, with the entries as written: when every entry has an interpretation the
    server starts and decides the written policy for every address … -/
theorem start_faithful (c : RawCfg) (h : c.enabled = true) (al dn : List Net)
    (ha : interpList (c.allow.getD []) = some al) (hd : interpList (c.deny.getD []) = some dn) :
    ∃ acl, start c = .running acl ∧
      ∀ a : Addr, runningProcess acl (some a) = none ↔ Admit al dn c.dflt a := by
  refine ⟨_, start_running c al dn ha hd, fun a => ?_⟩
  have hcf := Mw.config_faithful ⟨c.enabled, some al, some dn, c.dflt⟩ h a
  simp only [Option.getD_some] at hcf
  refine Iff.trans ?_ hcf
  unfold serverAdmits runningProcess
  cases buildAcl ⟨c.enabled, some al, some dn, c.dflt⟩ with
  | none => simp
  | some acl => exact aclProcess_none_iff acl (some a)

/-- … and an entry that cannot be interpreted prevents start-up rather than weakening the policy -/
theorem bad_entry_no_start (c : RawCfg) (h : c.enabled = true)
    (hb : ∃ e ∈ c.allow.getD [] ++ c.deny.getD [], e.interp = none) : start c = .failed := by
  have hm := (mkAcl_none_iff c.allow c.deny c.dflt).mpr hb
  obtain ⟨e, he, _⟩ := hb
  have hne : ((c.allow.getD []).isEmpty && (c.deny.getD []).isEmpty) = false := by
    rcases List.mem_append.mp he with h1 | h1
    · cases hl : c.allow.getD [] with
      | nil => rw [hl] at h1; simp at h1
      | cons x xs => simp
    · cases hl : c.deny.getD [] with
      | nil => rw [hl] at h1; simp at h1
      | cons x xs => simp
  unfold start noPolicy
  simp [h, hne, hm]

/-- conversely the server starts whenever every entry can be interpreted -/
theorem good_entries_start (c : RawCfg)
    (hg : ¬ ∃ e ∈ c.allow.getD [] ++ c.deny.getD [], e.interp = none) : start c ≠ .failed := by
  have hm : mkAcl c.allow c.deny c.dflt ≠ none := fun h => hg ((mkAcl_none_iff _ _ _).mp h)
  unfold start
  split
  · simp
  · split
    · simp
    · cases hk : mkAcl c.allow c.deny c.dflt with
      | none => exact absurd hk hm
      | some acl => simp

/-- in the chain the server assembles (certificate auth, access control, rate limiter — in this order) a peer that
    access control refuses gets the 53 line whatever the rate limiter would say: a denied peer is never told to
    "slow down" instead, however many requests it sends -/
theorem denied_53_whatever_limiter (acl : Acl) (a : Option Addr) (limiter : Option (List Nat))
    (h : isAllowed acl a = false) : serverChain none (aclProcess acl a) limiter = some denyLine := by
  unfold serverChain aclProcess
  simp [h, chainFirst]

/-- and an admitted peer's verdict is the rate limiter's alone -/
theorem admitted_defers_to_limiter (acl : Acl) (a : Option Addr) (limiter : Option (List Nat))
    (h : isAllowed acl a = true) : serverChain none (aclProcess acl a) limiter = limiter := by
  unfold serverChain aclProcess
  cases limiter <;> simp [h, chainFirst]

/-! ### ties to the current source (extraction) -/

/-- the refusal line of the model is the one literal `AccessControl.process_request` returns -/
theorem denyLine_tie : Gen.aclDenyLines = [denyLine] := by decide
theorem denyLine_known : denyLine ∈ Gen.mwResponses := by decide
/-- every `ip_network` call in `AccessControl.__init__` is strict (host bits set ⇒ `ValueError`) -/
theorem strict_tie : Gen.aclNetworkStrict = true := by decide
/-- the last (`/128`) attempt is not inside a `try`: its `ValueError` leaves the constructor -/
theorem third_attempt_tie : Gen.aclThirdAttemptGuarded = false ∧ Gen.aclThirdAttemptGuarded_found = true := by decide
/-- `start_server` appends the components in the order the chain model assumes -/
theorem chain_order_tie : Mw.chainOrder = Gen.chainOrder := by decide

/-! ### non-vacuity -/
def n10 : Net := ⟨.v4, 0x0A000000, 8⟩
example : n10.WF := by constructor <;> decide
example : isAllowed ⟨[n10], [], false⟩ (some ⟨.v4, 0x0AFFFFFF⟩) = true ∧
          isAllowed ⟨[n10], [], true⟩ (some ⟨.v4, 0x0B000000⟩) = false ∧
          isAllowed ⟨[n10], [], true⟩ (some ⟨.v4, 0x09FFFFFF⟩) = false ∧
          isAllowed ⟨[n10], [⟨.v4, 0x0A000001, 32⟩], true⟩ (some ⟨.v4, 0x0A000001⟩) = false ∧
          isAllowed ⟨[], [n10], true⟩ (some ⟨.v6, 0x0A000001⟩) = true := by decide
example : serverAdmits ⟨true, none, none, false⟩ (some ⟨.v4, 1⟩) = false := by decide
example : serverAdmits ⟨true, some [], some [], true⟩ none = true := by decide
def okE : Entry := ⟨some n10, none, none⟩
def badE : Entry := ⟨none, none, none⟩
example : start ⟨true, some [okE], some [badE], true⟩ = .failed := by decide
example : start ⟨false, some [badE], none, true⟩ = .running none := by decide
example : ∃ acl, start ⟨true, some [okE], none, false⟩ = .running (some acl) := ⟨⟨[n10], [], false⟩, by decide⟩
example : runningProcess (some ⟨[n10], [], false⟩) (some ⟨.v4, 0x0B000000⟩) = some denyLine := by decide
example : serverChain none (aclProcess ⟨[n10], [], false⟩ (some ⟨.v4, 0x0B000000⟩)) (some [52, 52]) = some denyLine := by decide
example : serverChain none (aclProcess ⟨[n10], [], false⟩ (some ⟨.v4, 0x0A000001⟩)) (some [52, 52]) = some [52, 52] := by decide
end NauyacaVerif.C09
