import NauyacaVerif.Url.Basic
import NauyacaVerif.Url.Proof
namespace Url

structure PCfg where
  nl : Str            -- authority of the configured upstream
  base : Str          -- path part of the configured upstream after `rstrip("/")`: empty or "/…" not ending in "/"
  pre : Str           -- location prefix
  strip : Bool

def gemColon : Str := ['g', 'e', 'm', 'i', 'n', 'i', ':']
def PCfg.upstream (c : PCfg) : Str := gemColon ++ ['/', '/'] ++ c.nl ++ c.base

/-- the prefix-stripping of `ProxyHandler._handle_async` -/
def mapPath (c : PCfg) (path : Str) : Str :=
  if c.strip && c.pre.isPrefixOf path then
    let remaining := path.drop c.pre.length
    if c.pre.getLast? = some '/' || remaining.isEmpty || remaining.head? = some '/' then
      (if remaining.head? = some '/' then remaining else '/' :: remaining)
    else path
  else path

def upstreamUrl (c : PCfg) (path query : Str) : Str :=
  c.upstream ++ mapPath c path ++ (if query.isEmpty then [] else '?' :: query)

/-- `str.rstrip("/")` (what `ProxyHandler.__init__` does to the configured upstream) -/
def rstripSlash : Str → Str
  | [] => []
  | c :: cs => if (rstripSlash cs).isEmpty && c == '/' then [] else c :: rstripSlash cs

/-- the prefix stripping as a function of the raw configuration values -/
def mapPathRaw (pre : Str) (strip : Bool) (path : Str) : Str := mapPath ⟨[], [], pre, strip⟩ path

/-- `ProxyHandler._handle_async`, URL construction from the raw configuration:
    `upstream.rstrip("/") + path' + ("?" + query if query else "")` -/
def proxyUrl (upstreamRaw pre : Str) (strip : Bool) (path query : Str) : Str :=
  rstripSlash upstreamRaw ++ mapPathRaw pre strip path ++ (if query.isEmpty then [] else '?' :: query)

theorem mapPath_slash (c : PCfg) (path : Str) (h : path.head? = some '/') : (mapPath c path).head? = some '/' := by
  unfold mapPath
  split
  · simp only
    split
    · split
      · assumption
      · rfl
    · exact h
  · exact h

def noUnsafe (s : Str) : Prop := s.all (fun c => !isUnsafe c) = true

/-- the part of `urlsplit` that decides which server is contacted -/
def netlocOf (u : Str) : Str := (splitNetloc (splitScheme (preprocess u)).2).1

theorem preprocess_id {u : Str} (h0 : ∀ c, u.head? = some c → isC0OrSpace c = false) (hs : noUnsafe u) :
    preprocess u = u := by
  unfold preprocess
  have : u.dropWhile isC0OrSpace = u := by
    cases u with
    | nil => rfl
    | cons c cs => simp [List.dropWhile, h0 c rfl]
  rw [this, List.filter_eq_self]
  intro c hc
  exact List.all_eq_true.mp hs c hc

theorem splitScheme_gemini (rest : Str) :
    splitScheme (gemColon ++ rest) = (['g', 'e', 'm', 'i', 'n', 'i'], rest) := by
  unfold splitScheme gemColon
  have : findIdx (· = ':') (['g', 'e', 'm', 'i', 'n', 'i', ':'] ++ rest) = some 6 := by simp [findIdx]
  rw [this]
  simp [schemeOk, firstIsAsciiAlpha, schemeChar, lowerAscii, Char.isAlphanum, Char.isAlpha, Char.isDigit, Char.isUpper, Char.isLower]

theorem splitNetloc_slash {nl rest : Str} (h1 : nl.all (fun c => !isDelim c) = true)
    (hr : rest = [] ∨ rest.head? = some '/') : (splitNetloc (['/', '/'] ++ nl ++ rest)).1 = nl := by
  unfold splitNetloc
  simp only [List.append_assoc, List.cons_append, List.nil_append, List.take_succ_cons, List.take_zero,
    ↓reduceIte, List.drop_succ_cons, List.drop_zero]
  have hn : findIdx isDelim nl = none := findIdx_none_iff.mpr (by simpa using h1)
  rw [findIdx_append_none hn]
  rcases hr with rfl | hr
  · simp [findIdx]
  · cases rest with
    | nil => simp at hr
    | cons c cs =>
      simp at hr; subst hr
      simp [findIdx, isDelim]

/-- C17: whatever path and query the client sends, the URL the proxy fetches has the configured
    authority — the request cannot steer the proxy to another server -/
theorem proxy_host_fixed (c : PCfg) (path query : Str)
    (hnl : c.nl.all (fun ch => !isDelim ch) = true)
    (hbase : c.base = [] ∨ c.base.head? = some '/')
    (hp : path.head? = some '/')
    (hsafe : noUnsafe (upstreamUrl c path query)) :
    netlocOf (upstreamUrl c path query) = c.nl := by
  unfold netlocOf
  have hpre : preprocess (upstreamUrl c path query) = upstreamUrl c path query := by
    apply preprocess_id _ hsafe
    intro ch hch
    simp [upstreamUrl, PCfg.upstream, gemColon] at hch
    subst hch; decide
  rw [hpre]
  have hform : upstreamUrl c path query =
      gemColon ++ (['/', '/'] ++ c.nl ++ (c.base ++ mapPath c path ++ (if query.isEmpty then [] else '?' :: query))) := by
    simp [upstreamUrl, PCfg.upstream, List.append_assoc]
  rw [hform, splitScheme_gemini]
  apply splitNetloc_slash hnl
  have hm := mapPath_slash c path hp
  rcases hbase with hb | hb
  · right; rw [hb]; simp only [List.nil_append]
    cases hmp : mapPath c path with
    | nil => rw [hmp] at hm; simp at hm
    | cons x xs => rw [hmp] at hm; simpa using hm
  · right
    cases hbb : c.base with
    | nil => rw [hbb] at hb; simp at hb
    | cons x xs => rw [hbb] at hb; simpa using hb

example : mapPath ⟨[], [], ['/', 'a', 'p', 'i'], true⟩ ['/', 'a', 'p', 'i', 'k'] = ['/', 'a', 'p', 'i', 'k'] := by decide
example : mapPath ⟨[], [], ['/', 'a', 'p', 'i'], true⟩ ['/', 'a', 'p', 'i', '/', 'x'] = ['/', 'x'] := by decide
end Url
