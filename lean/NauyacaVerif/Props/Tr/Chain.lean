import NauyacaVerif.Gen.Fn.Chain

/-! Translated function = hand-written model.  `Gen/Fn/Chain.lean` is produced on every run by `harness/translate.py` from the Python
AST of the CURRENT source tree; the theorems here prove the generated definition equal to the hand-written model the property theorems
are about.  An edit that changes what the function computes changes the generated definition and breaks the theorem; an edit that
leaves the translator's subset removes the definition and the theorem no longer elaborates.  One file per function, so that a change to
one function touches only the properties that rest on it. -/
namespace NauyacaVerif.Translated
open NauyacaVerif.Gen

/-- `MiddlewareChain.process_request` (translated): the verdict is the first rejecting component's, and its
    response is what is returned; with no rejecting component the chain admits -/
theorem chain_first_reject (rs : List (Bool × Option (List Char))) :
    (Fn.chain rs = (true, none) ↔ ∀ r ∈ rs, r.1 = true) ∧
    (∀ pre r post, rs = pre ++ r :: post → (∀ q ∈ pre, q.1 = true) → r.1 = false → Fn.chain rs = (false, r.2)) := by
  constructor
  · simp only [Fn.chain]
    cases h : rs.find? (fun r => !r.1) with
    | none =>
      simp only [true_iff]
      intro r hr
      have := List.find?_eq_none.mp h r hr
      simpa using this
    | some r =>
      have hm := List.mem_of_find?_eq_some h
      have hp := List.find?_some h
      simp only [Prod.mk.injEq, Bool.false_eq_true, false_and, false_iff]
      intro hall
      have := hall r hm
      simp [this] at hp
  · intro pre r post hrs hpre hr
    subst hrs
    simp only [Fn.chain]
    have : (pre ++ r :: post).find? (fun r => !r.1) = some r := by
      rw [List.find?_append]
      have h1 : pre.find? (fun r => !r.1) = none := List.find?_eq_none.mpr (by intro q hq; simp [hpre q hq])
      simp [h1, hr]
    rw [this]

end NauyacaVerif.Translated
