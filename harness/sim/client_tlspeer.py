"""Scripted loopback TLS peers for the client-side properties (C03, C11, C13).

A `TLSPeer` listens on one port number on 127.0.0.1 and 127.0.0.2 (so that the names `localhost`,
`127.0.0.1` and `127.0.0.2` are three different TOFU hosts served by the same scripted peer).  Every
accepted connection takes the next script from the peer's queue (or the default script): which
certificate to present and a byte-level list of steps.  Threads + blocking sockets, so the peers are
independent of the event loop the client under test runs in and survive across `asyncio.run` calls.
Ports are bound with port 0 once per process (fork-safe: create peers in `Family.setup`).

Steps (lists, JSON-friendly):
  ["read_line", timeout]        read application bytes until CRLF, EOF or timeout
  ["call", fn]                  call fn() (a hook of the harness, same process)
  ["read_request", timeout]     read one whole request: the line and, for titan://…;size=N, N content bytes
  ["read_n", n, timeout]        read until n application bytes have arrived in total
  ["read_eof", timeout]         read until EOF (close_notify / FIN), error or timeout
  ["drain"]                     take whatever is already readable, without waiting
  ["send", bytes | hex-str]     sendall (skipped once the client has closed, unless a third element "force" is given)
  ["sleep", seconds]
  ["close"]                     FIN without close_notify (what a crashing server does)
  ["close_notify"]              TLS shutdown, then close
  ["reset"]                     SO_LINGER 0 + close: the client sees a TCP reset
  ["append_certs", [names]]     only as the FIRST step (behind a "hold" of client_holdpeer): the peer's Certificate message carries, after
                                its own certificate (the script's `cert`, whose key it holds), copies of the named certificates of the
                                CertStore, in this order - an unverified "chain" of the peer's choosing (it needs no key for them).  The
                                log entry keeps `cert` = the peer's own certificate and gets `chain` = [cert, *names]
A script that runs out of steps closes the connection.

Log: read it with `take_log()` only — it first waits until every handler thread has finished
(otherwise the last connection is missing).  One entry per accepted TCP connection:
  {"cert": name, "hs": handshake completed, "rx": application bytes received, "err": str | None}
"""
from __future__ import annotations

import base64
import contextlib
import datetime
import hashlib
import os
import re
import shutil
import socket
import ssl
import struct
import tempfile
import threading
import time
from collections import deque
from dataclasses import dataclass
from pathlib import Path


# ----------------------------------------------------------------------------
# certificates
# ----------------------------------------------------------------------------
@dataclass
class CertInfo:
    name: str
    certfile: str
    keyfile: str
    der: bytes
    fingerprint: str          # "sha256:<hex of the DER the peer presents>"
    readable: bool            # does cryptography.x509 parse it?


def _make_cert(kind: str, d: str, tag: str, hostile: bool = False, validity: str = "valid") -> CertInfo:
    from cryptography import x509
    from cryptography.hazmat.primitives import hashes, serialization
    from cryptography.hazmat.primitives.asymmetric import ec, ed25519, rsa
    from cryptography.x509.oid import NameOID

    if kind == "rsa":
        key = rsa.generate_private_key(65537, 2048)
    elif kind == "ec":
        key = ec.generate_private_key(ec.SECP256R1())
    else:
        key = ed25519.Ed25519PrivateKey.generate()
    name = x509.Name([x509.NameAttribute(NameOID.COMMON_NAME, "localhost")])
    now = datetime.datetime.now(datetime.timezone.utc)
    # validity period: TLS with CERT_NONE (the TOFU mode) does not look at it; the pin check must not depend on it either
    nb, na = {"valid": (-1, 30), "expired": (-400, -30), "notyet": (30, 400)}[validity]
    b = (x509.CertificateBuilder().subject_name(name).issuer_name(name).public_key(key.public_key())
         .serial_number(x509.random_serial_number()).not_valid_before(now + datetime.timedelta(days=nb))
         .not_valid_after(now + datetime.timedelta(days=na))
         .add_extension(x509.BasicConstraints(ca=True, path_length=None), critical=True))
    cert = b.sign(key, None if kind == "ed" else hashes.SHA256())
    der = cert.public_bytes(serialization.Encoding.DER)
    if hostile:
        # non-DER BOOLEAN (TRUE must be 0xFF): OpenSSL loads and serves it, cryptography.x509 rejects it
        assert der.count(b"\x01\x01\xff") >= 1
        der = der.replace(b"\x01\x01\xff", b"\x01\x01\x01", 1)
    cp, kp = f"{d}/{tag}.pem", f"{d}/{tag}.key"
    Path(cp).write_bytes(b"-----BEGIN CERTIFICATE-----\n" + base64.encodebytes(der) + b"-----END CERTIFICATE-----\n")
    Path(kp).write_bytes(key.private_bytes(serialization.Encoding.PEM, serialization.PrivateFormat.PKCS8, serialization.NoEncryption()))
    readable = True
    try:
        x509.load_der_x509_certificate(der)
    except Exception:
        readable = False
    return CertInfo(tag, cp, kp, der, "sha256:" + hashlib.sha256(der).hexdigest(), readable)


ALL_CERTS = ("rsa", "ec", "ed", "hostile", "expired", "notyet")


class CertStore:
    """The certificates of DESIGN.md §5 C03: RSA, EC, Ed25519, the hostile one (DER the X.509 parser rejects),
    plus one that has expired and one that is not valid yet."""

    KINDS = {"rsa": ("rsa", False, "valid"), "ec": ("ec", False, "valid"), "ed": ("ed", False, "valid"), "hostile": ("ec", True, "valid"),
             "ec2": ("ec", False, "valid"), "expired": ("ec", False, "expired"), "notyet": ("rsa", False, "notyet")}

    def __init__(self, names=ALL_CERTS):
        d = tempfile.mkdtemp(prefix="nv-certs-")
        try:
            self.certs: dict[str, CertInfo] = {}
            self._ctx: dict[str, ssl.SSLContext] = {}
            self._pem: dict[str, tuple[bytes, bytes]] = {}       # name -> (certificate PEM, key PEM), for `chain_ctx`
            self._chain_lock = threading.Lock()
            for n in names:
                kind, hostile, validity = self.KINDS[n]
                self.certs[n] = _make_cert(kind, d, n, hostile, validity)
                self._pem[n] = (Path(self.certs[n].certfile).read_bytes(), Path(self.certs[n].keyfile).read_bytes())
                c = ssl.SSLContext(ssl.PROTOCOL_TLS_SERVER)
                c.minimum_version = ssl.TLSVersion.TLSv1_2
                c.num_tickets = 0   # no post-handshake records: the peer's byte log is application data only
                c.load_cert_chain(self.certs[n].certfile, self.certs[n].keyfile)
                self._ctx[n] = c
                # the same certificate on a server that speaks TLS 1.2 at most ("<name>@12"): its Finished is the last handshake message,
                # so application data can follow it in the same flight (a server that speaks first)
                c12 = ssl.SSLContext(ssl.PROTOCOL_TLS_SERVER)
                c12.minimum_version = ssl.TLSVersion.TLSv1_2
                c12.maximum_version = ssl.TLSVersion.TLSv1_2
                c12.load_cert_chain(self.certs[n].certfile, self.certs[n].keyfile)
                self._ctx[n + "@12"] = c12
        finally:
            # the contexts hold the key material in memory; nothing is left on disk
            shutil.rmtree(d, ignore_errors=True)
        assert not self.certs.get("hostile") or not self.certs["hostile"].readable, "hostile certificate is readable"

    def __getitem__(self, name: str) -> CertInfo:
        return self.certs[name]

    def ctx(self, name: str) -> ssl.SSLContext:
        if name not in self._ctx and "+" in name:
            return self.chain_ctx(name.split("+"))
        return self._ctx[name]

    def pem(self, name: str) -> tuple[bytes, bytes]:
        """(certificate PEM, key PEM) of a certificate of the store (also of one added later with its files still on disk)"""
        if name not in self._pem:
            ci = self.certs[name]
            self._pem[name] = (Path(ci.certfile).read_bytes(), Path(ci.keyfile).read_bytes())
        return self._pem[name]

    def chain_ctx(self, names) -> ssl.SSLContext:
        """server context of a peer that holds the key of names[0] and presents names[0] FOLLOWED BY copies of the certificates
        names[1:] in its Certificate message (OpenSSL sends the extra certificates as they are given: nothing ties them to the
        first one, and the peer has no key for them).  Cached under "a+b+c"; `ctx("a+b+c")` finds it."""
        names = list(names)
        key = "+".join(names)
        with self._chain_lock:
            c = self._ctx.get(key)
            if c is not None:
                return c
            d = tempfile.mkdtemp(prefix="nv-chain-")
            try:
                leaf_pem, key_pem = self.pem(names[0])
                Path(d, "chain.pem").write_bytes(leaf_pem + b"".join(self.pem(n)[0] for n in names[1:]))
                Path(d, "leaf.key").write_bytes(key_pem)
                c = ssl.SSLContext(ssl.PROTOCOL_TLS_SERVER)
                c.minimum_version = ssl.TLSVersion.TLSv1_2
                c.num_tickets = 0
                c.load_cert_chain(f"{d}/chain.pem", f"{d}/leaf.key")
            finally:
                shutil.rmtree(d, ignore_errors=True)
            self._ctx[key] = c
            return c

    def x509(self, name: str):
        from cryptography import x509

        return x509.load_der_x509_certificate(self.certs[name].der)

    def close(self) -> None:
        pass


# ----------------------------------------------------------------------------
# peers
# ----------------------------------------------------------------------------
def _b(x) -> bytes:
    return bytes.fromhex(x) if isinstance(x, str) else bytes(x)


class TLSPeer:
    ADDRS = ("127.0.0.1", "127.0.0.2")

    def __init__(self, certs: CertStore, default_cert: str = "ec", default_steps=None, hs_timeout: float = 3.0):
        self.certs = certs
        self.default = {"cert": default_cert, "steps": default_steps or [["read_request", 2.0], ["send", b"20 text/gemini\r\nok\n"], ["close"]]}
        self.queue: deque = deque()
        self.log: list[dict] = []
        self.lock = threading.Lock()
        self.handlers: list[threading.Thread] = []
        self.hs_timeout = hs_timeout
        self.stopping = False
        self.socks: list[socket.socket] = []
        self.port = 0
        for attempt in range(50):
            try:
                self._bind()
                break
            except OSError:
                for s in self.socks:
                    s.close()
                self.socks = []
        else:
            raise OSError("cannot bind the same free port on " + ", ".join(self.ADDRS))
        self.acceptors = [threading.Thread(target=self._accept_loop, args=(s,), daemon=True) for s in self.socks]
        for t in self.acceptors:
            t.start()

    def _bind(self) -> None:
        first = socket.socket()
        first.setsockopt(socket.SOL_SOCKET, socket.SO_REUSEADDR, 1)
        first.bind((self.ADDRS[0], 0))
        self.port = first.getsockname()[1]
        self.socks = [first]
        for a in self.ADDRS[1:]:
            s = socket.socket()
            s.setsockopt(socket.SOL_SOCKET, socket.SO_REUSEADDR, 1)
            self.socks.append(s)
            s.bind((a, self.port))
        for s in self.socks:
            s.listen(64)
            s.settimeout(0.2)

    # -- scripting ---------------------------------------------------------------
    def push(self, cert: str, steps: list, with_finished: bytes | None = None) -> None:
        """script for the next accepted connection (FIFO).  `with_finished`: the server speaks first - these application bytes are
        put into the SAME TCP send as the last handshake flight (use a "<cert>@12" context: with TLS 1.2 that flight is the server's
        Finished); afterwards it listens briefly, sends close_notify and closes (the steps are not used)"""
        with self.lock:
            self.queue.append({"cert": cert, "steps": steps, "with_finished": with_finished})

    def clear(self) -> None:
        with self.lock:
            self.queue.clear()

    def take_log(self, timeout: float = 10.0) -> list[dict]:
        self.wait_idle(timeout)
        with self.lock:
            out, self.log = self.log, []
        return out

    def wait_idle(self, timeout: float = 10.0) -> None:
        end = time.monotonic() + timeout
        while True:
            with self.lock:
                hs = list(self.handlers)
            alive = [h for h in hs if h.is_alive()]
            if not alive:
                with self.lock:
                    self.handlers = [h for h in self.handlers if h.is_alive()]
                return
            left = end - time.monotonic()
            if left <= 0:
                raise TimeoutError("scripted TLS peer: a handler did not finish")
            alive[0].join(min(left, 0.5))

    def close(self) -> None:
        self.stopping = True
        for s in self.socks:
            with contextlib.suppress(Exception):
                s.close()
        for t in self.acceptors:
            t.join(1.0)

    # -- internals ---------------------------------------------------------------
    def _accept_loop(self, lsock: socket.socket) -> None:
        while not self.stopping:
            try:
                conn, _ = lsock.accept()
            except socket.timeout:
                continue
            except OSError:
                return
            with self.lock:
                script = self.queue.popleft() if self.queue else self.default
                entry = {"cert": script["cert"], "hs": False, "rx": b"", "err": None, "t": time.monotonic_ns(), "port": self.port}
                self.log.append(entry)
                t = threading.Thread(target=self._handle, args=(conn, script, entry), daemon=True)
                self.handlers.append(t)
            t.start()

    def _handle_bio(self, raw: socket.socket, script: dict, entry: dict) -> None:
        """a connection driven through memory BIOs so that the first application bytes leave together with the Finished"""
        inb, outb = ssl.MemoryBIO(), ssl.MemoryBIO()
        so = self.certs.ctx(script["cert"]).wrap_bio(inb, outb, server_side=True)
        raw.settimeout(self.hs_timeout)
        try:
            while True:
                try:
                    so.do_handshake()
                    break
                except ssl.SSLWantReadError:
                    out = outb.read()
                    if out:
                        raw.sendall(out)
                    chunk = raw.recv(65536)
                    if not chunk:
                        entry["err"] = "handshake: eof"
                        return
                    inb.write(chunk)
            entry["hs"] = True
            so.write(script["with_finished"])
            raw.sendall(outb.read())                      # last handshake flight + the response, one send
            end = time.monotonic() + 0.4
            buf = bytearray()
            while time.monotonic() < end:
                raw.settimeout(max(0.01, end - time.monotonic()))
                try:
                    chunk = raw.recv(65536)
                except (socket.timeout, OSError):
                    break
                if not chunk:
                    break
                inb.write(chunk)
                try:
                    while True:
                        d = so.read(65536)
                        if not d:
                            break
                        buf.extend(d)
                        entry["rx"] = bytes(buf)
                except (ssl.SSLWantReadError, ssl.SSLError):
                    pass
            try:
                so.unwrap()
            except ssl.SSLError:
                pass
            out = outb.read()
            if out:
                try:
                    raw.sendall(out)
                except OSError:
                    pass
        except Exception as e:  # noqa: BLE001
            entry["err"] = f"bio: {type(e).__name__}"
        finally:
            try:
                raw.close()
            except OSError:
                pass

    def _handle(self, raw: socket.socket, script: dict, entry: dict) -> None:
        steps = script.get("steps") or []
        if steps and steps[0] and steps[0][0] == "append_certs":
            # the peer's own certificate followed by copies of other certificates: `cert` stays the peer's own one
            extra = [str(n) for n in steps[0][1]]
            entry["chain"] = [script["cert"]] + extra
            script = dict(script, steps=list(steps[1:]))
            if extra:
                try:
                    self.certs.chain_ctx([script["cert"]] + extra)
                except Exception as e:  # noqa: BLE001  (harness bug: make it visible in the log)
                    entry["err"] = f"script: append_certs: {type(e).__name__}: {e}"
                    with contextlib.suppress(Exception):
                        raw.close()
                    return
                script["cert"] = "+".join([script["cert"]] + extra)
        if script.get("with_finished") is not None:
            return self._handle_bio(raw, script, entry)
        conn = None
        try:
            raw.settimeout(self.hs_timeout)
            try:
                conn = self.certs.ctx(script["cert"]).wrap_socket(raw, server_side=True)
            except Exception as e:  # handshake failed (client went away, alert, …)
                entry["err"] = f"handshake: {type(e).__name__}"
                return
            entry["hs"] = True
            buf = bytearray()
            eof = False

            def recv_some(timeout: float) -> bool:
                """one recv; returns False on EOF / error / timeout"""
                nonlocal eof
                if eof:
                    return False
                conn.settimeout(max(timeout, 0.001))
                try:
                    chunk = conn.recv(65536)
                except (socket.timeout, ssl.SSLWantReadError):
                    return False
                except (OSError, ssl.SSLError) as e:
                    entry["err"] = f"recv: {type(e).__name__}"
                    eof = True
                    return False
                if not chunk:
                    eof = True
                    return False
                buf.extend(chunk)
                entry["rx"] = bytes(buf)
                return True

            for step in script["steps"]:
                op = step[0]
                if op == "read_line":
                    end = time.monotonic() + step[1]
                    while b"\r\n" not in buf and time.monotonic() < end and recv_some(end - time.monotonic()):
                        pass
                elif op == "read_request":
                    # a whole Gemini request (line) or Titan request (line + `size=` content bytes)
                    end = time.monotonic() + step[1]
                    while b"\r\n" not in buf and time.monotonic() < end and recv_some(end - time.monotonic()):
                        pass
                    if b"\r\n" in buf:
                        line = bytes(buf[:buf.index(b"\r\n")])
                        m = re.search(rb";size=(\d+)", line) if line.startswith(b"titan://") else None
                        want = len(line) + 2 + (int(m.group(1)) if m else 0)
                        while len(buf) < want and time.monotonic() < end and recv_some(end - time.monotonic()):
                            pass
                elif op == "call":
                    step[1]()                      # a hook of the harness (same process), e.g. to take a lock at this point of the exchange
                elif op == "read_n":
                    end = time.monotonic() + step[2]
                    while len(buf) < step[1] and time.monotonic() < end and recv_some(end - time.monotonic()):
                        pass
                elif op == "read_eof":
                    end = time.monotonic() + step[1]
                    while time.monotonic() < end and recv_some(end - time.monotonic()):
                        pass
                elif op == "drain":
                    while recv_some(0.02):
                        pass
                elif op == "send":
                    if eof and not (len(step) > 2 and step[2] == "force"):
                        continue          # the client has already closed: an answer would only be noise
                    conn.settimeout(10.0)
                    try:
                        conn.sendall(_b(step[1]))
                    except (OSError, ssl.SSLError) as e:
                        entry["err"] = f"send: {type(e).__name__}"
                        break
                elif op == "sleep":
                    time.sleep(step[1])
                elif op == "close":
                    break
                elif op == "close_notify":
                    conn.settimeout(1.0)
                    with contextlib.suppress(Exception):
                        raw2 = conn.unwrap()
                        raw2.close()
                    break
                elif op == "reset":
                    with contextlib.suppress(Exception):
                        conn.setsockopt(socket.SOL_SOCKET, socket.SO_LINGER, struct.pack("ii", 1, 0))
                    break
                else:
                    raise ValueError(f"unknown step {step!r}")
            entry["rx"] = bytes(buf)
        except Exception as e:  # noqa: BLE001  (harness bug: make it visible in the log)
            entry["err"] = f"script: {type(e).__name__}: {e}"
        finally:
            with contextlib.suppress(Exception):
                (conn or raw).close()


# ----------------------------------------------------------------------------
# making the client's certificate loader fail (C03: "monkey-patched loader failure")
# ----------------------------------------------------------------------------
@contextlib.contextmanager
def broken_cert_loader(mode: str):
    """mode 'raise': cryptography's DER loader raises inside get_peer_certificate;
    mode 'none': get_peer_certificate returns None outright; '' / None: nothing patched."""
    if not mode:
        yield
        return
    import nauyaca.client.protocol as CP

    if mode == "raise":
        real = CP.x509

        class _X509:
            def __getattr__(self, n):
                return getattr(real, n)

            @staticmethod
            def load_der_x509_certificate(*a, **k):
                raise ValueError("injected: certificate cannot be parsed")

        CP.x509 = _X509()
        try:
            yield
        finally:
            CP.x509 = real
    elif mode == "none":
        saved = [(c, c.get_peer_certificate) for c in (CP.GeminiClientProtocol, CP.TitanClientProtocol)]
        for c, _ in saved:
            c.get_peer_certificate = lambda self: None
        try:
            yield
        finally:
            for c, f in saved:
                c.get_peer_certificate = f
    else:
        raise ValueError(mode)


# ----------------------------------------------------------------------------
# per-process singleton (certificates are expensive to make; ports are bound once)
# ----------------------------------------------------------------------------
_WORLD: dict = {}


def world(n_peers: int = 2, cert_names=ALL_CERTS):
    """certificates + `n_peers` scripted peers, created once per process (after the fork)."""
    key = (os.getpid(), n_peers, tuple(cert_names))
    w = _WORLD.get(key)
    if w is None:
        certs = CertStore(cert_names)
        peers = [TLSPeer(certs) for _ in range(n_peers)]
        w = {"certs": certs, "peers": peers}
        _WORLD.clear()
        _WORLD[key] = w
        import atexit

        def _cleanup(pid=os.getpid()):
            if os.getpid() != pid:
                return
            for p in peers:
                p.close()
            certs.close()

        from .. import core as _core

        _core.at_exit(_cleanup)
    return w
