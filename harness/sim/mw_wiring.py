"""Wiring capture for the middleware checks (C09, C10), DESIGN.md §13.

`nauyaca serve --config <toml>` is driven through typer's CliRunner with `loop.create_server` replaced by a
stub: no port is bound, the stub returns a dummy server whose `serve_forever()` runs a probe coroutine
INSIDE the loop the real `start_server` is running on, with the protocol factory the server would use.
So the probe sees the actual middleware chain (built from the TOML file by `ServerConfig.from_toml`, the
glue in `__main__.serve` and `start_server`) and can push connections through the real
`GeminiServerProtocol` with a fake transport.
"""
from __future__ import annotations

import asyncio
import json
import os
import ssl
import tempfile
from typing import Awaitable, Callable


def toml_value(v) -> str:
    if isinstance(v, bool):
        return "true" if v else "false"
    if isinstance(v, (int, float)):
        return repr(v)
    if isinstance(v, str):
        return json.dumps(v)  # JSON string escapes are valid TOML basic-string escapes (BMP only)
    if isinstance(v, list):
        return "[" + ", ".join(toml_value(x) for x in v) + "]"
    if isinstance(v, dict):
        return "{" + ", ".join(f"{k} = {toml_value(x)}" for k, x in v.items()) + "}"
    raise TypeError(v)


class FakeTransport:
    def __init__(self, peer: str):
        self.peer = peer
        self.w: list[bytes] = []
        self.closed = False

    def get_extra_info(self, k, d=None):
        if k == "peername":
            return (self.peer, 50000) if ":" not in self.peer else (self.peer, 50000, 0, 0)
        return d

    def write(self, b):
        if not self.closed:
            self.w.append(bytes(b))

    def close(self):
        self.closed = True

    def is_closing(self):
        return self.closed

    def abort(self):
        self.closed = True


async def wire_status(factory, peer: str, line: bytes = b"gemini://localhost/\r\n") -> str:
    """status (two characters) a connection from `peer` gets for one request"""
    pr = factory()
    t = FakeTransport(peer)
    pr.connection_made(t)
    pr.data_received(line)
    for _ in range(60):
        if t.closed:
            break
        await asyncio.sleep(0)
    try:
        pr.connection_lost(None)
    except Exception:  # noqa: BLE001
        pass
    return b"".join(t.w)[:2].decode("latin1")


class Capture:
    """install once per process; `run(toml_text, probe)` returns (started, cli_output)"""

    def __init__(self):
        import asyncio.base_events as be

        import nauyaca.server.server as S

        self.probe: Callable[[Callable], Awaitable[None]] | None = None
        self.created = False
        self.finished = False
        cap = self

        class DummyServer:
            def __init__(self, factory):
                self.factory = factory

            async def __aenter__(self):
                return self

            async def __aexit__(self, *a):
                return False

            async def serve_forever(self):
                await cap.probe(self.factory)
                cap.finished = True

        async def fake_create_server(loop_self, factory, host=None, port=None, **kw):
            cap.created = True
            return DummyServer(factory)

        be.BaseEventLoop.create_server = fake_create_server  # no port is ever bound in this process
        # the TLS context is irrelevant to the middleware checks; avoid generating an RSA key per case
        S._create_self_signed_context = lambda request_client_cert=False: ssl.SSLContext(ssl.PROTOCOL_TLS_SERVER)

        def cheap_pyopenssl_context():
            from OpenSSL import SSL

            return SSL.Context(SSL.TLS_SERVER_METHOD)

        S._create_self_signed_pyopenssl_context = cheap_pyopenssl_context

    def run(self, toml_tables: str, probe, server_extra: str = "", files: dict | None = None) -> tuple[bool, str]:
        """toml_tables: the tables under test (e.g. `[access_control] …`); a `[server]` table pointing at a fresh
        temporary document root is put in front (`server_extra`: further lines of that table).  `files` maps
        relative paths to text written under the temporary directory first; `{ROOT}` inside `toml_tables` stands for
        that directory.  The directory is removed after the run."""
        import shutil

        from typer.testing import CliRunner

        import nauyaca.__main__ as M

        d = tempfile.mkdtemp(prefix="nv-mw-")
        try:
            for rel, text in ({"index.gmi": "# capsule\n"} | (files or {})).items():
                fp = os.path.join(d, rel)
                os.makedirs(os.path.dirname(fp), exist_ok=True)
                with open(fp, "w") as f:
                    f.write(text)
            path = os.path.join(d, "config.toml")
            with open(path, "w", encoding="utf-8") as f:
                f.write(f"[server]\ndocument_root = {toml_value(d)}\nhost = \"localhost\"\n{server_extra}\n" + toml_tables.replace("{ROOT}", d))
            self.probe, self.created, self.finished = probe, False, False
            r = CliRunner().invoke(M.app, ["serve", "--config", path, "--log-level", "ERROR"])
        finally:
            shutil.rmtree(d, ignore_errors=True)
        try:
            import structlog

            __import__('harness.core', fromlist=['core']).configure_harness_logging()      # put the harness logging configuration back
        except Exception:  # noqa: BLE001
            pass
        if self.created and not self.finished:
            raise RuntimeError(f"probe did not finish: {r.output[-400:]} {r.exception!r}")
        return self.finished, r.output
