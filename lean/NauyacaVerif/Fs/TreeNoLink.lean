import NauyacaVerif.Fs.TreeOS

/-! # The tree instance of the OS on link-free paths

For the executable symlink tree used by the driver: a path all of whose proper prefixes are
directories of the tree, none of whose components is a symlink and whose names are ordinary (not
empty, `.` or `..`, no NUL) resolves (strictly) to itself — the hypothesis `resolve p = some p` of `static_complete` is met by every such path. -/
namespace Fs

def Ordinary (n : Name) : Prop := n ≠ "" ∧ n ≠ "." ∧ n ≠ ".."

/-- every proper prefix of `cur ++ rest` is a directory of the tree, no component is a symlink or
    longer than NAME_MAX, and the whole path is the node `nd` -/
def Plain (t : Tree) : Path → List Name → Node → Prop
  | cur, [], nd => t.lstat cur = some nd
  | cur, n :: rest, nd =>
    t.lstat cur = some .dir ∧ n.utf8ByteSize ≤ nameMax ∧
    (∃ x, t.lstat (cur ++ [n]) = some x ∧ ∀ tgt, x ≠ .link tgt) ∧ Plain t (cur ++ [n]) rest nd

theorem joinReal_plain (t : Tree) (strict : Bool) (fuel : Nat) (path : Path) (rest : List Name) (nd : Node)
    (seen : List (Path × Option Path)) (hf : rest.length < fuel) (ho : ∀ n ∈ rest, Ordinary n)
    (hp : Plain t path rest nd) : joinReal t strict fuel path rest seen = (path ++ rest, true, seen) := by
  induction rest generalizing fuel path with
  | nil =>
    cases fuel with
    | zero => simp at hf
    | succ f => simp [joinReal]
  | cons n rest ih =>
    cases fuel with
    | zero => simp at hf
    | succ f =>
      obtain ⟨h1, h2, h3⟩ := ho n (by simp)
      obtain ⟨_, _, ⟨x, hx, hnl⟩, hrest⟩ := hp
      have ih' := ih f (path ++ [n]) (by simpa using hf) (fun m hm => ho m (by simp [hm])) hrest
      unfold joinReal
      simp only [h1, h2, h3, or_self, if_false, hx]
      cases x with
      | link tgt => exact absurd rfl (hnl tgt)
      | file id => rw [ih']; simp
      | dir => rw [ih']; simp

theorem resolveT_plain (t : Tree) (p : Path) (nd : Node) (hlen : p.length < 200) (ho : ∀ n ∈ p, Ordinary n)
    (hnul : ∀ n ∈ p, nameHasNul n = false) (hp : Plain t [] p nd) : resolveT t p = some p := by
  unfold resolveT
  have hany : p.any nameHasNul = false := by
    simp only [List.any_eq_false]
    intro n hn'; simp [hnul n hn']
  rw [hany]
  simp only [Bool.false_eq_true, if_false]
  unfold realpathStrict
  rw [joinReal_plain t true 200 [] p nd [] hlen ho hp]
  simp

theorem kwalk_plain (t : Tree) (fuel : Nat) (cur : Path) (rest : List Name) (nd : Node)
    (hf : rest.length < fuel) (ho : ∀ n ∈ rest, Ordinary n) (hp : Plain t cur rest nd) :
    kwalk t fuel cur rest = .found (cur ++ rest) nd := by
  induction rest generalizing fuel cur with
  | nil =>
    cases fuel with
    | zero => simp at hf
    | succ f =>
      have : t.lstat cur = some nd := hp
      simp [kwalk, this]
  | cons n rest ih =>
    cases fuel with
    | zero => simp at hf
    | succ f =>
      obtain ⟨h1, h2, h3⟩ := ho n (by simp)
      obtain ⟨hd, hlen, ⟨x, hx, hnl⟩, hrest⟩ := hp
      have ih' := ih f (cur ++ [n]) (by simpa using hf) (fun m hm => ho m (by simp [hm])) hrest
      unfold kwalk
      simp only [h1, h2, h3, or_self, if_false, hd]
      rw [if_neg (by omega), hx]
      cases x with
      | link tgt => exact absurd rfl (hnl tgt)
      | file id => simp only []; rw [ih']; simp
      | dir => simp only []; rw [ih']; simp

/-- on such a path the tree OS resolves to the path itself and sees the file that is there -/
theorem treeOS_plain (t : Tree) (metas : List FileMeta) (p : Path) (id : Nat)
    (hlen : p.length < 200) (ho : ∀ n ∈ p, Ordinary n) (hnul : ∀ n ∈ p, nameHasNul n = false)
    (hp : Plain t [] p (.file id)) :
    (treeOS t metas).resolve p = some p ∧ (treeOS t metas).kind p = .file ∧
    (treeOS t metas).size p = (metaOf metas id).size ∧
    ((metaOf metas id).utf8 = true → (treeOS t metas).readText p = .ok id) := by
  have hk : kwalkTop t p = .found p (.file id) := by
    unfold kwalkTop
    have := kwalk_plain t 300 [] p (.file id) (by omega) ho hp
    simpa using this
  refine ⟨resolveT_plain t p _ hlen ho hnul hp, ?_, ?_, ?_⟩
  · simp [treeOS, hk]
  · simp [treeOS, kstat, hk]
  · intro hu
    simp [treeOS, kstat, hk, hu]
end Fs
