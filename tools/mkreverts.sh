#!/bin/bash
# regenerate seeded/fixrevert-<commit>/patch.diff (revert of every "fix:" commit on top of /repo's HEAD)
cd /repo && git worktree add -q --detach /tmp/rv HEAD && cd /tmp/rv
for c in $(git log --format=%h 04baf9d..HEAD); do
  git reset -q --hard HEAD
  d=/verif/seeded/fixrevert-$c; mkdir -p $d
  if git revert -n $c >/dev/null 2>&1; then git diff HEAD > $d/patch.diff; echo "$c ok"; else rm -f $d/patch.diff; git revert --abort 2>/dev/null; git reset -q --hard HEAD; echo "$c CONFLICT (use revision $c^)"; fi
done
cd /repo && git worktree remove --force /tmp/rv
