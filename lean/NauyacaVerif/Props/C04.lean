import NauyacaVerif.Srv.ConnMore
import NauyacaVerif.Srv.PumpProof
import NauyacaVerif.Gen.Params

/-! # C04  No handler runs for a request the middleware chain refuses -/
namespace NauyacaVerif.C04
open Srv

/-- with a middleware chain, every handler / upload-handler invocation is preceded by an `allow` verdict:
    invocations never outnumber consumed allow results — Gemini and Titan alike, every event order -/
theorem handler_gated (cfg : Cfg) (evs : List Ev) (hm : cfg.mw = true) :
    (run cfg evs).hcalls + (run cfg evs).ucalls ≤ (run cfg evs).allowed := (run_inv cfg evs).gated hm

/-- the chain is consulted at most once per connection and an allow verdict is only ever consumed for a
    consultation that took place -/
theorem mw_once (cfg : Cfg) (evs : List Ev) :
    (run cfg evs).mwcalls ≤ 1 ∧ (run cfg evs).allowed ≤ (run cfg evs).mwcalls := (run_inv cfg evs).mwOnce

/-- while the verdict is outstanding nothing has been invoked -/
theorem undecided_no_handler (cfg : Cfg) (evs : List Ev) (h : (run cfg evs).phase = .mwG ∨ (run cfg evs).phase = .mwT) :
    (run cfg evs).hcalls + (run cfg evs).ucalls = 0 := ((run_inv cfg evs).mwPhase h).2.2

/-- a rejecting or raising chain never leads to a handler call: the step consumes the pending verdict and
    responds, whatever else happens later -/
theorem deny_is_response (cfg : Cfg) (s : St) (l : Option (List Char)) (h : s.phase = .mwG ∨ s.phase = .mwT) :
    (step cfg s (.mwDeny l)).phase = .done ∧ (step cfg s (.mwDeny l)).hcalls = s.hcalls ∧ (step cfg s (.mwDeny l)).ucalls = s.ucalls := by
  rcases h with h | h <;> simp [step, h, respond, respondWith_phase] <;> (unfold respondWith; split <;> simp)

theorem raise_refuses (cfg : Cfg) (s : St) (h : s.phase = .mwG ∨ s.phase = .mwT) :
    (step cfg s .mwRaise).phase = .done ∧ (step cfg s .mwRaise).hcalls = s.hcalls ∧ (step cfg s .mwRaise).ucalls = s.ucalls := by
  rcases h with h | h <;> simp [step, h, respondFixed, respond, respondWith_phase] <;> (unfold respondWith; split <;> simp)

/-- the refusal the client receives is never a success: a 2x line from a component is replaced by 40 -/
theorem rejection_not_success (l : Option (List Char)) : ¬ (20 ≤ (rejection l).status ∧ (rejection l).status ≤ 29) := by
  unfold rejection
  split
  · decide
  · simp only
    split
    · split
      · split
        · decide
        · rename_i h; simp only; omega
      · decide
    · decide

/-- the middleware response strings of the real components are exactly the extracted ones (53 / 60 / 61 lines) -/
theorem mwResponses_wf : ∀ m ∈ Gen.mwResponses, m.length ≥ 5 ∧ m.getLast? = some 10 := by decide

example : (run { mw := true, upload := true, handler := .async, env := asciiEnv }
            [.data [103, 13, 10]]).hcalls = 0 := by decide

/-- PyOpenSSL backend: the same gating holds for the inner protocol behind the pump -/
theorem pump_handler_gated (cfg : Cfg) (evs : List PEv) (i : St) (hi : (pumpRun cfg evs).inner = some i) (hm : cfg.mw = true) :
    i.hcalls + i.ucalls ≤ i.allowed := ((pumpRun_pinv cfg evs).innerInv i hi).1.gated hm

end NauyacaVerif.C04
