import asyncio, random, ssl, subprocess, sys, tempfile
import nauyaca.protocol
import structlog
structlog.configure(wrapper_class=structlog.make_filtering_bound_logger(50))
from nauyaca.server.protocol import GeminiServerProtocol
from nauyaca.server.tls_protocol import TLSServerProtocol
from nauyaca.security.pyopenssl_tls import create_pyopenssl_server_context
from nauyaca.security.certificates import generate_self_signed_cert
from nauyaca.protocol.response import GeminiResponse

d=tempfile.mkdtemp()
c,k=generate_self_signed_cert("localhost"); open(d+"/c.pem","wb").write(c); open(d+"/k.pem","wb").write(k)
CTX=create_pyopenssl_server_context(d+"/c.pem",d+"/k.pem",True)

class TCP:
    def __init__(s): s.out=[]; s.closed=False; s.after=[]
    def write(s,b): (s.after if s.closed else s.out).append(bytes(b))
    def close(s): s.closed=True
    def is_closing(s): return s.closed
    def get_extra_info(s,n,d=None): return ('127.0.0.1',1) if n=='peername' else d

def records(b):
    """split a TLS byte stream into records (5-byte header)"""
    out=[];i=0
    while i<len(b):
        ln=int.from_bytes(b[i+3:i+5],'big'); out.append(b[i:i+5+ln]); i+=5+ln
    assert i==len(b); return out

def cut(rnd, stream, maxcuts=4):
    if len(stream)<2: return [stream] if stream else []
    cuts=sorted(set(rnd.sample(range(1,len(stream)), min(len(stream)-1, rnd.randint(0,maxcuts)))))
    out=[];p=0
    for c_ in cuts+[len(stream)]: out.append(stream[p:c_]); p=c_
    return out

def items_for(reads, recs_tagged):
    """for each read, the tags of the records whose last byte lies in it"""
    ends=[];pos=0
    for rec,tag in recs_tagged: pos+=len(rec); ends.append((pos,tag))
    res=[];pos=0;j=0
    for r in reads:
        pos+=len(r); cur=[]
        while j<len(ends) and ends[j][0]<=pos: cur.append(ends[j][1]); j+=1
        res.append(cur)
    return res

def enc_cps(s): return "-" if not s else ",".join("%x"%ord(ch) for ch in s)
def enc_resp(r):
    st,meta,body=r
    b = "n" if body is None else ("s:"+enc_cps(body) if isinstance(body,str) else "b:"+(body.hex() or "-"))
    return f"{st}/{enc_cps(meta)}/{b}"

async def one(rnd, loop):
    size=rnd.choice([0,5,100,16383,16384,16385,16400,40000,70000])
    resp=(rnd.choice([20,20,20,51,30]), "text/plain", b"Z"*size if rnd.random()<0.7 else "é"*(size//2))
    up=rnd.random()<0.5
    gates={}; log={'h':0,'u':0}
    def h(req): log['h']+=1; return GeminiResponse(*resp)
    class Up:
        async def handle_upload(self, req):
            log['u']+=1; g=loop.create_future(); gates['u']=g; return await g
    sp=TLSServerProtocol(lambda: GeminiServerProtocol(h, None, Up() if up else None), CTX)
    tcp=TCP(); sp.connection_made(tcp)
    cctx=ssl.SSLContext(ssl.PROTOCOL_TLS_CLIENT); cctx.check_hostname=False; cctx.verify_mode=ssl.CERT_NONE
    inb=ssl.MemoryBIO(); outb=ssl.MemoryBIO(); so=cctx.wrap_bio(inb,outb,server_hostname='localhost')
    evs=[]
    def feed_server(reads, tagged):
        for r,its in zip(reads, items_for(reads,tagged)):
            if tcp.closed: break
            try: sp.data_received(r)
            except Exception as e: print("server raised",type(e).__name__,e)
            evs.append("r:"+",".join(its))
    def to_client():
        for b in tcp.out: inb.write(b)
        tcp.out.clear()
    # flight 1
    try: so.do_handshake()
    except ssl.SSLWantReadError: pass
    f1=outb.read()
    plaintext_mode = rnd.random()<0.06
    if plaintext_mode:
        junk=b"gemini://localhost/\r\n"; reads=cut(rnd,junk,1)
        for r in reads:
            if tcp.closed: break
            sp.data_received(r)
        evs.append("r:b")   # the engine rejects it as soon as a "record" completes
        return evs,resp,up,tcp,b"",log
    feed_server(cut(rnd,f1,2), [(x,'h') for x in records(f1)]); to_client()
    try: so.do_handshake()
    except ssl.SSLWantReadError: pass
    f2=outb.read(); recs=[(x,'h') for x in records(f2)]
    recs[-1]=(recs[-1][0],'H')
    # application records
    kind=rnd.choice(['g','g','t','t','bigline','garbage'])
    if kind=='g': app=[b"gemini://localhost/x\r\n"]+([b"trailing"] if rnd.random()<0.4 else [])
    elif kind=='t': 
        n=rnd.choice([0,3,20000]); content=bytes(rnd.randrange(256) for _ in range(min(n,50)))+b"q"*max(0,n-50)
        app=[b"titan://localhost/f;size=%d\r\n"%n]+([content[:n//2],content[n//2:]] if n else [])+([b"extra1",b"extra2"] if rnd.random()<0.6 else [])
    elif kind=='bigline': app=[b"x"*600,b"y"*600,b"z"*10]
    else: app=[bytes(rnd.randrange(256) for _ in range(rnd.randint(1,40)))]
    if rnd.random()<0.5:   # split the request line itself over two records
        a0=app[0]; m=rnd.randint(1,len(a0)-1) if len(a0)>1 else 1; app=[a0[:m],a0[m:]]+app[1:]
    app=[a for a in app if a]
    stream=f2
    for a in app:
        so.write(a); rb=outb.read()
        for x in records(rb): recs.append((x,'a:'+a.hex()))   # one record per write (<=16384)
        stream+=rb
    if rnd.random()<0.3:
        try: so.unwrap()
        except ssl.SSLWantReadError: pass
        cn=outb.read(); recs+= [(x,'c') for x in records(cn)]; stream+=cn
    feed_server(cut(rnd,stream,5), recs)
    for _ in range(6): await asyncio.sleep(0)
    if 'u' in gates and rnd.random()<0.8:
        g=gates.pop('u'); r2=(20,"text/gemini","ok")
        if not g.done(): g.set_result(GeminiResponse(*r2)); evs.append("i:ua:"+enc_resp(r2))
        for _ in range(6): await asyncio.sleep(0)
    to_client()
    got=b""
    try:
        while True:
            x=so.read(1<<20)
            if not x: break
            got+=x
    except (ssl.SSLWantReadError, ssl.SSLZeroReturnError): pass
    except ssl.SSLError as e: got+=b"<SSLERR>"
    return evs,resp,up,tcp,got,log

def main():
    seed=int(sys.argv[1]); n=int(sys.argv[2]); rnd=random.Random(seed)
    loop=asyncio.new_event_loop(); asyncio.set_event_loop(loop)
    lines=[]; impl=[]
    async def go():
        for _ in range(n):
            evs,resp,up,tcp,got,log=await one(rnd,loop)
            lines.append(f"pump {int(up)} s:{enc_resp(resp)} "+" ".join(evs))
            impl.append((got,tcp.closed,log))
    loop.run_until_complete(go())
    mo=subprocess.run(["/tmp/spike3/Srv/.lake/build/bin/drv"],input="\n".join(lines)+"\n",capture_output=True,text=True).stdout.splitlines()
    bad=0; sizes={}
    for l,(got,closed,log),m in zip(lines,impl,mo):
        exp=f"ok plain={got.hex() or '-'} tcpclosed={'true' if closed else 'false'}"
        mm=m.split(" inner=")[0]
        hu=f"h={log['h']} u={log['u']}"
        sizes[len(got)]=sizes.get(len(got),0)+1
        if exp!=mm or not m.endswith(hu):
            bad+=1
            if bad<6: print("DIFF",l[:260],"\n impl :",exp[:120],hu,"\n model:",m[:160])
    print("cases",n,"diffs",bad,"plaintext sizes seen",sorted(sizes.items())[:12])
main()
