import NauyacaVerif.Srv.Conn
import NauyacaVerif.Srv.Flow

/-! M-Sys: the server connection as a whole — the request side (`Srv.step`: reads, middleware, handlers, timer) composed
    with the response write pump (`Srv.Flow.fstep`: pieces handed to a transport that pauses and resumes).

    `Srv.step` says WHAT is answered (the tokens of one response, then `close`); in the composed machine that decision
    becomes `_send_response`: the pieces of exactly that response are handed to the pump, and from then on the transport's
    events (`limit`, `pause`, `resume`) decide how far the writing has got.  A disconnect reaches both halves.  The text of
    the messages built from Python exceptions (`Out.statusOnly`) is a parameter `dyn`. -/
namespace Srv.Sys
open Srv Srv.Flow

/-- the bytes of one token of the response -/
def outBytes (dyn : Nat → Bytes) : Out → List Bytes
  | .exact b => [b]
  | .statusOnly n => [dyn n]
  | .close => []

/-- all bytes of a response, as `Srv.step` decided it -/
def bytesOf (dyn : Nat → Bytes) (outs : List Out) : Bytes := (outs.flatMap (outBytes dyn)).flatten

/-- what `_send_response` hands to the pump: the header, then the body cut into pieces of `WRITE_CHUNK_SIZE` -/
def piecesOf (dyn : Nat → Bytes) (outs : List Out) : List Bytes :=
  match outs.flatMap (outBytes dyn) with
  | [] => []
  | h :: rest => h :: rest.flatMap (chunk writeChunk)

structure SSt where
  conn : St := {}
  flow : FSt := {}
deriving Repr

inductive SEv where
  | conn (e : Ev)          -- anything the request side sees: data, timer, middleware / handler completions, disconnect
  | limit (k : Nat)        -- the transport will signal pause during the (k+1)-th write from now
  | resume                 -- `resume_writing`
  | pause                  -- `pause_writing`
deriving Repr

def sstep (cfg : Cfg) (dyn : Nat → Bytes) (s : SSt) : SEv → SSt
  | .conn e =>
    let c' := step cfg s.conn e
    let f1 := if c'.sent && !s.conn.sent then fstep s.flow (.send (piecesOf dyn c'.out)) else s.flow
    let f2 := if c'.lost && !s.conn.lost then fstep f1 .lost else f1
    { conn := c', flow := f2 }
  | .limit k => { s with flow := fstep s.flow (.limit k) }
  | .resume => { s with flow := fstep s.flow .resume }
  | .pause => { s with flow := fstep s.flow .pause }

def srun (cfg : Cfg) (dyn : Nat → Bytes) (evs : List SEv) : SSt := evs.foldl (sstep cfg dyn) {}

/-- the bytes that have reached the transport so far -/
def written (s : SSt) : Bytes := s.flow.done.flatten
end Srv.Sys
