import NauyacaVerif.Srv.Render

/-! M-Flow: the response write pump of `GeminiServerProtocol` (`_send_response` / `_pump_response` /
    `pause_writing` / `resume_writing`): the response is cut into pieces (header, then the body in pieces of
    `writeChunk` bytes) which are handed to the transport while it accepts them; the connection is closed
    after the last piece was accepted while the transport was not paused.

    The transport is a parameter: `limit k` says "`pause_writing` will be signalled during the (k+1)-th
    `write` from now" (asyncio signals it synchronously inside `write`); without a limit it never pauses. -/
namespace Srv.Flow

/-- `WRITE_CHUNK_SIZE` -/
def writeChunk : Nat := 65536

inductive W where
  | write (b : Bytes)
  | close
deriving Repr, DecidableEq

/-- `body[i : i + n] for i in range(0, len(body), n)` -/
def chunkFuel (n : Nat) : Nat → Bytes → List Bytes
  | 0, _ => []
  | fuel + 1, b => if b.isEmpty then [] else b.take n :: chunkFuel n fuel (b.drop n)

def chunk (n : Nat) (b : Bytes) : List Bytes := chunkFuel n b.length b

/-- the pieces of a response: `[header] + chunks(body)` -/
def pieces (r : Resp) : List Bytes := (render r).1 :: chunk writeChunk (render r).2

structure FSt where
  started : Bool := false        -- `_response_sent`
  unsent : List Bytes := []      -- `_unsent`
  paused : Bool := false         -- `_write_paused`
  budget : Option Nat := none    -- transport: pause is signalled during write number budget+1 (none: never)
  out : List W := []
  closed : Bool := false
  lost : Bool := false
  all : List Bytes := []         -- ghost: the pieces handed over by `_send_response`
  done : List Bytes := []        -- ghost: the pieces written so far
deriving Repr

/-- `_pump_response` -/
def pump (s : FSt) : FSt :=
  if s.paused || s.lost || s.closed || !s.started then s else
  match s.budget with
  | none => { s with out := s.out ++ s.unsent.map .write ++ [.close], unsent := [], closed := true, done := s.done ++ s.unsent }
  | some k =>
    if k < s.unsent.length then
      -- the (k+1)-th write triggers pause_writing: that piece is still written, then the loop stops
      { s with out := s.out ++ (s.unsent.take (k + 1)).map .write, unsent := s.unsent.drop (k + 1), paused := true, budget := none,
               done := s.done ++ s.unsent.take (k + 1) }
    else
      { s with out := s.out ++ s.unsent.map .write ++ [.close], unsent := [], closed := true, budget := some (k - s.unsent.length),
               done := s.done ++ s.unsent }

inductive FEv where
  | send (ps : List Bytes)       -- `_send_response` with these pieces (ignored if a response was already sent)
  | limit (k : Nat)              -- the transport will signal pause during the (k+1)-th write from now
  | resume                       -- `resume_writing`
  | pause                        -- `pause_writing` outside a write (the transport's buffer filled by itself)
  | lost                         -- `connection_lost`
deriving Repr

def fstep (s : FSt) : FEv → FSt
  | .send ps => if s.started || s.lost then s else pump { s with started := true, unsent := ps, all := ps }
  | .limit k => { s with budget := some k }
  | .resume => pump { s with paused := false }
  | .pause => { s with paused := true }
  | .lost => { s with lost := true }

def frun (evs : List FEv) : FSt := evs.foldl fstep {}

end Srv.Flow
