import NauyacaVerif.Misc.Tofu
import NauyacaVerif.Misc.SqlEnv
/-!
The `known_hosts` table of `TOFUDatabase` (security/tofu.py) as a world for the TRANSLATED database methods
(`Gen/Fn/Tofu*.lean`): one operation per SQL statement the code issues (the translator maps the statement TEXT to the
operation and refuses any other text), with SQLite's transaction behaviour: statements act on the connection's pending
view, `commit` makes it durable, closing the connection without a commit discards it.  Rows are `(hostname, port) ↦
fingerprint` (the timestamp columns never influence a decision); hostnames and fingerprints are opaque numbers.
Trusted: that each statement text means the operation it is mapped to here (SQL semantics), and PRIMARY KEY (hostname, port).
-/
namespace Misc

structure Db where
  committed : Pins          -- what a new connection sees / what survives a crash
  pending : Pins            -- this connection's view
deriving Repr

/-- a freshly opened connection on a store -/
def Db.opened (s : Pins) : Db := ⟨s, s⟩

/-- SELECT fingerprint FROM known_hosts WHERE hostname = ? AND port = ?  (+ fetchone) -/
def Db.selectFp (w : Db) (h p : Nat) : Db × Option Fp := (w, w.pending.get (h, p))
/-- INSERT INTO known_hosts (...) VALUES (...) -/
def Db.insert (w : Db) (h p : Nat) (f : Fp) : Db × Except DbErr Unit :=
  if (w.pending.get (h, p)).isSome then (w, .error .integrity) else ({ w with pending := ((h, p), f) :: w.pending }, .ok ())
/-- UPDATE known_hosts SET fingerprint = ?, last_seen = ? WHERE hostname = ? AND port = ? -/
def Db.updateFp (w : Db) (f : Fp) (h p : Nat) : Db :=
  { w with pending := w.pending.map (fun e => if e.1 == (h, p) then (e.1, f) else e) }
/-- UPDATE known_hosts SET last_seen = ? WHERE hostname = ? AND port = ? -/
def Db.touch (w : Db) (_h _p : Nat) : Db := w
/-- DELETE FROM known_hosts WHERE hostname = ? AND port = ?  (+ rowcount) -/
def Db.delete (w : Db) (h p : Nat) : Db × Nat :=
  ({ w with pending := w.pending.filter (·.1 != (h, p)) }, (w.pending.filter (·.1 == (h, p))).length)
/-- DELETE FROM known_hosts WHERE hostname = ? -/
def Db.deleteHost (w : Db) (h : Nat) : Db × Nat :=
  ({ w with pending := w.pending.filter (·.1.1 != h) }, (w.pending.filter (·.1.1 == h)).length)
/-- DELETE FROM known_hosts -/
def Db.deleteAll (w : Db) : Db × Nat := ({ w with pending := [] }, w.pending.length)
/-- conn.commit() -/
def Db.commit (w : Db) : Db := { w with committed := w.pending }
/-- conn.close(): whatever was not committed is gone -/
def Db.close (w : Db) : Db := { w with pending := w.committed }

/-- the table world as an instance of the statement interface -/
def pinsEnv : SqlEnv Db Nat where
  selectFp := Db.selectFp
  insert := Db.insert
  updateFp := Db.updateFp
  touch := Db.touch
  delete := Db.delete
  deleteHost := Db.deleteHost
  deleteAll := Db.deleteAll
  commit := Db.commit
  close := Db.close

/-- the verdict of `TOFUDatabase.verify` on a store: (is_valid, message) -/
def verdict (s : Pins) (k : Key) (c : Fp) : Bool × List Char :=
  match s.get k with
  | none => (true, ['f', 'i', 'r', 's', 't', '_', 'u', 's', 'e'])
  | some old => if old = c then (true, []) else (false, ['c', 'h', 'a', 'n', 'g', 'e', 'd'])

end Misc
