import NauyacaVerif.Mw.BucketProof
import Mathlib.Tactic.Positivity
namespace Mw

/-- admitted requests when one bucket sees the arrival times `ts` (in order) -/
def runCount (c : LCfg) : Bucket → List Rat → Nat
  | _, [] => 0
  | b, t :: ts => let r := consume c b t; (if r.2 then 1 else 0) + runCount c r.1 ts

def Sorted : Rat → List Rat → Prop
  | _, [] => True
  | a, t :: ts => a ≤ t ∧ Sorted t ts

def lastOr (a : Rat) : List Rat → Rat
  | [] => a
  | t :: ts => lastOr t ts

theorem lastOr_ge (a : Rat) (ts : List Rat) (h : Sorted a ts) : a ≤ lastOr a ts := by
  induction ts generalizing a with
  | nil => simp [lastOr]
  | cons t ts ih => simp [lastOr]; exact le_trans h.1 (ih t h.2)

/-- C10 core: from any bucket state with `0 ≤ tokens ≤ cap`, the number of requests admitted over a
    time-ordered run is at most the tokens in hand plus what refills during the run -/
theorem window (c : LCfg) (hr : 0 ≤ c.rate) (b : Bucket) (ts : List Rat)
    (hs : Sorted b.last ts) (h0 : 0 ≤ b.tokens) (hc : b.tokens ≤ c.cap) :
    (runCount c b ts : Rat) ≤ b.tokens + (lastOr b.last ts - b.last) * c.rate := by
  induction ts generalizing b with
  | nil => simp [runCount, lastOr]; exact h0
  | cons t ts ih =>
    obtain ⟨h1, h2⟩ := hs
    simp only [runCount, lastOr]
    have hge := lastOr_ge t ts h2
    have hel : 0 ≤ (t - b.last) * c.rate := mul_nonneg (by linarith) hr
    have hmin : min c.cap (b.tokens + (t - b.last) * c.rate) ≤ b.tokens + (t - b.last) * c.rate := min_le_right _ _
    have hmin2 : min c.cap (b.tokens + (t - b.last) * c.rate) ≤ c.cap := min_le_left _ _
    have hmin0 : 0 ≤ min c.cap (b.tokens + (t - b.last) * c.rate) := le_min (by linarith) (by linarith)
    unfold consume Bucket.level
    simp only []
    split
    · rename_i hge1
      have := ih { tokens := min c.cap (b.tokens + (t - b.last) * c.rate) - 1, last := t } h2
        (by show (0:Rat) ≤ min c.cap (b.tokens + (t - b.last) * c.rate) - 1; linarith)
        (by show min c.cap (b.tokens + (t - b.last) * c.rate) - 1 ≤ c.cap; linarith)
      simp at this ⊢
      push_cast
      nlinarith [this]
    · have := ih { tokens := min c.cap (b.tokens + (t - b.last) * c.rate), last := t } h2
        (by simpa using hmin0) (by simpa using hmin2)
      simp at this ⊢
      nlinarith [this]

/-- the bound of the property statement: never more than `capacity + refill_rate × T` in a window -/
theorem window_cap (c : LCfg) (hr : 0 ≤ c.rate) (b : Bucket) (ts : List Rat)
    (hs : Sorted b.last ts) (h0 : 0 ≤ b.tokens) (hc : b.tokens ≤ c.cap) :
    (runCount c b ts : Rat) ≤ c.cap + (lastOr b.last ts - b.last) * c.rate := by
  have := window c hr b ts hs h0 hc; linarith
end Mw
