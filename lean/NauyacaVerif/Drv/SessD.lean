import NauyacaVerif.Drv.Common
import NauyacaVerif.Misc.TofuHist
namespace NauyacaVerif.Drv.SessD
open NauyacaVerif.Drv Misc

/-! `tofu <on|off> <store> <op>*`   (C03, C11)

    store  ::= `-` | `h.p=f,h.p=f,…`                 (host id, port, fingerprint id: decimal)
    op     ::= `g:<hop>` | `u:<hop>` | `r:<hop>/<hop>/…`   get / upload / redirect chain
             | `t:h.p=f` | `v:h.p` | `vh:h` | `c`          trust / revoke / revoke_by_hostname / clear
             | `im:<s|u>:<store>` | `ir:<s|u>:<store>`     import merge / replace, conflicts skipped / updated
             | `pa:<g|u>.<hop>:<g|u>.<hop>`                two OVERLAPPING calls; only as the last op.  Its step shows
                                                           both serialisations: `<recA,recB;store>~<recA,recB;store>`
                                                           (first A then B ~ first B then A; records always in the order A,B)
    hop    ::= `h.p.<f|x>`                                 x = verification cannot be completed: unreadable certificate,
                                                           or the pin store fails at lookup (`Misc.connectStoreFault`,
                                                           same outcome and trace as the unreadable case)
    output ::= `ok <step>*`, step ::= `<rec,rec,…|->;<store'>`
    rec    ::= `A:<n>` | `C<old>/<new>:<n>` | `R:<n>`      n = number of writes the peer received -/

def parseKey (s : String) : Option Key :=
  match s.splitOn "." with
  | [h, p] => match h.toNat?, p.toNat? with
    | some a, some b => some (a, b)
    | _, _ => none
  | _ => none

def parseEntry (s : String) : Option (Key × Fp) :=
  match s.splitOn "=" with
  | [k, f] => match parseKey k, f.toNat? with
    | some key, some fp => some (key, fp)
    | _, _ => none
  | _ => none

def parseStore (s : String) : Option Pins :=
  if s == "-" then some [] else (s.splitOn ",").mapM parseEntry

def parseHop (chunks : List Nat) (s : String) : Option Hop :=
  match s.splitOn "." with
  | [h, p, c] =>
    match h.toNat?, p.toNat? with
    | some a, some b =>
      if c == "x" then some ⟨(a, b), .unreadable, chunks, 20⟩
      else match c.toNat? with
        | some fp => some ⟨(a, b), .cert fp, chunks, 20⟩
        | none => none
    | _, _ => none
  | _ => none

def parseOp (s : String) : Option Op :=
  match s.splitOn ":" with
  | ["g", h] => (parseHop [1] h).map Op.fetch
  | ["u", h] => (parseHop [1, 2] h).map Op.upload
  | ["r", hs] => ((hs.splitOn "/").mapM (parseHop [1])).map Op.chain
  | ["t", e] => (parseEntry e).map (fun x => Op.trust x.1 x.2)
  | ["v", k] => (parseKey k).map Op.revoke
  | ["vh", h] => h.toNat?.map Op.revokeHost
  | ["c"] => some Op.clear
  | ["im", m, st] => if m == "s" ∨ m == "u" then (parseStore st).map (Op.importToml false (m == "u")) else none
  | ["ir", m, st] => if m == "s" ∨ m == "u" then (parseStore st).map (Op.importToml true (m == "u")) else none
  | _ => none

def insertSorted (e : Key × Fp) : List (Key × Fp) → List (Key × Fp)
  | [] => [e]
  | x :: xs => if e.1.1 < x.1.1 ∨ (e.1.1 = x.1.1 ∧ e.1.2 ≤ x.1.2) then e :: x :: xs else x :: insertSorted e xs

def showStore (s : Pins) : String :=
  if s.isEmpty then "-"
  else ",".intercalate ((s.foldr insertSorted []).map (fun e => s!"{e.1.1}.{e.1.2}={e.2}"))

def showRec (r : Rec) : String :=
  let n := (peerReceived r.acts).length
  match r.out with
  | .accepted _ => s!"A:{n}"
  | .changed a b => s!"C{a}/{b}:{n}"
  | .refused => s!"R:{n}"

def showStep (x : Pins × List Rec) : String :=
  (if x.2.isEmpty then "-" else ",".intercalate (x.2.map showRec)) ++ ";" ++ showStore x.1

/-- TOFU off: every hop is `connectOff` (accepted, store untouched); the other operations are direct
    `TOFUDatabase` calls and behave as always -/
def offRec (s : Pins) (h : Hop) : Rec :=
  { before := s, k := h.k, p := h.p, out := (connectOff s h.k h.p h.payload h.response).2.1, after := s,
    acts := (connectOff s h.k h.p h.payload h.response).2.2 }

def stepOff (s : Pins) : Op → Pins × List Rec
  | .fetch h => (s, [offRec s h])
  | .upload h => (s, [offRec s h])
  | .chain hs => (s, hs.map (offRec s))
  | o => stepOp s o

def runStepsOff (s : Pins) : List Op → List (Pins × List Rec)
  | [] => []
  | o :: os => stepOff s o :: runStepsOff (stepOff s o).1 os

/-- `g.h.p.c` / `u.h.p.c` -/
def parseCall (s : String) : Option Hop :=
  match s.splitOn "." with
  | [k, h, p, c] =>
    if k == "g" then parseHop [1] s!"{h}.{p}.{c}"
    else if k == "u" then parseHop [1, 2] s!"{h}.{p}.{c}"
    else none
  | _ => none

def parsePar (s : String) : Option (Hop × Hop) :=
  match s.splitOn ":" with
  | ["pa", a, b] => match parseCall a, parseCall b with
    | some x, some y => some (x, y)
    | _, _ => none
  | _ => none

/-- both serialisations of two overlapping single calls, records reported in the order (A, B) -/
def showPar (on : Bool) (s : Pins) (a b : Hop) : String :=
  if on then
    let ra := mkRec s a
    let rb := mkRec ra.after b
    let rb' := mkRec s b
    let ra' := mkRec rb'.after a
    s!"{showRec ra},{showRec rb};{showStore rb.after}~{showRec ra'},{showRec rb'};{showStore ra'.after}"
  else
    s!"{showRec (offRec s a)},{showRec (offRec s b)};{showStore s}~{showRec (offRec s a)},{showRec (offRec s b)};{showStore s}"

def lastStore (s : Pins) (steps : List (Pins × List Rec)) : Pins :=
  match steps.getLast? with
  | some x => x.1
  | none => s

def handle : List String → Option String
  | "tofu" :: mode :: store :: ops =>
    if mode != "on" && mode != "off" then some "bad-op" else
    let on := mode == "on"
    let par := match ops.getLast? with
      | some l => if l.startsWith "pa:" then some l else none
      | none => none
    let seqOps := if par.isSome then ops.dropLast else ops
    match parseStore store, seqOps.mapM parseOp with
    | some s, some os =>
      let steps := if on then runSteps s os else runStepsOff s os
      let shown := steps.map showStep
      match par with
      | none => some ("ok " ++ " ".intercalate shown)
      | some l =>
        match parsePar l with
        | some (a, b) => some ("ok " ++ " ".intercalate (shown ++ [showPar on (lastStore s steps) a b]))
        | none => some "bad-op"
    | _, _ => some "bad-op"
  | _ => none
end NauyacaVerif.Drv.SessD
