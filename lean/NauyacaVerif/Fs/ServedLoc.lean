import NauyacaVerif.Fs.Static
import NauyacaVerif.Fs.TreeOS
import NauyacaVerif.Fs.CanonProof
import NauyacaVerif.Mw.Cert

/-! # Where the thing the static handler delivers is located, as a canonical URL path

Ties `Fs.handle` (which file) to `Mw.Cert.Served` (which location the certificate rules must be
judged on).  Both the handler and the middleware start from `Canon.canonSegs`: the middleware
matches its prefixes against `Canon.render (canonSegs raw)`, the handler looks up
`pathComps (render (canonSegs raw)) = (canonSegs raw).1` below the root. -/
namespace Fs
open Canon Mw.Cert

/-- canonical URL path of the resource whose names below the root are `names` -/
def locStr (names : List Cps) : Str := 47 :: joinSlash names

theorem joinSlash_snoc (segs : List Cps) (i : Cps) (h : segs ≠ []) :
    joinSlash (segs ++ [i]) = joinSlash segs ++ 47 :: i := by
  induction segs with
  | nil => exact absurd rfl h
  | cons s rest ih =>
    cases rest with
    | nil => simp [joinSlash]
    | cons s2 rest2 =>
      have := ih (by simp)
      simp only [List.cons_append] at this ⊢
      rw [joinSlash_cons2, this, joinSlash_cons2]
      simp

theorem canonSegs_trailing (raw : Cps) (h : (Canon.canonSegs raw).2 = true) : (Canon.canonSegs raw).1 ≠ [] := by
  unfold Canon.canonSegs at h ⊢
  simp only [Bool.and_eq_true, Bool.not_eq_true', List.isEmpty_eq_false_iff] at h
  exact h.1

/-- last character of a rendered canonical path -/
theorem render_noSlash_last (segs : List Cps) (hne : segs ≠ []) (h : ∀ s ∈ segs, Clean s) :
    (render (segs, false)).getLast? ≠ some 47 := by
  obtain ⟨c, hc, hne47⟩ := joinSlash_last segs hne h
  have hj : joinSlash segs ≠ [] := by intro e; rw [e] at hc; simp at hc
  unfold render
  simp only [Bool.false_eq_true, if_false, List.append_nil]
  rw [List.getLast?_cons, hc]
  simpa using hne47

theorem render_slash_last (segs : List Cps) : (render (segs, true)).getLast? = some 47 := by
  unfold render
  simp only [if_true]
  rw [List.getLast?_append]
  simp

theorem findIndex_mem (os : OS) (cfg : SCfg) (hsym : ∀ q, os.resolve q = some q) (dir : Path) (ns : List Name)
    (ip : Path) (h : findIndex os cfg dir ns = some ip) : ∃ n ∈ ns, ip = dir ++ [n] := by
  induction ns with
  | nil => simp [findIndex] at h
  | cons n ns ih =>
    simp only [findIndex] at h
    split at h
    · rw [hsym] at h
      simp only at h
      split at h
      · simp at h; exact ⟨n, by simp, h.symm⟩
      · obtain ⟨m, hm, e⟩ := ih h; exact ⟨m, by simp [hm], e⟩
    · obtain ⟨m, hm, e⟩ := ih h; exact ⟨m, by simp [hm], e⟩

/-- **served location** (symlink-free capsule: every path is its own resolution): the file
    delivered for canonical segments `segs` / trailing flag `t` sits at `segs` itself or at
    `segs/index`, and that location is related to the canonical request path as `Served` says -/
theorem served_location (os : OS) (cfg : SCfg) (idx : List Cps) (hidx : cfg.indices = idx.map toName)
    (hi : ∀ i ∈ idx, 47 ∉ i) (hsym : ∀ q, os.resolve q = some q)
    (segs : List Cps) (t : Bool) (hclean : ∀ s ∈ segs, Clean s) (ht : t = true → segs ≠ [])
    (p : Path) (id : Nat) (h : handle os cfg (segs.map toName) t = .file p id) :
    ∃ names, p = cfg.root ++ names.map toName ∧ Served (render (segs, t)) (locStr names) := by
  rcases handle_cases os cfg _ t _ h with h1 | h1 | ⟨fp, hfp, _, hc⟩
  · cases h1
  · cases h1
  · rw [hsym] at hfp
    have hfp' : fp = cfg.root ++ segs.map toName := by simpa using hfp.symm
    rcases hc with ⟨_, hr⟩ | ⟨_, htf, hr⟩
    · -- a directory: its index
      obtain ⟨ip, hip, hs⟩ := serveDir_file os cfg fp p id hr.symm
      obtain ⟨rfl, _, _, _⟩ := serveFile_file os cfg ip p id hs
      obtain ⟨n, hn, rfl⟩ := findIndex_mem os cfg hsym fp cfg.indices _ hip
      rw [hidx, List.mem_map] at hn
      obtain ⟨i, hii, rfl⟩ := hn
      refine ⟨segs ++ [i], by simp [hfp'], ?_⟩
      by_cases hseg : segs = []
      · subst hseg
        have htf : t = false := by
          cases t with
          | false => rfl
          | true => exact absurd rfl (ht rfl)
        subst htf
        have e1 : render (([] : List Cps), false) = [47] := by simp [render, joinSlash]
        have e2 : locStr ([] ++ [i]) = [47] ++ i := by simp [locStr, joinSlash]
        rw [e1, e2]
        exact Served.dirSlash i (by simp) (hi i hii)
      · cases t with
        | true =>
          have e2 : locStr (segs ++ [i]) = render (segs, true) ++ i := by
            simp [locStr, render, joinSlash_snoc segs i hseg]
          rw [e2]
          exact Served.dirSlash i (render_slash_last segs) (hi i hii)
        | false =>
          have e2 : locStr (segs ++ [i]) = render (segs, false) ++ [47] ++ i := by
            simp [locStr, render, joinSlash_snoc segs i hseg]
          rw [e2]
          exact Served.dirNoSlash i (render_noSlash_last segs hseg hclean) (hi i hii)
    · -- not a directory, no trailing slash: the file itself
      obtain ⟨rfl, _, _, _⟩ := serveFile_file os cfg fp p id hr.symm
      subst htf
      refine ⟨segs, hfp', ?_⟩
      have e : locStr segs = render (segs, false) := by simp [locStr, render]
      rw [e]
      by_cases hseg : segs = []
      · subst hseg
        exact Served.dirListing (by simp [render, joinSlash])
      · exact Served.file (render_noSlash_last segs hseg hclean)

/-- the same for directory listings: the listed directory is the one the request names -/
theorem served_listing (os : OS) (cfg : SCfg) (hsym : ∀ q, os.resolve q = some q)
    (segs : List Cps) (t : Bool) (hclean : ∀ s ∈ segs, Clean s) (ht : t = true → segs ≠ [])
    (p : Path) (ns : List Name) (h : handle os cfg (segs.map toName) t = .listing p ns) :
    p = cfg.root ++ segs.map toName ∧
    Served (render (segs, t)) (if segs = [] then [47] else locStr segs ++ [47]) := by
  rcases handle_cases os cfg _ t _ h with h1 | h1 | ⟨fp, hfp, _, hc⟩
  · cases h1
  · cases h1
  · rw [hsym] at hfp
    have hfp' : fp = cfg.root ++ segs.map toName := by simpa using hfp.symm
    rcases hc with ⟨_, hr⟩ | ⟨_, _, hr⟩
    · obtain ⟨rfl, _, _, _⟩ := serveDir_listing os cfg fp p ns hr.symm
      refine ⟨hfp', ?_⟩
      by_cases hseg : segs = []
      · subst hseg
        cases t with
        | false =>
          have e1 : render (([] : List Cps), false) = [47] := by simp [render, joinSlash]
          rw [e1]; simp only [if_true]
          exact Served.dirListing (by simp)
        | true => exact absurd rfl (ht rfl)
      · rw [if_neg hseg]
        cases t with
        | true =>
          have e : locStr segs ++ [47] = render (segs, true) := by simp [locStr, render]
          rw [e]
          exact Served.dirListing (render_slash_last segs)
        | false =>
          have e : locStr segs ++ [47] = render (segs, false) ++ [47] := by simp [locStr, render]
          rw [e]
          exact Served.dirNoSlashListing (render_noSlash_last segs hseg hclean)
    · exact absurd hr.symm (serveFile_not_listing _ _ _ _ _)
end Fs
