#!/venv/bin/python
"""Regenerate /verif/MANIFEST.json from the property modules under harness/props."""
import importlib, json, sys
from pathlib import Path
VERIF = Path(__file__).resolve().parent.parent
sys.path.insert(0, str(VERIF))
from harness import core
core.setup_import_path()
ids = [json.loads(l)["id"] for l in (VERIF / "properties.jsonl").read_text().splitlines() if l.strip()]
checks, na = [], []
for pid in ids:
    f = VERIF / "harness" / "props" / f"{pid.lower()}.py"
    if not f.exists():
        na.append({"property_id": pid, "reason": "check not built yet (the Lean model and theorems exist under design/spikes; not claimed until wired to a check)"})
        continue
    m = importlib.import_module(f"harness.props.{pid.lower()}")
    if not getattr(m, "READY", False):
        na.append({"property_id": pid, "reason": "check under construction (module exists but is not yet marked READY); not claimed"})
        continue
    text = getattr(m, "LEVEL_TEXT", "Lean 4 theorems over an executable model, tied to the code by extraction and differential correspondence on every run.")
    note = getattr(m, "LEVEL_NOTE", "Trusted: Lean kernel; axioms propext/Classical.choice/Quot.sound; hand-written model tied to /repo by correspondence (differential testing) and extraction; harness simulators.")
    if len(text) < 40:          # a bare "partial"/"proof": say what that means here
        text = f"{text}: {note}"
    tr = list(getattr(m, "TRANSLATED", []))
    if tr:
        ths = [t.rsplit(".", 1)[-1] for t in getattr(m, "THEOREMS", []) if t.startswith("NauyacaVerif.Translated.")]
        text += (" Translation tie: on every run " + ", ".join(tr) + " are re-translated from the current source into Lean definitions (harness/translate.py) and "
                 "proved against the hand-written model (" + ", ".join(ths) + "); an edit that changes what they compute breaks a proof, one that leaves the "
                 "translatable subset fails the obligation translate:<fn>.")
    checks.append({
        "property_id": pid,
        "quick_cmd": f"./check {pid} --tier quick",
        "thorough_cmd": f"./check {pid} --tier thorough",
        "evidence_file": f"evidence/{pid}.json",
        "replay_cmd_template": f"./check {pid} --replay {{path}}",
        "engine": "lean4-proof+correspondence",
        "level_claimed": {"category": "proof", "text": text,
                          "design_ref": f"DESIGN.md §5 {pid}"},
        "level_note": note,
        "technique": getattr(m, "TECHNIQUE", "Lean 4 machine-checked proof over a hand-written model + differential correspondence with the implementation"),
    })
man = {
    "version": 1,
    "setup_cmd": "/venv/bin/python -m harness.setup",
    "hooks": {"guard": "NAUYACA_VERIF", "enable": "no source hooks: all instrumentation is done from outside (substituted transports, event loop, sqlite3 shim, handlers); the checks set NAUYACA_VERIF=1 for uniformity",
              "baseline_off_cmd": "cd /repo && /venv/bin/python -m pytest -q -p no:cacheprovider --timeout=900", "source_commits": [], "add_only": True},
    "engines": [{"name": "lean4-proof+correspondence", "path": "lean/", "serves_properties": [c["property_id"] for c in checks],
                 "kind_free_text": "Lean 4.33 project (models, lemmas, property theorems, compiled line-protocol driver) + Python correspondence harness under harness/ driven by ./check"}],
    "checks": checks,
    "notes": "One entry point: ./check <id> --tier quick|thorough [--replay file]. Evidence is rewritten on every run. known_findings.json lists recorded findings and fixed defects.",
    "not_applicable": na,
}
(VERIF / "MANIFEST.json").write_text(json.dumps(man, indent=1) + "\n")
print("MANIFEST.json:", len(checks), "checks,", len(na), "not claimed")
