import NauyacaVerif.Gen.Fn
import NauyacaVerif.Mw.Bucket
import NauyacaVerif.Mw.Acl
import NauyacaVerif.Url.Proxy
import NauyacaVerif.Fs.Canon

/-! # Translated functions = hand-written models

`Gen/Fn.lean` is produced on every run by `harness/translate.py` from the Python AST of four decision functions
of the CURRENT source tree.  The theorems below prove each generated definition equal to the hand-written model
the property theorems are about.  An edit that changes what one of these functions computes changes the generated
definition and breaks its theorem here; an edit that leaves the translator's subset removes the definition and the
theorem no longer elaborates.  Used by C10 (`consume`), C09 (`isAllowed`), C04 (`chain`) and C17 (`upstreamUrl`). -/
namespace NauyacaVerif.Translated
open NauyacaVerif.Gen

/-- `TokenBucket.consume` (translated) is the model's `Mw.consume` for one token -/
theorem consume_eq (c : Mw.LCfg) (b : Mw.Bucket) (now : Rat) :
    let r := Fn.consume ⟨c.cap, c.rate, b.tokens, b.last⟩ now 1
    (r.1.tokens, r.1.last_update, r.2) = ((Mw.consume c b now).1.tokens, (Mw.consume c b now).1.last, (Mw.consume c b now).2) := by
  simp only [Fn.consume, Mw.consume, Mw.Bucket.level]
  split <;> simp_all

/-- … and it never touches capacity or refill rate -/
theorem consume_frame (s : Fn.BucketSt) (now k : Rat) :
    (Fn.consume s now k).1.capacity = s.capacity ∧ (Fn.consume s now k).1.refill_rate = s.refill_rate := by
  simp only [Fn.consume]; split <;> simp

theorem any_denyHit (ns : List Mw.Net) (a : Mw.Addr) : ns.any (fun n => n.contains a) = Mw.denyHit ns a := by
  induction ns with
  | nil => rfl
  | cons n ns ih => simp only [List.any_cons, Mw.denyHit, ih]; cases n.contains a <;> simp

theorem any_allowHit (ns : List Mw.Net) (a : Mw.Addr) : ns.any (fun n => n.contains a) = Mw.allowHit ns a := by
  induction ns with
  | nil => rfl
  | cons n ns ih => simp only [List.any_cons, Mw.allowHit, ih]; cases n.contains a <;> simp

/-- `AccessControl._is_allowed` (translated) is the model's `Mw.isAllowed` -/
theorem isAllowed_eq (acl : Mw.Acl) (a : Option Mw.Addr) :
    Fn.isAllowed acl.deny acl.allow acl.dflt a = Mw.isAllowed acl a := by
  cases a with
  | none => rfl
  | some x =>
    have hsame : ∀ ns, Mw.allowHit ns x = Mw.denyHit ns x := by
      intro ns; rw [← any_allowHit, ← any_denyHit]
    simp only [Fn.isAllowed, Mw.isAllowed, any_denyHit, hsame]
    cases Mw.denyHit acl.deny x <;> cases h : acl.allow.isEmpty <;> simp [h]

/-- `MiddlewareChain.process_request` (translated): the verdict is the first rejecting component's, and its
    response is what is returned; with no rejecting component the chain admits -/
theorem chain_first_reject (rs : List (Bool × Option (List Char))) :
    (Fn.chain rs = (true, none) ↔ ∀ r ∈ rs, r.1 = true) ∧
    (∀ pre r post, rs = pre ++ r :: post → (∀ q ∈ pre, q.1 = true) → r.1 = false → Fn.chain rs = (false, r.2)) := by
  constructor
  · simp only [Fn.chain]
    cases h : rs.find? (fun r => !r.1) with
    | none =>
      simp only [true_iff]
      intro r hr
      have := List.find?_eq_none.mp h r hr
      simpa using this
    | some r =>
      have hm := List.mem_of_find?_eq_some h
      have hp := List.find?_some h
      simp only [Prod.mk.injEq, Bool.false_eq_true, false_and, false_iff]
      intro hall
      have := hall r hm
      simp [this] at hp
  · intro pre r post hrs hpre hr
    subst hrs
    simp only [Fn.chain]
    have : (pre ++ r :: post).find? (fun r => !r.1) = some r := by
      rw [List.find?_append]
      have h1 : pre.find? (fun r => !r.1) = none := List.find?_eq_none.mpr (by intro q hq; simp [hpre q hq])
      simp [h1, hr]
    rw [this]

/-- `ProxyHandler._handle_async` up to the upstream URL (translated) is the model's
    `upstream ++ mapPath … path ++ ("?" ++ query if query)` -/
theorem upstreamUrl_eq (strip : Bool) (pre up path query : List Char) :
    Fn.upstreamUrl strip pre up path query = up ++ Url.mapPathRaw pre strip path ++ (if query.isEmpty then [] else '?' :: query) := by
  have hpre : ∀ l : List Char, (['/'] : List Char).isPrefixOf l = (l.head? == some '/') := by
    intro l
    cases l with
    | nil => rfl
    | cons a t =>
      by_cases h : a = '/'
      · subst h; simp [List.isPrefixOf]
      · have h' : ¬ '/' = a := fun hh => h hh.symm
        have e1 : ('/' == a) = false := by simpa using h'
        have e2 : (a == '/') = false := by simpa using h
        simp [List.isPrefixOf, e1, e2]
  have hsuf : (['/'] : List Char).isSuffixOf pre = (pre.getLast? == some '/') := by
    rw [← List.head?_reverse]
    exact hpre pre.reverse
  simp only [Fn.upstreamUrl, Url.mapPathRaw, Url.mapPath, hsuf, hpre]
  by_cases h1 : (strip && pre.isPrefixOf path) = true
  · simp only [h1, ↓reduceIte]
    by_cases h2 : ((pre.getLast? == some '/') || (path.drop pre.length == []) || ((path.drop pre.length).head? == some '/')) = true
    · have h2' : (pre.getLast? = some '/' || (path.drop pre.length).isEmpty || (path.drop pre.length).head? = some '/') = true := by
        simpa [List.isEmpty_iff] using h2
      simp only [h2, h2', ↓reduceIte]
      by_cases h3 : ((path.drop pre.length).head? == some '/') = true
      · have h3' : (path.drop pre.length).head? = some '/' := by simpa using h3
        simp only [h3, h3', Bool.not_true, Bool.false_eq_true, ↓reduceIte]
        by_cases hq : query.isEmpty = true <;> simp [hq, List.append_assoc]
      · have h3' : ¬ (path.drop pre.length).head? = some '/' := by simpa using h3
        simp only [h3, h3', Bool.not_false, ↓reduceIte]
        by_cases hq : query.isEmpty = true <;> simp [hq, List.append_assoc]
    · have h2' : ¬ (pre.getLast? = some '/' || (path.drop pre.length).isEmpty || (path.drop pre.length).head? = some '/') = true := by
        simpa [List.isEmpty_iff] using h2
      simp only [h2, h2', Bool.false_eq_true, ↓reduceIte]
      by_cases hq : query.isEmpty = true <;> simp [hq, List.append_assoc]
  · simp only [h1, Bool.false_eq_true, ↓reduceIte]
    by_cases hq : query.isEmpty = true <;> simp [hq, List.append_assoc]

theorem intercalate_joinSlash (segs : List (List Nat)) : List.intercalate [47] segs = Fs.Canon.joinSlash segs := by
  induction segs with
  | nil => rfl
  | cons a t ih =>
    cases t with
    | nil => simp [List.intercalate, Fs.Canon.joinSlash]
    | cons b u =>
      have : List.intercalate [47] (a :: b :: u) = a ++ 47 :: List.intercalate [47] (b :: u) := by
        simp [List.intercalate, List.intersperse]
      rw [this, ih]; rfl

/-- the loop body of `canonical_path` (translated) is the model's `Fs.Canon.foldSeg` -/
theorem canonStep_eq (acc : List (List Nat)) (p : List Nat) :
    (if ((p == ([] : List Nat)) || (p == ([46] : List Nat))) then acc
     else if (p == ([46, 46] : List Nat)) then (if (!acc.isEmpty) then acc.dropLast else acc)
     else acc ++ [p]) = Fs.Canon.foldSeg acc p := by
  unfold Fs.Canon.foldSeg Fs.Canon.dot Fs.Canon.dotdot
  by_cases h1 : p = []
  · simp [h1]
  · by_cases h2 : p = [46]
    · simp [h2]
    · by_cases h3 : p = [46, 46]
      · subst h3
        cases acc <;> simp
      · simp [h1, h2, h3]

/-- `canonical_path` (translated; `unquote` and `str.split` are parameters) is the model's rendering of
    `segsOf parts` with the trailing-slash rule -/
theorem canonicalPath_eq (decoded : List Nat) (parts : List (List Nat)) :
    Fn.canonicalPath decoded parts =
      Fs.Canon.render (Fs.Canon.segsOf parts, !(Fs.Canon.segsOf parts).isEmpty && Fs.Canon.dotty (parts.getLast?.getD [])) := by
  have hfold : (parts.foldl (fun segments part =>
      if ((part == ([] : List Nat)) || (part == ([46] : List Nat))) then segments
      else if (part == ([46, 46] : List Nat)) then (if (!segments.isEmpty) then segments.dropLast else segments)
      else segments ++ [part]) []) = Fs.Canon.segsOf parts := by
    unfold Fs.Canon.segsOf
    congr 1
    funext acc p
    exact canonStep_eq acc p
  simp only [Fn.canonicalPath]
  rw [hfold]
  unfold Fs.Canon.render Fs.Canon.dotty Fs.Canon.dot Fs.Canon.dotdot
  simp only [intercalate_joinSlash]
  by_cases h : (!(Fs.Canon.segsOf parts).isEmpty && ((parts.getLast?.getD []) == ([] : List Nat) || (parts.getLast?.getD []) == ([46] : List Nat) || (parts.getLast?.getD []) == ([46, 46] : List Nat))) = true
  · simp only [h, ↓reduceIte]
    have h' : (!(Fs.Canon.segsOf parts).isEmpty && (decide (parts.getLast?.getD [] = []) || decide (parts.getLast?.getD [] = [46]) || decide (parts.getLast?.getD [] = [46, 46]))) = true := by
      simpa using h
    simp [h', List.append_assoc]
  · simp only [h, Bool.false_eq_true, ↓reduceIte]
    have h' : (!(Fs.Canon.segsOf parts).isEmpty && (decide (parts.getLast?.getD [] = []) || decide (parts.getLast?.getD [] = [46]) || decide (parts.getLast?.getD [] = [46, 46]))) = false := by
      simpa using h
    simp [h']
end NauyacaVerif.Translated
