import NauyacaVerif.Srv.Conn
/-!
The attributes of `GeminiServerProtocol` (server/protocol.py) that `data_received` reads and writes, as the state threaded through
its TRANSLATION (`Gen/Fn/DataReceived.lean`, which also contains the inlined `_handle_titan_url`).  The methods it calls and does
not contain — `_send_error_response`, `_handle_gemini_request`, `_process_titan_upload`, `TitanRequest.from_line`,
`get_peer_certificate` — are the parameters `DrEnv`; what they do to the connection rides along in the ghost field `m`
(a state of the hand-written model `Srv.St`), so that the translated code can be compared with `Srv.step`.
-/
namespace Srv

structure TReq where
  size : Nat
  content : Bytes := []
deriving Repr

structure PState where
  _request_dispatched : Bool := false
  _response_sent : Bool := false
  buffer : Bytes := []
  url_line_received : Bool := false
  awaiting_titan_content : Bool := false
  titan_request : Option TReq := none
  timeout_handle : Bool := true       -- `self.timeout_handle is not None`
  m : St := {}                         -- ghost: effects of the called methods, the timer and the upload content

/-- `CRLF in data` -/
def hasCRLF (b : Bytes) : Bool := (findCRLF b).isSome
/-- `data.split(CRLF, 1)` behind `CRLF in data` -/
def cutCRLF (b : Bytes) : Bytes × Bytes :=
  match findCRLF b with
  | some i => (b.take i, b.drop (i + 2))
  | none => (b, [])
/-- `data.decode("utf-8")`: the text, or UnicodeDecodeError -/
def decodeUtf8E (b : Bytes) : Except Unit (List Char) :=
  match decodeUtf8 b with
  | some s => .ok s
  | none => .error ()

def PState.titanSize (s : PState) : Nat := match s.titan_request with | some t => t.size | none => 0
/-- `TitanRequest.is_delete()`: `self.size == 0` -/
def PState.isDelete (s : PState) : Bool := s.titanSize == 0
/-- `self.titan_request.content = c` -/
def PState.setContent (s : PState) (c : Bytes) : PState :=
  { s with titan_request := s.titan_request.map (fun t => { t with content := c }), m := { s.m with content := c } }
/-- `self.titan_request.client_cert = …` / `.client_cert_fingerprint = …`: not part of the framing -/
def PState.noteCert (s : PState) : PState := s
/-- `self.timeout_handle.cancel()` -/
def PState.cancelTimer (s : PState) : PState := { s with m := { s.m with timer := false } }

structure DrEnv where
  upload : Bool                                              -- `self.upload_handler` is set
  peerCert : Bool                                            -- `self.get_peer_certificate()` returned a certificate
  titanFromLine : List Char → Except (List Char) TReq        -- `TitanRequest.from_line(url)` (ValueError text)
  sendError : PState → Nat → List Char → PState              -- `self._send_error_response(status, message)`
  geminiRequest : PState → List Char → PState                -- `self._handle_gemini_request(url)`
  processUpload : PState → PState                            -- `self._process_titan_upload()`

/-- what `_handle_gemini_request` and `_process_titan_upload` call and do not contain -/
structure DispEnv where
  mw : Bool                                                   -- `self.middleware` is set
  upload : Bool                                               -- `self.upload_handler` is set
  geminiFromLine : List Char → Except (List Char) Unit        -- `GeminiRequest.from_line(url)` (ValueError text)
  sendError : PState → Nat → List Char → PState               -- `self._send_error_response(status, message)`
  route : PState → PState                                     -- `self._route_request(request, client_ip)`
  startMwG : PState → PState × Unit                           -- `asyncio.create_task(self.middleware.process_request(…))` for a Gemini request
  startMwT : PState → PState × Unit                           -- … for a Titan upload
  startUpload : PState → PState                               -- `self._start_titan_upload(client_ip)`

/-- what `_handle_middleware_result` calls and does not contain -/
structure MwEnv where
  taskResult : Except Unit (Bool × Option (List Char))        -- `task.result()`: the chain's (allow, response line), or its exception
  sendError : PState → Nat → List Char → PState
  reject : PState → Option (List Char) → PState               -- `self._send_middleware_rejection(error_response)`
  route : PState → PState
  startUpload : PState → PState

/-- what `_handle_async_handler_result` / `_handle_titan_upload_result` call and do not contain -/
structure ResEnv where
  taskResult : Except (List Char) Resp                        -- `task.result()`: the handler's response, or the text of its exception
  sendError : PState → Nat → List Char → PState
  sendResponse : PState → Resp → PState                       -- `self._send_response(response)`

/-- what `_send_middleware_rejection` calls and does not contain -/
structure RejEnv where
  sendResponse : PState → Resp → PState                       -- `self._send_response(response)`

/-- `"Request refused"` -/
def refusedText : List Char := "Request refused".toList
/-- `line.removesuffix("\r\n")` -/
def dropCRLF (l0 : List Char) : List Char :=
  if l0.length ≥ 2 ∧ l0.drop (l0.length - 2) = ['\r', '\n'] then l0.take (l0.length - 2) else l0
/-- `code, _, text = line.partition(" ")` -/
def part (l : List Char) : List Char × List Char :=
  match Url.splitOnce ' ' l with
  | some (a, b) => (a, b)
  | none => (l, [])
/-- `len(t) == 2 and t.isascii() and t.isdigit()` -/
def twoDigits (c : List Char) : Bool :=
  match c with
  | [a, b] => a.isDigit && b.isDigit
  | _ => false
/-- `int(t)` of two ASCII digits -/
def intOf (c : List Char) : Nat :=
  match c with
  | [a, b] => (a.toNat - 48) * 10 + (b.toNat - 48)
  | _ => 0
/-- `GeminiResponse(status=status, meta=meta)` -/
def mkResp (status : Nat) (m : List Char) : Resp := ⟨(status : Int), m.map Char.toNat, .none⟩

end Srv
