import NauyacaVerif.Url.Basic
import NauyacaVerif.Url.Proof
namespace Url

/-! # C08, soundness direction: lines the protocol forbids never parse

`MustReject` is written directly on the raw request line, without reference to the
parser's stages.  It is only meant for *clean* lines (no C0 control or space characters,
so that `urlsplit`'s stripping is the identity); lines with such characters are a grey zone. -/

def CleanLine (l : Str) : Prop := l.all (fun c => !isC0OrSpace c) = true

def gemLit : Str := ['g', 'e', 'm', 'i', 'n', 'i']

/-- text before the first `:` (whole line if there is none) -/
def beforeColon (l : Str) : Str := l.takeWhile (· ≠ ':')
/-- text after the first `:` -/
def afterColon (l : Str) : Str := (l.dropWhile (· ≠ ':')).drop 1
/-- authority: between `//` and the first of `/ ? #` -/
def authority (l : Str) : Str := ((afterColon l).drop 2).takeWhile (fun c => !isDelim c)

inductive MustReject (l : Str) : Prop
  | noColon : ':' ∉ l → MustReject l
  | scheme : (beforeColon l).map lowerAscii ≠ gemLit → MustReject l
  | noSlashes : (afterColon l).take 2 ≠ ['/', '/'] → MustReject l
  | emptyAuthority : authority l = [] → MustReject l
  | fragment : (∃ pre suf, l = pre ++ '#' :: suf ∧ suf ≠ []) → MustReject l

theorem clean_preprocess {l : Str} (h : CleanLine l) : preprocess l = l := by
  unfold preprocess
  have h1 : l.dropWhile isC0OrSpace = l := by
    cases l with
    | nil => rfl
    | cons c cs =>
      have : isC0OrSpace c = false := by
        have := List.all_eq_true.mp h c (by simp)
        simpa using this
      simp [List.dropWhile, this]
  rw [h1, List.filter_eq_self]
  intro c hc
  have := List.all_eq_true.mp h c hc
  simp only [Bool.not_eq_true', isC0OrSpace, decide_eq_false_iff_not, Nat.not_le] at this
  simp only [isUnsafe, Bool.not_eq_true', Bool.or_eq_false_iff, decide_eq_false_iff_not]
  refine ⟨⟨?_, ?_⟩, ?_⟩ <;> (intro hh; subst hh; simp at this)

theorem findIdx_takeWhile (p : Char → Bool) (l : Str) {i : Nat} (h : findIdx p l = some i) :
    l.take i = l.takeWhile (fun c => !p c) ∧ l.drop (i + 1) = (l.dropWhile (fun c => !p c)).drop 1 := by
  induction l generalizing i with
  | nil => simp [findIdx] at h
  | cons c cs ih =>
    simp only [findIdx] at h
    split at h
    · rename_i hc; simp at h; subst h; simp [List.takeWhile, List.dropWhile, hc]
    · rename_i hc
      simp at h; obtain ⟨j, hj, rfl⟩ := h
      have := ih hj
      simp [List.takeWhile, List.dropWhile, hc, this.1, this.2]

theorem findIdx_some_of_mem (p : Char → Bool) (l : Str) (h : ∃ c ∈ l, p c = true) : ∃ i, findIdx p l = some i := by
  induction l with
  | nil => simp at h
  | cons c cs ih =>
    simp only [findIdx]
    split
    · exact ⟨0, rfl⟩
    · rename_i hc
      obtain ⟨d, hd, hp⟩ := h
      simp at hd
      rcases hd with rfl | hd
      · exact absurd hp hc
      · obtain ⟨i, hi⟩ := ih ⟨d, hd, hp⟩
        exact ⟨i + 1, by simp [hi]⟩

theorem splitScheme_fst (l : Str) :
    (splitScheme l).1 = [] ∨ (':' ∈ l ∧ (splitScheme l).1 = (beforeColon l).map lowerAscii) := by
  unfold splitScheme
  cases hf : findIdx (· = ':') l with
  | none => left; rfl
  | some i =>
    simp only
    have ht := (findIdx_takeWhile (· = ':') l hf).1
    have e : (fun c => !decide (c = ':')) = (fun c => decide (c ≠ ':')) := by funext c; simp
    rw [e] at ht
    have hmem : ':' ∈ l := by
      apply Decidable.byContradiction
      intro hn
      have : findIdx (· = ':') l = none := findIdx_none_iff.mpr (by
        apply List.all_eq_true.mpr; intro c hcm; simp; intro hcc; subst hcc; exact hn hcm)
      rw [this] at hf; simp at hf
    by_cases hok : schemeOk l i = true
    · right; rw [if_pos hok]; exact ⟨hmem, by simp [beforeColon, ht]⟩
    · left; rw [if_neg hok]

/-- the checks that do not depend on the authority: scheme and fragment -/
theorem parseSplit_badScheme (env : Env) (sp : Split) (h : sp.scheme ≠ gemini) : ∃ e, parseSplit env sp = .error e := by
  unfold parseSplit
  by_cases h1 : sp.scheme.isEmpty = true
  · exact ⟨_, by rw [if_pos h1]⟩
  · rw [if_neg h1, if_pos h]; exact ⟨_, rfl⟩

theorem parseUrl_of_split (env : Env) (l : Str) (P : Split → Prop)
    (hsp : ∀ sp, urlsplit env l = .ok sp → P sp)
    (hrej : ∀ sp, P sp → ∃ e, parseSplit env sp = .error e) : ∃ e, parseUrl env l = .error e := by
  unfold parseUrl
  by_cases he : l.isEmpty = true
  · exact ⟨_, by rw [if_pos he]⟩
  rw [if_neg he]
  cases hu : urlsplit env l with
  | error e => exact ⟨e, rfl⟩
  | ok sp => exact hrej sp (hsp sp hu)

theorem urlsplit_scheme (env : Env) (l : Str) (hc : CleanLine l) (sp : Split) (h : urlsplit env l = .ok sp) :
    sp.scheme = (splitScheme l).1 := by
  unfold urlsplit at h
  rw [clean_preprocess hc] at h
  generalize splitScheme l = sc at h ⊢
  obtain ⟨scheme, u1⟩ := sc
  simp only at h ⊢
  generalize splitNetloc u1 = nlp at h
  obtain ⟨netloc, u2⟩ := nlp
  generalize splitTail u2 = tl at h
  obtain ⟨path, query, fragment⟩ := tl
  simp only at h
  split at h
  · simp at h
  · simp at h; rw [← h]

/-- C08: no colon, or a scheme other than gemini — `parse_url` raises, whatever the opaque checks say -/
theorem reject_scheme (env : Env) (l : Str) (hc : CleanLine l)
    (h : ':' ∉ l ∨ (beforeColon l).map lowerAscii ≠ gemLit) : ∃ e, parseUrl env l = .error e := by
  apply parseUrl_of_split env l (fun sp => sp.scheme ≠ gemini)
  · intro sp hsp
    rw [urlsplit_scheme env l hc sp hsp]
    rcases splitScheme_fst l with h0 | ⟨hm, h1⟩
    · rw [h0]; decide
    · rcases h with h | h
      · exact absurd hm h
      · rw [h1]; exact h
  · intro sp hp; exact parseSplit_badScheme env sp hp

theorem urlsplit_netloc (env : Env) (l : Str) (hc : CleanLine l) (sp : Split) (h : urlsplit env l = .ok sp) :
    sp.netloc = (splitNetloc (splitScheme l).2).1 := by
  unfold urlsplit at h
  rw [clean_preprocess hc] at h
  generalize splitScheme l = sc at h ⊢
  obtain ⟨scheme, u1⟩ := sc
  simp only at h ⊢
  generalize splitNetloc u1 = nlp at h ⊢
  obtain ⟨netloc, u2⟩ := nlp
  generalize splitTail u2 = tl at h
  obtain ⟨path, query, fragment⟩ := tl
  simp only at h ⊢
  split at h
  · simp at h
  · simp at h; rw [← h]

theorem splitScheme_snd (l : Str) (h : (splitScheme l).1 ≠ []) : (splitScheme l).2 = afterColon l := by
  unfold splitScheme at h ⊢
  cases hf : findIdx (· = ':') l with
  | none => simp [hf] at h
  | some i =>
    simp only [hf] at h ⊢
    by_cases hok : schemeOk l i = true
    · rw [if_pos hok]
      have := (findIdx_takeWhile (· = ':') l hf).2
      have e : (fun c => !decide (c = ':')) = (fun c => decide (c ≠ ':')) := by funext c; simp
      rw [e] at this
      simpa [afterColon] using this
    · rw [if_neg hok] at h; simp at h

theorem takeWhile_all {p : Char → Bool} {l : Str} (h : ∀ c ∈ l, p c = true) : l.takeWhile p = l := by
  induction l with
  | nil => rfl
  | cons c cs ih =>
    have hc := h c (by simp)
    simp only [List.takeWhile, hc]
    rw [ih (fun d hd => h d (by simp [hd]))]

theorem splitNetloc_fst (u : Str) :
    (splitNetloc u).1 = if u.take 2 = ['/', '/'] then (u.drop 2).takeWhile (fun c => !isDelim c) else [] := by
  unfold splitNetloc
  split
  · cases hf : findIdx isDelim (u.drop 2) with
    | none =>
      have hall := findIdx_none_iff.mp hf
      simp only [hf]
      exact (takeWhile_all (fun c hc => List.all_eq_true.mp hall c hc)).symm
    | some j => simp only [hf]; exact (findIdx_takeWhile isDelim _ hf).1
  · rfl

theorem hostname_nil (env : Env) : hostname env [] = none := by
  simp [hostname, hostinfo, rsplitOnce, splitOnce, findIdx]

theorem parseSplit_noHost (env : Env) (sp : Split) (h : sp.netloc = []) : ∃ e, parseSplit env sp = .error e := by
  unfold parseSplit
  by_cases h1 : sp.scheme.isEmpty = true
  · exact ⟨_, by rw [if_pos h1]⟩
  rw [if_neg h1]
  by_cases h2 : sp.scheme ≠ gemini
  · exact ⟨_, by rw [if_pos h2]⟩
  rw [if_neg h2, h, hostname_nil]
  exact ⟨_, rfl⟩

/-- C08: a line without `//` after the scheme, or with nothing between `//` and the first
    delimiter, has no host — `parse_url` raises -/
theorem reject_no_authority (env : Env) (l : Str) (hc : CleanLine l)
    (h : (afterColon l).take 2 ≠ ['/', '/'] ∨ authority l = []) : ∃ e, parseUrl env l = .error e := by
  apply parseUrl_of_split env l (fun sp => sp.scheme ≠ gemini ∨ sp.netloc = [])
  · intro sp hsp
    by_cases hs : sp.scheme = gemini
    · right
      have hsc := urlsplit_scheme env l hc sp hsp
      have hne : (splitScheme l).1 ≠ [] := by rw [← hsc, hs]; decide
      rw [urlsplit_netloc env l hc sp hsp, splitScheme_snd l hne, splitNetloc_fst]
      rcases h with h | h
      · rw [if_neg h]
      · split
        · exact h
        · rfl
    · left; exact hs
  · intro sp hp
    rcases hp with hp | hp
    · exact parseSplit_badScheme env sp hp
    · exact parseSplit_noHost env sp hp

example : MustReject ['h', 't', 't', 'p', ':', '/', '/', 'x'] := .scheme (by decide)
example : MustReject ['g', 'e', 'm', 'i', 'n', 'i', ':', '/', '/', '/', 'x'] := .emptyAuthority (by decide)
end Url
