namespace Mw

structure LCfg where
  cap : Rat
  rate : Rat
  age : Rat := 600      -- idle age after which clean-up considers a bucket
deriving Repr

structure Bucket where
  tokens : Rat
  last : Rat
deriving Repr

/-- tokens a bucket would hold at time `t` (lazy refill) -/
def Bucket.level (c : LCfg) (b : Bucket) (t : Rat) : Rat := min c.cap (b.tokens + (t - b.last) * c.rate)

/-- `TokenBucket.consume()` at time `now` -/
def consume (c : LCfg) (b : Bucket) (now : Rat) : Bucket × Bool :=
  let l := b.level c now
  if l ≥ 1 then ({ tokens := l - 1, last := now }, true) else ({ tokens := l, last := now }, false)

abbrev Ip := Nat
abbrev Store := List (Ip × Bucket)

def Store.find (s : Store) (ip : Ip) : Option Bucket := (s.find? (·.1 == ip)).map (·.2)
def Store.set (s : Store) (ip : Ip) (b : Bucket) : Store := (ip, b) :: s.filter (·.1 != ip)

/-- seconds between two passes of `_cleanup_loop` (`asyncio.sleep(300)`) -/
def cleanupPeriod : Rat := 300

inductive LEv where
  | req (ip : Ip) (t : Rat)
  | cleanup (t : Rat)
deriving Repr

/-- `RateLimiter.process_request` -/
def request (c : LCfg) (s : Store) (ip : Ip) (now : Rat) : Store × Bool :=
  let b := (s.find ip).getD { tokens := c.cap, last := now }
  let (b', ok) := consume c b now
  (s.set ip b', ok)

/-- one pass of the (repaired) clean-up loop: evict idle buckets that have refilled completely -/
def cleanup (c : LCfg) (s : Store) (now : Rat) : Store :=
  s.filter (fun p => !(now - p.2.last > c.age && p.2.tokens + (now - p.2.last) * c.rate ≥ c.cap))

def stepL (c : LCfg) (s : Store) : LEv → Store × Option Bool
  | .req ip t => let (s', ok) := request c s ip t; (s', some ok)
  | .cleanup t => (cleanup c s t, none)

def runL (c : LCfg) : Store → List LEv → List Bool
  | _, [] => []
  | s, e :: es => let (s', o) := stepL c s e; (match o with | some b => [b] | none => []) ++ runL c s' es

/-! ### the refusal line: f"44 Rate limit exceeded. Retry after {retry_after} seconds\r\n" -/
def rlPrefix : List Nat := [52, 52, 32, 82, 97, 116, 101, 32, 108, 105, 109, 105, 116, 32, 101, 120, 99, 101, 101, 100, 101, 100, 46, 32, 82, 101, 116, 114, 121, 32, 97, 102, 116, 101, 114, 32]
def rlSuffix : List Nat := [32, 115, 101, 99, 111, 110, 100, 115, 13, 10]

/-- `str(int)` as code points -/
def intDigits (i : Int) : List Nat :=
  (if i < 0 then [45] else []) ++ (Nat.toDigits 10 i.natAbs).map Char.toNat

def rateLimitLine (retry : Int) : List Nat := rlPrefix ++ intDigits retry ++ rlSuffix

/-- what `RateLimiter.process_request` returns next to the decision: `none` when admitted -/
def limiterResponse (retry : Int) (ok : Bool) : Option (List Nat) :=
  if ok then none else some (rateLimitLine retry)
end Mw
